"""Demo for property C20: a number formatted with its error reads back as
that number and that error.

Run as ``cd <worktree> && /venv/bin/python /path/to/demo.py``.

Exercises ``xyzpy.format_number_with_error`` (and the two places that show
its result: ``RunningStatistics.__repr__`` and the progress description of
``estimate_from_repeats``) and checks

1. the property itself: the produced string, read with the usual convention,
   denotes the error rounded to two significant figures and the value rounded
   to the same last digit;
2. exact agreement (strings *and* exceptions) with a frozen copy of the
   reference implementation, over a dense sample around every rounding
   boundary and a set of unusual argument types.

No files are written by the code under test; a temporary directory is only
used as the working area for captured output and is removed at the end.
"""

import os
import sys

sys.path.insert(0, os.getcwd())

import contextlib
import io
import itertools
import math
import random
import re
import shutil
import tempfile
from decimal import Decimal
from fractions import Fraction

import numpy as np

import xyzpy
import xyzpy.utils as xu

assert os.path.dirname(os.path.abspath(xyzpy.__file__)) == os.path.join(
    os.getcwd(), "xyzpy"
), xyzpy.__file__

fmt = xyzpy.format_number_with_error


# ------------------------- frozen reference copy --------------------------- #


def reference(x, err):
    x_exponent = max(
        int(f"{x:e}".split("e")[1]),
        int(f"{err:e}".split("e")[1]) + 1,
    )
    hide_exponent = (x_exponent in (0, -1)) or (
        (x_exponent == +1) and (err < abs(x / 10))
    )
    if hide_exponent:
        suffix = ""
    else:
        x = x / 10**x_exponent
        err = err / 10**x_exponent
        suffix = f"e{x_exponent:+03d}"
    mantissa, exponent = f"{err:.1e}".split("e")
    mantissa, exponent = mantissa.replace(".", ""), int(exponent)
    return f"{x:.{max(0, 1 - exponent)}f}({mantissa}){suffix}"


def outcome(fn, *args):
    try:
        return ("ok", fn(*args))
    except Exception as e:  # noqa
        return ("raise", type(e).__name__, str(e))


# ----------------------------- reading back -------------------------------- #

PATTERN = re.compile(r"(-?)(\d+)(?:\.(\d+))?\((\d+)\)(?:e([+-]\d+))?")


def read_back(s):
    """Read 'd.ddd(ee)e+XX' by the usual convention, exactly."""
    m = PATTERN.fullmatch(s)
    assert m is not None, s
    sign, whole, frac, digits, power = m.groups()
    frac = frac or ""
    power = int(power or 0)
    unit = Fraction(10) ** (power - len(frac))
    value = int(whole + frac) * unit
    if sign:
        value = -value
    return value, int(digits) * unit, unit, digits


def check_property(x, err):
    if err >= 9.9e307:
        # when the error shows as 1e+308 the scale 10**309 does not convert
        # to float: the library raises here (on the unmodified tree too);
        # only require the very same outcome
        a, b = outcome(fmt, x, err), outcome(reference, x, err)
        assert a == b, (x, err, a, b)
        if a[0] == "raise":
            assert a[1] == "OverflowError", (x, err, a)
            return "0.0(00)e+309"
    s = fmt(x, err)
    value, error, unit, digits = read_back(s)
    fx, ferr = Fraction(x), Fraction(err)
    # two significant figures of error
    assert len(digits) == 2 and 10 <= int(digits) <= 99, (x, err, s)
    # ... which is the error rounded at that digit
    assert abs(error - ferr) <= unit * Fraction(500001, 1000000), (x, err, s)
    # and the rounding digit is the second significant one of the error
    # ('10' may come from rounding 9.95.. up)
    assert ferr < 100 * unit and ferr * 1000 >= unit * 9949, (x, err, s)
    # the value is rounded to the same last digit
    ratio = ferr / abs(fx) if fx else None
    slack = Fraction(11, 20) if (ratio and ratio < 10**-8) else Fraction(
        500001, 1000000
    )
    assert abs(value - fx) <= unit * slack, (x, err, s)
    # and agrees with the frozen reference
    assert s == reference(x, err), (x, err, s)
    return s


# ------------------------------ the sample --------------------------------- #


def sample():
    rng = random.Random(20)
    x_mants = [
        1.0, 1.0000001, 1.234567890123, 2.5, 4.999999, 9.5,
        9.95, 9.96, 9.995, 9.99999999, 9.999999999999,
    ]
    e_mants = [
        1.0, 1.04, 1.05, 1.0500001, 1.15, 1.25, 1.5, 2.45, 2.55, 3.14159,
        5.0, 9.4, 9.94, 9.949, 9.9499999, 9.95, 9.9500001, 9.951, 9.96,
        9.99, 9.999, 9.99999999,
    ]
    x_exps = [-300, -299, -150, -17, -5, -3, -2, -1, 0, 1, 2, 3, 5, 16, 22,
              23, 150, 299, 300]
    ratios = [-12, -11, -9, -6, -3, -2, -1, 0, 1, 2, 3, 6, 9, 11, 12]
    for xm, xe, sgn in itertools.product(x_mants, x_exps, (1, -1)):
        x = sgn * float(f"{xm!r}e{xe}")
        if not (1e-300 <= abs(x) <= 1e300):
            continue
        for em in e_mants:
            for r in ratios:
                err = float(f"{em!r}e{xe + r}")
                if not (0 < err < math.inf):
                    continue
                q = err / abs(x)
                if 1e-12 <= q <= 1e12:
                    yield x, err
    # err / x near 0.1 and near 1
    for xe in (-300, -40, -2, -1, 0, 1, 2, 7, 299):
        for _ in range(150):
            x = rng.uniform(1, 10) * 10.0**xe * rng.choice((1, -1))
            for centre in (0.1, 1.0):
                for d in (0.0, 1e-15, -1e-15, 1e-9, -1e-9, 1e-3, -1e-3,
                          4e-3, -6e-3):
                    err = abs(x) * centre * (1 + d)
                    if 0 < err < math.inf and 1e-300 <= abs(x) <= 1e300:
                        yield x, err
    # x near powers of ten, err with mantissa in 9.95 - 10.0
    for xe in range(-12, 13):
        for d in (0.0, 1e-16, -1e-16, 3e-13, -3e-13, 1e-7, -1e-7):
            x = 10.0**xe * (1 + d)
            for ee in range(xe - 11, xe + 12):
                for _ in range(4):
                    err = rng.uniform(9.95, 10.0) * 10.0**ee
                    if 1e-12 <= err / abs(x) <= 1e12:
                        yield x, err
                        yield -x, err
    # log-uniform random
    for _ in range(20000):
        x = rng.choice((1, -1)) * 10 ** rng.uniform(-300, 300)
        err = abs(x) * 10 ** rng.uniform(-12, 12)
        if 0 < err < math.inf:
            yield x, err
    # x = 0 with any error
    for ee in range(-300, 301, 3):
        for em in (1.0, 1.05, 2.5, 9.94, 9.95, 9.96, 9.999999):
            yield 0.0, float(f"{em!r}e{ee}")
            yield -0.0, float(f"{em!r}e{ee}")


def main():
    workdir = tempfile.mkdtemp(prefix="c20-demo-")
    try:
        run(workdir)
    finally:
        shutil.rmtree(workdir, ignore_errors=True)
    assert not os.path.exists(workdir)
    print("PASS")


def run(workdir):
    # 1. the property, densely
    n = 0
    seen_shapes = set()
    for x, err in sample():
        s = check_property(x, err)
        seen_shapes.add(("e" in s, "." in s))
        n += 1
    assert n > 50000, n
    # the three possible shapes occur: exponent shown (always with decimals),
    # no exponent with decimals, no exponent and no decimals
    assert seen_shapes == {(True, True), (False, True), (False, False)}, (
        seen_shapes
    )

    # 2. documented and hand-worked examples
    expected = {
        (0.1542412, 0.0626653): "0.154(63)",
        (-128124123097, 6424): "-1.281241231(64)e+11",
        (99.99, 9.96): "100(10)",
        (12.3456, 0.001): "12.3456(10)",
        (3, 2): "0.30(20)e+01",
        (5, 99.6): "0.1(10)e+02",
        (0.0, 3.0): "0.00(30)e+01",
        (0.0, 0.5): "0.00(50)",
        (0.0, 5e10): "0.00(50)e+11",
        (1e300, 1e307): "0.00(10)e+308",
        (1234.5, 0.0996): "1.23450(10)e+03",
        (0.05, 0.00123): "5.00(12)e-02",
        (0.5, 0.0123): "0.500(12)",
        (-42.0, 4.1): "-42.0(41)",
        (42.0, 4.2): "4.20(42)e+01",
        (42.0, 4.3): "4.20(43)e+01",
        (1.0, 1e-12): "1.0000000000000(10)",
        (1.0, 1e12): "0.00(10)e+13",
    }
    for (x, err), want in expected.items():
        got = fmt(x, err)
        assert got == reference(x, err), (x, err, got)
        assert got == want, (x, err, got, want)

    # 3. other argument types and improper arguments: same strings, same
    #    exceptions (type and message) as the frozen reference
    odd = [
        (3, 2), (10, 1), (100, 1), (True, 0.1), (7, 70),
        (np.float64(15.5), np.float64(0.31)),
        (np.float32(1.5), np.float32(0.01)),
        (np.float32(1500.0), np.float32(3.0)),
        (np.array(15.5), np.array(0.3)),
        (np.int64(12345), np.int64(12)),
        (Decimal("1.5"), Decimal("0.02")),
        (Decimal("1500"), Decimal("2")),
        (Decimal("1e-400"), Decimal("1e-402")),
        (Fraction(3, 2), Fraction(1, 50)),
        (Fraction(30001, 2), Fraction(7, 3)),
        (1.5, 0.0), (0.0, 0.0), (1.0, -0.2), (-15.0, -0.2), (123.0, -45.0),
        (float("nan"), 1.0), (1.0, float("nan")), (float("nan"), "a"),
        (float("inf"), 1.0), (-float("inf"), 1.0), (1.0, float("inf")),
        ("a", 1), ("a", "b"), (1, None), (None, 1), (1.0, "b"),
        (1 + 2j, 0.1), (1.0, 1 + 2j), ([1.0], 0.1), (np.arange(3.0), 0.1),
        (12.0, np.arange(3.0)), (0.0, 1e-320), (5e-324, 5e-324),
        (1.7e308, 1.7e308), (1e308, 1e-300), (10**400, 10**390),
        (10**400, 1.0), (12.0, Decimal("0.5")), (Decimal("12"), 0.5),
        (Decimal("1.5"), 0.01),
    ]
    for x, err in odd:
        a = outcome(fmt, x, err)
        b = outcome(reference, x, err)
        assert a == b, (x, err, a, b)

    # 4. the displays built on the formatter
    rs = xyzpy.RunningStatistics()
    assert repr(rs) == "RunningStatistics(mean=None, count=0)"
    mine = Welford()
    values = [1.1, 1.4, 1.2, 1.5, 1.3, 1.6, -250.0, 1e-3, 4e7]
    for v in values:
        rs.update(v)
        mine.update(v)
        if mine.err > 0:
            want = (
                "RunningStatistics("
                f"mean={reference(mine.mean, mine.err)}, count={mine.count})"
            )
            assert repr(rs) == want == str(rs), (repr(rs), want)
            text = repr(rs)[len("RunningStatistics(mean="):].split(",")[0]
            value, error, unit, _ = read_back(text)
            assert abs(error - Fraction(rs.err)) <= unit * Fraction(51, 100)
            assert abs(value - Fraction(rs.mean)) <= unit * Fraction(51, 100)
        else:
            # one sample: zero error, still formatted the reference way
            assert repr(rs) == (
                "RunningStatistics("
                f"mean={reference(mine.mean, mine.err)}, count={mine.count})"
            )
    rs0 = xyzpy.RunningStatistics()
    rs0.count = 0.0  # compares equal to zero: still the fixed text
    assert repr(rs0) == "RunningStatistics(mean=None, count=0)"
    rs1 = xyzpy.RunningStatistics()
    rs1.update(2.5)
    assert repr(rs1) == "RunningStatistics(mean=2.5(00), count=1)"

    # 5. estimate_from_repeats: descriptions shown while sampling, the final
    #    print, and the three kinds of return value
    for verbosity, get in itertools.product((0, 1, 2, 3),
                                            ("stats", "samples", "mean")):
        check_estimate(workdir, verbosity, get)

    # an exception from inside the sampled function closes the bar and
    # propagates
    def bad(n):
        raise RuntimeError("boom")

    bars = []
    with patched_progbar(bars), contextlib.redirect_stderr(io.StringIO()):
        try:
            xyzpy.estimate_from_repeats(bad, 3, verbosity=2)
        except RuntimeError as e:
            assert str(e) == "boom"
        else:
            raise AssertionError("no exception")
    assert len(bars) == 1 and bars[0].closed == 1 and bars[0].descriptions == []


class Welford:
    def __init__(self):
        self.count, self.mean, self.M2 = 0, 0.0, 0.0

    def update(self, x):
        self.count += 1
        delta = x - self.mean
        self.mean += delta / self.count
        self.M2 += delta * (x - self.mean)

    @property
    def err(self):
        return (self.M2 / self.count) ** 0.5 / self.count**0.5


class FakeBar:
    """Stands in for the tqdm bar: records descriptions and closing."""

    def __init__(self, it, log):
        self.it, self.descriptions, self.closed, self.log = it, [], 0, log

    def __iter__(self):
        return iter(self.it)

    def set_description(self, desc):
        self.descriptions.append(desc)
        self.log.append(("desc", desc))

    def close(self):
        self.closed += 1
        self.log.append(("close",))


@contextlib.contextmanager
def patched_progbar(bars, log=None):
    log = [] if log is None else log
    original = xu.progbar

    def fake(it=None, **kwargs):
        assert kwargs == {}
        bar = FakeBar(it, log)
        bars.append(bar)
        return bar

    xu.progbar = fake
    try:
        yield
    finally:
        xu.progbar = original


def check_estimate(workdir, verbosity, get):
    cycle = [4.0, 5.5, 5.0, 4.5, 6.0, 5.25, 4.75, 5.125]
    calls = []

    def fn(n, shift=0.0):
        calls.append(n)
        return cycle[(len(calls) - 1) % len(cycle)] * n + shift

    bars, log = [], []
    out_path = os.path.join(workdir, f"out-{verbosity}-{get}.txt")
    with patched_progbar(bars, log), open(out_path, "w") as out:
        with contextlib.redirect_stdout(out):
            result = xyzpy.estimate_from_repeats(
                fn, 2, shift=0.5, rtol=0.05, verbosity=verbosity, get=get,
                min_samples=4, max_samples=40,
            )
    with open(out_path) as f:
        printed = f.read()
    os.remove(out_path)

    # independent replay
    mine, xs, descs = Welford(), [], []
    for i in itertools.count():
        x = cycle[i % len(cycle)] * 2 + 0.5
        xs.append(x)
        mine.update(x)
        descs.append(f"{mine.count}: {reference(mine.mean, mine.err)}")
        if i > 4 and mine.err < 0.05 * abs(mine.mean) + 0.05:
            break
        if i >= 39:
            break
    assert calls == [2] * len(xs)

    if get == "samples":
        rs, samples = result
        assert samples == xs
    elif get == "mean":
        assert result == mine.mean
        rs = None
    else:
        rs = result
    if rs is not None:
        assert (rs.count, rs.mean, rs.M2) == (mine.count, mine.mean, mine.M2)

    if verbosity >= 1:
        assert len(bars) == 1 and bars[0].closed == 1
        assert printed == (
            f"RunningStatistics(mean={reference(mine.mean, mine.err)}, "
            f"count={mine.count})\n"
        ), printed
        assert log[-1] == ("close",)
    else:
        assert bars == [] and printed == ""
    if verbosity >= 2:
        assert bars[0].descriptions == descs, (bars[0].descriptions, descs)
        # every description reads back as the running mean and its error
        for d in descs[1:]:
            count, text = d.split(": ")
            value, error, unit, digits = read_back(text)
            assert len(digits) == 2
    elif verbosity == 1:
        assert bars[0].descriptions == []


if __name__ == "__main__":
    main()
