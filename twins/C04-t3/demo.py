import os
import sys

sys.path.insert(0, os.getcwd())

import glob
import math
import pickle
import random
import itertools
import subprocess
import tempfile
import warnings

warnings.filterwarnings("ignore")

import numpy as np
import xyzpy
from xyzpy.gen import cropping
from xyzpy.gen.cropping import Crop, grow, Sower, Reaper

assert os.path.abspath(xyzpy.__file__).startswith(os.getcwd()), xyzpy.__file__

CHECKS = [0]


def check(cond, msg=""):
    CHECKS[0] += 1
    if not cond:
        print("FAIL:", msg)
        sys.exit(1)


def fn(a, b, c=0):
    return 100 * a + 10 * b + c


def fn2(a, b):
    return a + b, float(a - b) / 2


def same(x, y):
    """Exact structural equality, with nan == nan."""
    if isinstance(x, (tuple, list)):
        return (
            isinstance(y, (tuple, list))
            and len(x) == len(y)
            and all(same(p, q) for p, q in zip(x, y))
        )
    if isinstance(x, float) and math.isnan(x):
        return isinstance(y, float) and math.isnan(y)
    if isinstance(x, np.ndarray) or isinstance(y, np.ndarray):
        return np.array_equal(np.asarray(x), np.asarray(y), equal_nan=True)
    return type(x) is type(y) and x == y


def batch_files(crop):
    return sorted(
        glob.glob(os.path.join(crop.location, "batches", "xyz-batch-*.jbdmp")),
        key=lambda s: int(s.split("xyz-batch-")[-1].split(".")[0]),
    )


def load(fname):
    with open(fname, "rb") as f:
        return pickle.load(f)


def expected_sizes(n, batchsize=None, num_batches=None):
    """Independent statement of how n settings are divided into batches."""
    if num_batches is None:
        bs = 1 if batchsize is None else batchsize
        nb = -(-n // bs)
        return [bs] * (nb - 1) + [n - bs * (nb - 1)]
    nb = min(n, num_batches)
    q, r = n // nb, n % nb
    return [q + 1] * r + [q] * (nb - r)


GRIDS = [
    {"a": [1], "b": [2]},
    {"a": [1, 2, 3], "b": [4, 5]},
    {"a": [3, 1, 2, 7, 5], "b": [9, 8, 7], "c": [0, 1]},
    {"b": list(range(8)), "a": list(range(5))},
]


def grid_size(combos):
    n = 1
    for v in combos.values():
        n *= len(v)
    return n


def keep_short_last_batch(grown, crop):
    """The stand-in for a batch that has not been grown is sized from
    ``batchsize`` and ``_batch_remainder`` only, so (on the unmodified tree
    too) a final batch that is shorter than ``batchsize`` has to be among the
    grown ones for an incomplete reap; this demo keeps to that.
    """
    sizes = [len(load(b)) for b in batch_files(crop)]
    if sizes[-1] < sizes[0] and len(sizes) not in grown:
        grown = sorted(set(grown) | {len(sizes)})
    return list(grown)


def sorted_combos(combos):
    return dict(sorted(combos.items()))


def grow_batches(crop_factory, crop, ids, mode, rng):
    """Grow batches ``ids`` in the given style, return the set grown."""
    ids = list(ids)
    rng.shuffle(ids)
    if mode == "method-all":
        crop.grow(tuple(ids), verbosity=0)
    elif mode == "method-parts":
        # random partition into consecutive groups of the permutation
        i = 0
        while i < len(ids):
            k = rng.randint(1, 3)
            part = ids[i:i + k]
            crop = crop_factory()
            crop.grow(part[0] if len(part) == 1 else tuple(part),
                      verbosity=0)
            i += k
    elif mode == "function":
        for i in ids:
            grow(i, crop=crop_factory(), verbosity=0)
    elif mode == "function-fn":
        for i in ids:
            grow(i, crop=crop, fn=crop.fn, verbosity=0, check_mpi=False)
    elif mode == "repeat":
        crop.grow(tuple(ids), verbosity=0)
        again = ids[: max(1, len(ids) // 2)]
        crop_factory().grow(tuple(again), verbosity=0)
        grow(again[0], crop=crop, verbosity=0)
    elif mode == "missing":
        some = ids[: len(ids) // 2]
        if some:
            crop.grow(tuple(some), verbosity=0)
        crop = crop_factory()
        check(set(crop.missing_results()) == set(ids) - set(some), "missing")
        crop.grow_missing(verbosity=0)
        check(crop_factory().missing_results() == (), "missing after")
    elif mode == "workers":
        for i in ids:
            grow(i, crop=crop, num_workers=2, verbosity=0)
    elif mode == "subprocess":
        code = (
            "import sys, os; sys.path.insert(0, os.getcwd());"
            "import warnings; warnings.filterwarnings('ignore');"
            "from xyzpy.gen.cropping import Crop;"
            "c = Crop(name={!r}, parent_dir={!r});"
            "c.grow({!r}, verbosity=0);"
            "c.grow_missing(verbosity=0)"
        ).format(crop.name, crop.parent_dir, tuple(ids[:1]))
        subprocess.run([sys.executable, "-W", "ignore", "-c", code],
                       check=True, cwd=os.getcwd())
    else:
        raise ValueError(mode)


MODES = ["method-all", "method-parts", "function", "function-fn", "repeat",
         "missing"]


def check_combos(tmp, tag, combos, batchsize, num_batches, shuffle, where,
                 mode, fresh, rng, f=fn):
    """Sow / grow / reap a grid and compare with running directly."""
    name = "crop{}".format(tag)
    direct = xyzpy.combo_runner(f, sorted_combos(combos), verbosity=0)
    n = grid_size(combos)

    ckw, skw = {}, {}
    # batch settings either at construction or at sowing
    (ckw if rng.random() < 0.5 else skw).update(
        {k: v for k, v in
         (("batchsize", batchsize), ("num_batches", num_batches))
         if v is not None}
    )
    if where == "ctor":
        ckw["shuffle"] = shuffle
        skw["shuffle"] = None
    else:
        skw["shuffle"] = shuffle

    crop = Crop(fn=f, name=name, parent_dir=tmp, **ckw)

    def factory():
        if fresh:
            return Crop(name=name, parent_dir=tmp)
        return crop

    crop.sow_combos(combos, verbosity=0, **skw)

    # batches written: right number, right sizes, every setting exactly once
    sizes = [len(load(b)) for b in batch_files(crop)]
    check(sizes == expected_sizes(n, batchsize, num_batches),
          "batch sizes {} {} {} -> {}".format(n, batchsize, num_batches, sizes))
    sown = [tuple(sorted(kw.items())) for b in batch_files(crop)
            for kw in load(b)]
    check(len(sown) == n and len(set(sown)) == n, "each setting sown once")
    if not shuffle:
        keys = sorted(combos)
        expect = [tuple(zip(keys, vs))
                  for vs in itertools.product(*(combos[k] for k in keys))]
        check(sown == expect, "unshuffled sow order")

    crop = factory()
    check(crop.num_sown_batches == len(sizes), "num_sown_batches")
    check(crop.batchsize * crop.num_batches + crop._batch_remainder == n
          or crop._batch_remainder == 0, "settings consistent")
    check(not crop.is_ready_to_reap(), "not ready before growing")

    grow_batches(factory, crop, range(1, len(sizes) + 1), mode, rng)

    crop = factory()
    check(crop.is_ready_to_reap(), "ready to reap")
    check(crop.missing_results() == (), "nothing missing")
    reaped = crop.reap()
    check(same(reaped, direct), "reaped != direct for {}".format(
        (combos, batchsize, num_batches, shuffle, where, mode, fresh)))
    check(not os.path.exists(crop.location), "cleaned up")


def check_incomplete(tmp, tag, combos, batchsize, num_batches, shuffle, rng,
                     fresh=True):
    """Grow only some batches: grown slots equal direct, others missing."""
    name = "part{}".format(tag)
    keys = sorted(combos)
    direct = xyzpy.combo_runner(fn, sorted_combos(combos), verbosity=0)
    crop = Crop(fn=fn, name=name, parent_dir=tmp, batchsize=batchsize,
                num_batches=num_batches, shuffle=shuffle)
    crop.sow_combos(combos, shuffle=None, verbosity=0)
    nb = len(batch_files(crop))
    ids = list(range(1, nb + 1))
    rng.shuffle(ids)
    grown = sorted(ids[: rng.randint(1, nb)])
    grown = keep_short_last_batch(grown, crop)
    if fresh:
        crop = Crop(name=name, parent_dir=tmp)
    crop.grow(tuple(grown), verbosity=0)

    # which grid positions are in the batches that were not grown
    missing = set()
    for i, b in enumerate(batch_files(crop), 1):
        if i not in grown:
            for kw in load(b):
                missing.add(tuple(kw[k] for k in keys))

    def expect(nested, prefix=()):
        if len(prefix) == len(keys):
            return float("nan") if prefix in missing else nested
        vals = combos[keys[len(prefix)]]
        return tuple(expect(x, prefix + (v,)) for x, v in zip(nested, vals))

    if fresh:
        crop = Crop(name=name, parent_dir=tmp)
    check(set(crop.missing_results()) == set(ids) - set(grown), "missing ids")
    if len(grown) < nb:
        try:
            crop.reap()
        except xyzpy.gen.farming.XYZError:
            pass
        else:
            check(False, "reaping incomplete crop should raise")
    part = crop.reap(allow_incomplete=True)
    check(same(part, expect(direct)), "incomplete reap {}".format(
        (combos, batchsize, num_batches, shuffle, grown)))
    check(os.path.exists(crop.location), "not cleaned up when incomplete")
    # now finish it off and reap properly
    crop.grow_missing(verbosity=0)
    check(same(Crop(name=name, parent_dir=tmp).reap(), direct), "completed")


def check_runner_cases(tmp, tag, ncases, batchsize, num_batches, shuffle,
                       mode, rng, sub_combos=None, partial=False):
    """Case lists (optionally with sub-combos) through a Runner to datasets."""
    name = "cases{}".format(tag)
    pool = [(a, b) for a in range(7) for b in range(7)]
    rng.shuffle(pool)
    cases = pool[:ncases]
    runner = xyzpy.Runner(fn, var_names="x", fn_args=("a", "b", "c"))
    direct = runner.run_cases(cases, fn_args=("a", "b"), combos=sub_combos,
                              verbosity=0)
    runner2 = xyzpy.Runner(fn, var_names="x", fn_args=("a", "b", "c"))
    crop = Crop(farmer=runner2, name=name, parent_dir=tmp,
                batchsize=batchsize, num_batches=num_batches, shuffle=shuffle)
    crop.sow_cases(("a", "b"), cases, combos=sub_combos, verbosity=0)
    n = ncases * (grid_size(dict(sub_combos)) if sub_combos else 1)
    sizes = [len(load(b)) for b in batch_files(crop)]
    check(sizes == expected_sizes(n, batchsize, num_batches), "case sizes")
    ids = list(range(1, len(sizes) + 1))

    def factory():
        return Crop(name=name, parent_dir=tmp)

    if partial and len(ids) > 1:
        rng.shuffle(ids)
        grown = keep_short_last_batch(ids[: len(ids) // 2], crop)
        factory().grow(tuple(grown), verbosity=0)
        missing = set()
        for i, b in enumerate(batch_files(crop), 1):
            if i not in grown:
                missing.update((kw["a"], kw["b"], kw.get("c"))
                               for kw in load(b))
        ds = factory().reap(allow_incomplete=True)
        for a in direct.a.values:
            for b in direct.b.values:
                for c in (dict(sub_combos)["c"] if sub_combos else [None]):
                    sel = {"a": a, "b": b}
                    if c is not None:
                        sel["c"] = c
                    got = float(ds["x"].sel(**sel))
                    want = float(direct["x"].sel(**sel))
                    if (a, b, c) in missing:
                        want = float("nan")
                    check(same(got, want), "partial ds slot {}".format(sel))
        factory().grow_missing(verbosity=0)
    else:
        grow_batches(factory, factory(), ids, mode, rng)
    ds = factory().reap()
    check(ds.identical(direct), "case dataset != direct\n{}\n{}".format(
        ds, direct))
    check(not os.path.exists(crop.location), "cleaned up")


def check_samples(tmp, tag, n, batchsize, num_batches, rng):
    """sow_samples via a Sampler: the dataframe equals running the same
    sampled cases directly."""
    name = "samples{}".format(tag)
    runner = xyzpy.Runner(fn2, var_names=["s", "d"])
    sampler = xyzpy.Sampler(
        runner, default_combos={"a": list(range(50)), "b": list(range(50))})
    crop = sampler.Crop(name=name, parent_dir=tmp, batchsize=batchsize,
                        num_batches=num_batches)
    np.random.seed(n)
    crop.sow_samples(n, verbosity=0)
    sizes = [len(load(b)) for b in batch_files(crop)]
    check(sizes == expected_sizes(n, batchsize, num_batches), "sample sizes")
    sown = [kw for b in batch_files(crop) for kw in load(b)]
    ids = list(range(1, len(sizes) + 1))
    rng.shuffle(ids)
    for i in ids:
        grow(i, crop=Crop(name=name, parent_dir=tmp), verbosity=0)
    df = crop.reap(sync=False)
    check(len(df) == n, "n rows")
    # unshuffled: row order is sowing order
    rows = [(int(r.a), int(r.b), int(r.s), float(r.d))
            for r in df.itertuples()]
    want = [(int(kw["a"]), int(kw["b"]), int(fn2(**kw)[0]),
             float(fn2(**kw)[1])) for kw in sown]
    check(same(tuple(rows), tuple(want)), "sample rows")


def main_property(rng, tmp, heavy=True):
    tag = itertools.count()
    SHUFFLES = [False, True, 2, 7]
    # every batchsize in 1..n+1 and every num_batches in 1..n+2 (or neither)
    for combos in GRIDS[:3]:
        n = grid_size(combos)
        plans = [(None, None)]
        plans += [(bs, None) for bs in range(1, n + 2)]
        plans += [(None, nb) for nb in range(1, n + 3)]
        for bs, nb in plans:
            check_combos(tmp, next(tag), combos, bs, nb,
                         shuffle=rng.choice(SHUFFLES),
                         where=rng.choice(["ctor", "sow"]),
                         mode=rng.choice(MODES),
                         fresh=rng.random() < 0.5, rng=rng)
    # all shuffle settings x where x modes on the 40 setting grid
    combos = GRIDS[3]
    for shuffle, where, mode in itertools.product(
            SHUFFLES, ["ctor", "sow"], MODES):
        bs, nb = rng.choice([(None, None), (rng.randint(1, 41), None),
                             (None, rng.randint(1, 42))])
        check_combos(tmp, next(tag), combos, bs, nb, shuffle, where, mode,
                     fresh=rng.random() < 0.5, rng=rng)
    # multi-output function
    check_combos(tmp, next(tag), {"a": [1, 2, 3], "b": [5, 6, 7]}, None, 4, 3,
                 "sow", "method-parts", True, rng, f=fn2)
    # fresh processes and parallel workers
    check_combos(tmp, next(tag), GRIDS[2], None, 7, 5, "ctor", "subprocess",
                 True, rng)
    if heavy:
        check_combos(tmp, next(tag), GRIDS[1], 4, None, True, "sow",
                     "workers", True, rng)
    # incomplete crops: the same missing slots
    for combos in GRIDS[1:]:
        n = grid_size(combos)
        for bs, nb in [(None, None), (3, None), (None, 4), (None, n - 1),
                       (n - 1, None), (None, n + 2)]:
            check_incomplete(tmp, next(tag), combos, bs, nb,
                             rng.choice(SHUFFLES), rng)
    # case lists
    for ncases in (1, 2, 5, 12):
        for bs, nb in [(None, None), (2, None), (None, 3), (ncases + 1, None),
                       (None, ncases + 2), (None, max(1, ncases - 1))]:
            check_runner_cases(tmp, next(tag), ncases, bs, nb,
                               rng.choice(SHUFFLES), rng.choice(MODES), rng)
    for shuffle in SHUFFLES:
        check_runner_cases(tmp, next(tag), 6, None, 5, shuffle, "function",
                           rng, sub_combos=(("c", [0, 1, 2]),))
        check_runner_cases(tmp, next(tag), 9, 2, None, shuffle, None, rng,
                           partial=True)
        check_runner_cases(tmp, next(tag), 5, None, 4, shuffle, None, rng,
                           sub_combos=(("c", [0, 1]),), partial=True)
    # random samples
    for n, bs, nb in [(1, None, None), (7, 3, None), (10, None, 4),
                      (5, None, 7), (6, 7, None)]:
        check_samples(tmp, next(tag), n, bs, nb, rng)


import threading
import time as _time

from xyzpy.gen.cropping import _NO_DEFAULT, write_to_disk
from xyzpy.gen.farming import XYZError


def result_file(crop, i):
    return os.path.join(crop.location, "results",
                        "xyz-result-{}.jbdmp".format(i))


def expect_error(exc, f, *args, **kwargs):
    try:
        f(*args, **kwargs)
    except exc as e:
        check(True)
        return e
    except Exception as e:  # wrong kind
        check(False, "expected {} got {!r}".format(exc.__name__, e))
    else:
        check(False, "expected {}".format(exc.__name__))


def sown_crop(tmp, name, n, bs, nb):
    crop = Crop(fn=fn, name=name, parent_dir=tmp, batchsize=bs,
                num_batches=nb)
    crop.sow_combos({"a": list(range(n)), "b": [1]}, verbosity=0)
    return crop


def main_reaper(tmp, rng):
    """Drive Reaper directly: order of results, stand-ins for batches that are
    missing, waiting, laziness and the error paths."""
    count = itertools.count()
    STANDIN = ("missing",)

    plans = []
    for n in (1, 2, 5, 9, 12, 17, 40):
        plans += [(n, None, None)]
        plans += [(n, bs, None) for bs in range(1, n + 2) if n % bs == 0]
        plans += [(n, None, nb) for nb in range(1, n + 3)]
    for n, bs, nb in plans:
        crop = sown_crop(tmp, "reaper{}".format(next(count)), n, bs, nb)
        sizes = expected_sizes(n, bs, nb)
        k = len(sizes)
        batches = [load(b) for b in batch_files(crop)]
        flat = [fn(**kw) for b in batches for kw in b]

        # the Reaper is lazy, it can be made before any results exist
        early = Reaper(crop, k)
        ids = list(range(1, k + 1))
        rng.shuffle(ids)
        present = sorted(ids[: rng.randint(0, k)])
        for i in present:
            write_to_disk(tuple(fn(**kw) for kw in batches[i - 1]),
                          result_file(crop, i))

        # stand-ins exactly in the slots of the batches without results
        want = []
        for i, b in enumerate(batches, 1):
            want += [fn(**kw) if i in present else STANDIN for kw in b]
        for default in (STANDIN, None):
            with Reaper(crop, k, default_result=default) as reap_fn:
                got = [reap_fn(a=0, anything="ignored") for _ in range(n)]
            w = [default if x is STANDIN else x for x in want]
            check(same(tuple(got), tuple(w)), "stand-ins {}".format(
                (n, bs, nb, present, got)))

        # no stand-in allowed: a missing result is an error once reached
        if len(present) < k:
            first_missing = min(set(ids) - set(present))
            ok = sum(sizes[: first_missing - 1])
            reaper = Reaper(crop, k)
            got = [reaper() for _ in range(ok)]
            check(got == flat[:ok], "results before the gap")
            expect_error(FileNotFoundError, reaper)

        # fill in the rest (in any order), the early Reaper now sees them all
        rest = [i for i in ids if i not in present]
        for i in rest:
            write_to_disk(tuple(fn(**kw) for kw in batches[i - 1]),
                          result_file(crop, i))
        with early as reap_fn:
            got = [reap_fn() for _ in range(n)]
        check(got == flat, "all results in order")
        for kwargs in (dict(), dict(default_result=STANDIN), dict(wait=True),
                       dict(wait=True, default_result=STANDIN)):
            with Reaper(crop, k, **kwargs) as reap_fn:
                got = [reap_fn() for _ in range(n)]
                expect_error(StopIteration, reap_fn)
            check(got == flat, "all results {}".format(kwargs))

        # leaving results behind is reported
        if n > 1:
            def leave_some():
                with Reaper(crop, k) as reap_fn:
                    for _ in range(n - 1):
                        reap_fn()
            expect_error(XYZError, leave_some)
        crop.delete_all()

    # an empty result file is refused
    crop = sown_crop(tmp, "reaper-empty", 4, 2, None)
    write_to_disk((), result_file(crop, 1))
    expect_error(ValueError, Reaper(crop, 2))
    expect_error(ValueError, Reaper(crop, 2, wait=True))
    write_to_disk(None, result_file(crop, 1))
    expect_error(ValueError, Reaper(crop, 2, default_result=STANDIN))

    # waiting: results appear while the reaper is blocked, stand-ins unused
    for kwargs in (dict(wait=True), dict(wait=True, default_result=STANDIN)):
        crop = sown_crop(tmp, "reaper-wait{}".format(next(count)), 7, None, 3)
        batches = [load(b) for b in batch_files(crop)]
        flat = [fn(**kw) for b in batches for kw in b]

        def later(crop=crop, batches=batches):
            for i in (3, 1, 2):
                _time.sleep(0.3)
                write_to_disk(tuple(fn(**kw) for kw in batches[i - 1]),
                              result_file(crop, i))

        t = threading.Thread(target=later)
        t.start()
        with Reaper(crop, 3, **kwargs) as reap_fn:
            got = [reap_fn() for _ in range(7)]
        t.join()
        check(got == flat, "waited for results {}".format(kwargs))
    # ... and something that is not a file is refused when waiting
    crop = sown_crop(tmp, "reaper-dir", 2, 1, None)
    os.mkdir(result_file(crop, 1))
    e = expect_error(ValueError, Reaper(crop, 2, wait=True))
    check("is not a file" in str(e), "message")

    # the same through the Crop interface, in another thread / process
    for k, (shuffle, to_ds) in enumerate([(False, False), (3, False),
                                          (True, True)]):
        name = "wait{}".format(k)
        combos = GRIDS[2]
        if to_ds:
            runner = xyzpy.Runner(fn, var_names="x")
            direct = runner.run_combos(combos, verbosity=0)
            crop = Crop(farmer=xyzpy.Runner(fn, var_names="x"), name=name,
                        parent_dir=tmp, num_batches=4, shuffle=shuffle)
        else:
            direct = xyzpy.combo_runner(fn, sorted_combos(combos),
                                        verbosity=0)
            crop = Crop(fn=fn, name=name, parent_dir=tmp, num_batches=4,
                        shuffle=shuffle)
        crop.sow_combos(combos, shuffle=None, verbosity=0)

        def later(name=name):
            _time.sleep(0.4)
            c = Crop(name=name, parent_dir=tmp)
            for i in (2, 4, 1, 3):
                grow(i, crop=c, verbosity=0)
                _time.sleep(0.1)

        t = threading.Thread(target=later)
        t.start()
        got = crop.reap(wait=True)
        t.join()
        if to_ds:
            check(got.identical(direct), "waited dataset")
        else:
            check(same(got, direct), "waited reap")

    # stand-in for results that are bools / strings is None, not nan
    def is_big(a, b):
        return a * b > 6

    combos = {"a": [1, 2, 3, 4], "b": [1, 2, 3]}
    direct = xyzpy.combo_runner(is_big, combos, verbosity=0)
    crop = Crop(fn=is_big, name="bools", parent_dir=tmp, num_batches=5)
    crop.sow_combos(combos, verbosity=0)      # sizes 3, 3, 2, 2, 2
    crop.grow((1, 4), verbosity=0)
    part = Crop(name="bools", parent_dir=tmp).reap(allow_incomplete=True)
    flat_direct = [x for row in direct for x in row]
    flat_part = [x for row in part for x in row]
    grown_slots = {0, 1, 2, 8, 9}
    for j in range(12):
        w = flat_direct[j] if j in grown_slots else None
        check(flat_part[j] is w, "bool slot {}".format(j))


if __name__ == "__main__":
    rng = random.Random(4043)
    with tempfile.TemporaryDirectory() as tmp:
        main_reaper(tmp, rng)
        main_property(rng, tmp, heavy=False)
    print("checks:", CHECKS[0])
    print("PASS")
