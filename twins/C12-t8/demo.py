"""C12 demo: a crop is deleted only after its data is safely delivered.

Run as ``cd <worktree> && /venv/bin/python /path/to/demo.py``.

Sweeps clean_up x allow_incomplete x wait x farmer kind over complete and
incomplete crops, injects a failure at each stage of the reap (missing results,
unreadable result, wrong output description, harvester merge conflict, save
error) and retries after correcting the cause.  Checks results, the crop files
(names and bytes) and the moment of deletion.  Prints PASS / exits 0 when
everything is as documented, prints FAIL + the observations / exits 1 if not.
"""

import os
import sys

sys.path.insert(0, os.getcwd())

import itertools
import shutil
import tempfile
import types
import warnings

warnings.filterwarnings("ignore")
# silence the progress bars
sys.stderr = open(os.devnull, "w")

import numpy as np
import xarray as xr

import xyzpy
from xyzpy import Crop, Harvester, Runner, Sampler
from xyzpy.gen import cropping, farming
from xyzpy.manage import load_ds, load_df, save_ds
from xyzpy.utils import XYZError

assert os.path.dirname(os.path.dirname(os.path.abspath(xyzpy.__file__))) == (
    os.path.abspath(os.getcwd())
), xyzpy.__file__

A = (1, 2, 3)
B = (10, 20)
COMBOS = {"a": list(A), "b": list(B)}
KINDS = ("none", "runner", "harvester", "sampler")
FAILURES = []
NCHECKS = [0]


def fn(a, b):
    return a + b, a - b


def check(cond, where, what):
    NCHECKS[0] += 1
    if not cond:
        FAILURES.append("{}: {}".format(where, what))
    return cond


def snapshot(location):
    """Relative name -> bytes of every file of the crop."""
    snap = {}
    for root, _, files in os.walk(location):
        for f in files:
            full = os.path.join(root, f)
            with open(full, "rb") as fh:
                snap[os.path.relpath(full, location)] = fh.read()
    return snap


class Setup:
    """A sown crop of 3 batches of 2 for the given farmer kind."""

    def __init__(self, tdir, kind, var_names=("s", "d")):
        self.kind = kind
        self.tdir = tdir
        self.runner = Runner(fn, var_names=list(var_names))
        self.data_name = None
        if kind == "none":
            self.farmer = None
            self.crop = Crop(fn=fn, name="c", parent_dir=tdir, batchsize=2)
        elif kind == "runner":
            self.farmer = self.runner
            self.crop = self.runner.Crop(name="c", parent_dir=tdir, batchsize=2)
        elif kind == "harvester":
            self.data_name = os.path.join(tdir, "full.h5")
            self.farmer = Harvester(self.runner, self.data_name)
            self.crop = self.farmer.Crop(name="c", parent_dir=tdir, batchsize=2)
        elif kind == "sampler":
            self.data_name = os.path.join(tdir, "full.pkl")
            self.farmer = Sampler(
                self.runner, self.data_name, default_combos=COMBOS
            )
            self.crop = self.farmer.Crop(name="c", parent_dir=tdir, batchsize=2)
        if kind == "sampler":
            self.crop.sow_samples(6)
        else:
            self.crop.sow_combos(COMBOS)
        self.deletions = []
        self._guard_delete()

    def _guard_delete(self):
        """Record what is on disk at the moment the crop is deleted."""
        crop, orig = self.crop, self.crop.delete_all

        def guarded_delete_all():
            self.deletions.append(self.delivered_on_disk())
            orig()

        crop.delete_all = guarded_delete_all

    def delivered_on_disk(self):
        """How many finished (non-nan) results are in the farmer's file."""
        if self.kind == "harvester":
            if not os.path.exists(self.data_name):
                return 0
            with load_ds(self.data_name) as ds:
                return int(ds["s"].notnull().sum())
        if self.kind == "sampler":
            if not os.path.exists(self.data_name):
                return 0
            df = load_df(self.data_name)
            return int(df["s"].astype(float).notnull().sum())
        return None

    def grow(self, ids):
        self.crop.grow(ids)

    def exists(self):
        return os.path.isdir(self.crop.location)

    def num_good(self, res):
        """Number of correct finished results in what reap returned, or -1
        if anything in it is wrong."""
        good = 0
        if self.kind == "none":
            if len(res) != len(A) or any(len(r) != len(B) for r in res):
                return -1
            for (i, a), (j, b) in itertools.product(enumerate(A), enumerate(B)):
                s, d = res[i][j]
                if s == a + b and d == a - b:
                    good += 1
                elif not (np.isnan(s) and np.isnan(d)):
                    return -1
        elif self.kind in ("runner", "harvester"):
            if set(res.data_vars) != {"s", "d"}:
                return -1
            for a, b in itertools.product(A, B):
                s = res["s"].sel(a=a, b=b).item()
                d = res["d"].sel(a=a, b=b).item()
                if s == a + b and d == a - b:
                    good += 1
                elif not (np.isnan(s) and np.isnan(d)):
                    return -1
        else:
            if len(res) != 6:
                return -1
            for _, row in res.iterrows():
                s, d = float(row["s"]), float(row["d"])
                if s == row["a"] + row["b"] and d == row["a"] - row["b"]:
                    good += 1
                elif not (np.isnan(s) and np.isnan(d)):
                    return -1
        return good


def expected_delete(clean_up, allow_incomplete):
    return (not allow_incomplete) if clean_up is None else clean_up


def after_success(st, where, res, ngood, clean_up, allow_incomplete, before):
    """Checks common to every reap that returned."""
    check(st.num_good(res) == ngood, where,
          "expected {} finished results, got {}".format(ngood, st.num_good(res)))
    want = expected_delete(clean_up, allow_incomplete)
    if want:
        check(not st.exists(), where, "crop should have been deleted")
        check(len(st.deletions) == 1, where,
              "delete_all called {} times".format(len(st.deletions)))
        if st.deletions and st.deletions[0] is not None:
            check(st.deletions[0] >= ngood, where,
                  "crop deleted when only {} of {} results were saved by the "
                  "farmer".format(st.deletions[0], ngood))
    else:
        if check(st.exists(), where,
                 "crop was DELETED but clean_up={} allow_incomplete={} says "
                 "keep it".format(clean_up, allow_incomplete)):
            check(snapshot(st.crop.location) == before, where,
                  "crop files changed by the reap")
        check(st.deletions == [], where, "delete_all was called")
    if st.kind == "runner":
        check(st.runner.last_ds is res, where, "runner.last_ds not set")
    if st.kind in ("harvester", "sampler"):
        check(st.delivered_on_disk() >= ngood, where,
              "farmer file holds {} results".format(st.delivered_on_disk()))


def after_failure(st, where, before):
    """Checks common to every reap that raised."""
    if check(st.exists(), where, "crop was DELETED by a reap that raised"):
        check(snapshot(st.crop.location) == before, where,
              "crop files changed by a reap that raised")
    check(st.deletions == [], where, "delete_all was called")


def reap(st, **kw):
    try:
        return st.crop.reap(**kw), None
    except Exception as e:  # noqa
        return None, e


class SleepGrows:
    """Stand-in for ``time`` in cropping: 'waiting' grows what is missing."""

    def __init__(self, st):
        self.st = st
        self.calls = 0

    def sleep(self, t):
        self.calls += 1
        self.st.crop.grow_missing()

    def __getattr__(self, name):
        import time
        return getattr(time, name)


# ------------------------------ the scenarios ------------------------------ #


def scenario_complete(kind, clean_up, allow_incomplete, wait):
    where = "complete[{} clean_up={} allow_incomplete={} wait={}]".format(
        kind, clean_up, allow_incomplete, wait)
    with tempfile.TemporaryDirectory() as tdir:
        st = Setup(tdir, kind)
        st.grow((1, 2, 3))
        before = snapshot(st.crop.location)
        res, err = reap(st, clean_up=clean_up,
                        allow_incomplete=allow_incomplete, wait=wait)
        if not check(err is None, where, "raised {!r}".format(err)):
            return
        after_success(st, where, res, 6, clean_up, allow_incomplete, before)
        if st.exists():
            # reaping again gives exactly the same
            res2, err = reap(st, clean_up=True)
            if check(err is None, where, "second reap raised {!r}".format(err)):
                check(st.num_good(res2) == 6, where, "second reap differs")
                check(not st.exists(), where, "clean_up=True left the crop")


def scenario_incomplete(kind, clean_up, allow_incomplete, wait):
    where = "incomplete[{} clean_up={} allow_incomplete={} wait={}]".format(
        kind, clean_up, allow_incomplete, wait)
    with tempfile.TemporaryDirectory() as tdir:
        st = Setup(tdir, kind)
        st.grow((1, 3))
        before = snapshot(st.crop.location)
        opts = dict(clean_up=clean_up, allow_incomplete=allow_incomplete,
                    wait=wait)

        if wait:
            # results appear while waiting
            fake = SleepGrows(st)
            cropping.time = fake
            try:
                res, err = reap(st, **opts)
            finally:
                import time
                cropping.time = time
            if not check(err is None, where, "raised {!r}".format(err)):
                return
            check(fake.calls >= 1, where, "did not wait")
            before = snapshot(st.crop.location) if st.exists() else None
            after_success(st, where, res, 6, clean_up, allow_incomplete,
                          before)
            return

        res, err = reap(st, **opts)
        if not allow_incomplete:
            check(isinstance(err, XYZError), where,
                  "expected XYZError, got {!r}".format(err))
            after_failure(st, where, before)
        else:
            if not check(err is None, where, "raised {!r}".format(err)):
                return
            after_success(st, where, res, 4, clean_up, allow_incomplete,
                          before)
            if expected_delete(clean_up, allow_incomplete) or not st.exists():
                return
            check(set(os.listdir(os.path.join(st.crop.location, "batches")))
                  == {"xyz-batch-{}.jbdmp".format(i) for i in (1, 2, 3)},
                  where, "sown batches lost")

        # correct the cause and reap again: everything is delivered
        try:
            st.crop.grow_missing()
        except Exception as e:  # noqa
            check(False, where, "cannot grow the missing batch: {!r}".format(e))
            return
        before = snapshot(st.crop.location)
        st.deletions.clear()
        res, err = reap(st, **opts)
        if check(err is None, where, "retry raised {!r}".format(err)):
            after_success(st, where + " retry", res, 6, clean_up,
                          allow_incomplete, before)


def scenario_unreadable(kind, clean_up, allow_incomplete):
    where = "unreadable[{} clean_up={} allow_incomplete={}]".format(
        kind, clean_up, allow_incomplete)
    with tempfile.TemporaryDirectory() as tdir:
        st = Setup(tdir, kind)
        st.grow((1, 2, 3))
        bad = os.path.join(st.crop.location, "results", "xyz-result-2.jbdmp")
        with open(bad, "wb") as fh:
            fh.write(b"this is not a pickle")
        before = snapshot(st.crop.location)
        opts = dict(clean_up=clean_up, allow_incomplete=allow_incomplete)
        res, err = reap(st, **opts)
        check(err is not None, where, "garbage result was read?!")
        after_failure(st, where, before)
        if not st.exists():
            return
        os.remove(bad)
        st.grow((2,))
        before = snapshot(st.crop.location)
        res, err = reap(st, **opts)
        if check(err is None, where, "retry raised {!r}".format(err)):
            after_success(st, where + " retry", res, 6, clean_up,
                          allow_incomplete, before)


def scenario_wrong_description(kind, clean_up, allow_incomplete):
    where = "description[{} clean_up={} allow_incomplete={}]".format(
        kind, clean_up, allow_incomplete)
    with tempfile.TemporaryDirectory() as tdir:
        st = Setup(tdir, kind)
        st.grow((1, 2, 3))
        before = snapshot(st.crop.location)
        opts = dict(clean_up=clean_up, allow_incomplete=allow_incomplete)
        if kind == "none":
            def do(var_names):
                return st.crop.reap_combos_to_ds(var_names=var_names, **opts)
        else:
            def do(var_names):
                st.runner.var_names = var_names
                return st.crop.reap(**opts)
        try:
            do(["s", "d", "e"])
            err = None
        except Exception as e:  # noqa
            err = e
        check(isinstance(err, ValueError), where,
              "expected ValueError got {!r}".format(err))
        after_failure(st, where, before)
        if not st.exists():
            return
        try:
            res = do(["s", "d"])
        except Exception as e:  # noqa
            check(False, where, "retry raised {!r}".format(e))
            return
        if kind == "none":
            st.kind = "runner"
            ok = st.num_good(res) == 6
            st.kind = "none"
            check(ok, where, "retry gave wrong data")
            check(st.exists() != expected_delete(clean_up, allow_incomplete),
                  where, "clean_up not honoured on retry")
        else:
            after_success(st, where + " retry", res, 6, clean_up,
                          allow_incomplete, before)


def scenario_merge_conflict(clean_up, allow_incomplete, wait):
    where = "conflict[harvester clean_up={} allow_incomplete={} wait={}]".format(
        clean_up, allow_incomplete, wait)
    with tempfile.TemporaryDirectory() as tdir:
        st = Setup(tdir, "harvester")
        st.grow((1, 2, 3))
        # existing, conflicting data on disk
        old = xr.Dataset(
            {"s": (("a", "b"), np.full((3, 2), -1.0)),
             "d": (("a", "b"), np.full((3, 2), -1.0))},
            coords={"a": list(A), "b": list(B)},
        )
        save_ds(old, st.data_name)
        with open(st.data_name, "rb") as fh:
            old_bytes = fh.read()
        before = snapshot(st.crop.location)
        opts = dict(clean_up=clean_up, allow_incomplete=allow_incomplete,
                    wait=wait)
        res, err = reap(st, **opts)
        check(isinstance(err, xr.MergeError), where,
              "expected MergeError got {!r}".format(err))
        after_failure(st, where, before)
        with open(st.data_name, "rb") as fh:
            check(fh.read() == old_bytes, where, "saved data changed")
        if not st.exists():
            return
        res, err = reap(st, overwrite=True, **opts)
        if check(err is None, where, "retry raised {!r}".format(err)):
            after_success(st, where + " retry", res, 6, clean_up,
                          allow_incomplete, before)
            with load_ds(st.data_name) as ds:
                check(float(ds["s"].sel(a=1, b=10)) == 11.0, where,
                      "saved data not overwritten")


def scenario_save_error(kind, clean_up, allow_incomplete, wait):
    where = "save-error[{} clean_up={} allow_incomplete={} wait={}]".format(
        kind, clean_up, allow_incomplete, wait)
    with tempfile.TemporaryDirectory() as tdir:
        st = Setup(tdir, kind)
        st.grow((1, 2, 3))
        before = snapshot(st.crop.location)
        opts = dict(clean_up=clean_up, allow_incomplete=allow_incomplete,
                    wait=wait)

        def boom(*args, **kwargs):
            raise OSError("No space left on device (injected)")

        name = "save_ds" if kind == "harvester" else "save_df"
        orig = getattr(farming, name)
        setattr(farming, name, boom)
        try:
            res, err = reap(st, **opts)
        finally:
            setattr(farming, name, orig)
        check(isinstance(err, OSError), where,
              "expected OSError got {!r}".format(err))
        after_failure(st, where, before)
        check(not os.path.exists(st.data_name), where, "something was saved")
        if not st.exists():
            return
        res, err = reap(st, **opts)
        if check(err is None, where, "retry raised {!r}".format(err)):
            after_success(st, where + " retry", res, 6, clean_up,
                          allow_incomplete, before)


def scenario_no_farmer_given():
    where = "no-farmer"
    with tempfile.TemporaryDirectory() as tdir:
        st = Setup(tdir, "none")
        st.grow((1, 2, 3))
        before = snapshot(st.crop.location)
        for meth in (st.crop.reap_harvest, st.crop.reap_samples):
            try:
                meth(None)
                err = None
            except Exception as e:  # noqa
                err = e
            check(isinstance(err, ValueError), where, "expected ValueError")
            after_failure(st, where, before)


def scenario_sync_false(kind, clean_up, allow_incomplete):
    """sync=False: nothing is written by the farmer, clean up as documented."""
    where = "sync-false[{} clean_up={} allow_incomplete={}]".format(
        kind, clean_up, allow_incomplete)
    with tempfile.TemporaryDirectory() as tdir:
        st = Setup(tdir, kind)
        st.grow((1, 2, 3))
        res, err = reap(st, sync=False, clean_up=clean_up,
                        allow_incomplete=allow_incomplete)
        if check(err is None, where, "raised {!r}".format(err)):
            check(st.num_good(res) == 6, where, "wrong data")
            check(not os.path.exists(st.data_name), where, "file written")
            check(st.exists() != expected_delete(clean_up, allow_incomplete),
                  where, "clean_up not honoured")


def scenario_partial_then_finish(kind):
    """The documented use of ``allow_incomplete``: look at what is finished so
    far (clean_up left alone), grow the rest, reap everything."""
    where = "partial-then-finish[{}]".format(kind)
    with tempfile.TemporaryDirectory() as tdir:
        st = Setup(tdir, kind)
        st.grow((1,))
        before = snapshot(st.crop.location)
        res, err = reap(st, allow_incomplete=True)
        if not check(err is None, where, "raised {!r}".format(err)):
            return
        check(st.num_good(res) == 2, where, "wrong partial data")
        if not check(
            st.exists() and snapshot(st.crop.location) == before, where,
            "reap(allow_incomplete=True) with clean_up unset DELETED the crop "
            "after delivering 2 of 6 results: the 2 un-grown batches are "
            "gone and the other 4 results can never be delivered",
        ):
            return
        st.crop.grow_missing()
        res, err = reap(st)
        if check(err is None, where, "final reap raised {!r}".format(err)):
            check(st.num_good(res) == 6, where, "final reap incomplete")
            check(not st.exists(), where, "complete reap left the crop")


def main():
    flags = (None, True, False)
    for kind in KINDS:
        scenario_partial_then_finish(kind)
    for kind, cu, ai, w in itertools.product(
            KINDS, flags, (False, True), (False, True)):
        scenario_complete(kind, cu, ai, w)
        scenario_incomplete(kind, cu, ai, w)
    for kind, cu, ai in itertools.product(KINDS, flags, (False, True)):
        scenario_unreadable(kind, cu, ai)
        if kind != "sampler":
            # (a dataframe is built whatever the number of names)
            scenario_wrong_description(kind, cu, ai)
    for cu, ai, w in itertools.product(flags, (False, True), (False, True)):
        scenario_merge_conflict(cu, ai, w)
        for kind in ("harvester", "sampler"):
            scenario_save_error(kind, cu, ai, w)
    for kind, cu, ai in itertools.product(
            ("harvester", "sampler"), flags, (False, True)):
        scenario_sync_false(kind, cu, ai)
    scenario_no_farmer_given()

    if FAILURES:
        print("FAIL: {} of {} checks failed".format(len(FAILURES), NCHECKS[0]))
        for f in FAILURES[:12]:
            print("  -", f)
        if len(FAILURES) > 12:
            print("  ... and {} more".format(len(FAILURES) - 12))
        return 1
    print("PASS ({} checks)".format(NCHECKS[0]))
    return 0


if __name__ == "__main__":
    sys.exit(main())
