"""Demo / check for ``xyzpy.format_number_with_error`` (property C20).

Run as ``cd <worktree> && /venv/bin/python /path/to/demo.py``.

Three kinds of check:

1. every produced string is identical to the one produced by a frozen,
   verbatim copy of the original algorithm (``reference`` below), over a
   large deterministic sample of the property's domain and beyond, with dense
   sampling around the rounding boundaries;
2. the produced string is *read back* by the usual convention and must denote
   the error to two significant figures and the value to the same last digit;
3. for unusual inputs (nan, inf, zero / negative error, ints, numpy scalars,
   strings, None ...) the result or the raised exception (type and message)
   is identical to that of the reference.

It also drives the two in-library callers: ``RunningStatistics.__repr__`` and
the progress description of ``estimate_from_repeats``.
"""

import os
import sys

sys.path.insert(0, os.getcwd())

import io
import contextlib
import itertools
import random
import re
import shutil
import tempfile
from fractions import Fraction

import numpy as np

import xyzpy
from xyzpy.utils import RunningStatistics, format_number_with_error

assert os.path.dirname(os.path.dirname(os.path.abspath(xyzpy.__file__))) == (
    os.path.abspath(os.getcwd())
), xyzpy.__file__


# --------------------------------------------------------------------------- #
#                 frozen copy of the original implementation                   #
# --------------------------------------------------------------------------- #


def reference(x, err):
    x_exponent = max(
        int(f"{x:e}".split("e")[1]),
        int(f"{err:e}".split("e")[1]) + 1,
    )
    hide_exponent = (
        (x_exponent in (0, -1))
        or
        ((x_exponent == +1) and (err < abs(x / 10)))
    )
    if hide_exponent:
        suffix = ""
    else:
        x = x / 10**x_exponent
        err = err / 10**x_exponent
        suffix = f"e{x_exponent:+03d}"

    mantissa, exponent = f"{err:.1e}".split("e")
    mantissa, exponent = mantissa.replace(".", ""), int(exponent)
    return f"{x:.{max(0, 1 - exponent)}f}({mantissa}){suffix}"


# --------------------------------------------------------------------------- #
#                          reading the string back                             #
# --------------------------------------------------------------------------- #

PATTERN = re.compile(
    r"^(?P<sign>-?)(?P<int>\d+)(?:\.(?P<frac>\d+))?"
    r"\((?P<unc>\d+)\)(?:e(?P<exp>[+-]\d+))?$"
)


def read_back(s):
    """Return (value, error, unit-of-last-digit) as exact Fractions."""
    m = PATTERN.match(s)
    assert m is not None, f"unparseable: {s!r}"
    frac = m.group("frac") or ""
    exp = int(m.group("exp") or 0)
    unit = Fraction(10) ** (exp - len(frac))
    value = int(m.group("int") + frac) * unit
    if m.group("sign"):
        value = -value
    return value, int(m.group("unc")) * unit, unit, m


# the library divides by a power of ten in floating point before rounding, so
# allow a tiny slack on "half a unit in the last place"
SLACK = Fraction(1, 10**6)


def check_property(x, err, s):
    value, error, unit, m = read_back(s)
    # exactly two significant figures of error are shown
    assert len(m.group("unc")) == 2 and 10 <= int(m.group("unc")) <= 99, (
        x, err, s)
    # the error is the given one rounded to those two figures
    assert abs(error - Fraction(err)) <= unit * (Fraction(1, 2) + SLACK), (
        x, err, s)
    # the value is rounded to the same last digit
    assert abs(value - Fraction(x)) <= unit * (Fraction(1, 2) + SLACK), (
        x, err, s)
    # sign is shown iff negative (a rounded-to-zero negative keeps its '-')
    if x > 0 or x == 0:
        assert (m.group("sign") == "") or (str(x).startswith("-")), (x, err, s)
    # exponent is shown with sign and at least two digits
    if m.group("exp") is not None:
        assert re.match(r"^[+-]\d{2,}$", m.group("exp")), (x, err, s)


# --------------------------------------------------------------------------- #
#                                 sampling                                     #
# --------------------------------------------------------------------------- #


def domain_samples():
    rng = random.Random(20)

    # documented examples
    yield 0.1542412, 0.0626653
    yield -128124123097, 6424
    yield -128124123097.0, 6424.0

    # broad log-uniform sweep of magnitudes and ratios
    for _ in range(6000):
        ex = rng.uniform(-300, 300)
        ratio = rng.uniform(-12, 12)
        if not (-305 < ex + ratio < 305):
            continue
        x = rng.choice((-1, 1)) * 10**ex
        err = abs(x) * 10**ratio
        yield x, err

    # x == 0 with any error
    for e in range(-300, 301, 7):
        for mant in (1.0, 1.04999, 1.05, 1.15, 2.5, 9.94, 9.95, 9.96, 9.999):
            yield 0.0, mant * 10.0**e
            yield -0.0, mant * 10.0**e
            yield 0, mant * 10.0**e

    # error mantissa close to the 9.95 -> 10 carry, all sorts of x
    err_mants = [9.9, 9.94, 9.949, 9.9499999, 9.95, 9.9500001, 9.951, 9.96,
                 9.99, 9.999999, 9.9999999999, 1.0, 1.0000001, 1.04, 1.05,
                 1.0500001, 1.45, 1.55, 5.55, 9.85]
    x_mants = [1.0, 0.99999999, 0.9999995, 0.9999994, 0.999, 0.995, 0.95,
               1.0000001, 1.5, 9.5, 9.95, 9.995, 9.9999995, 9.99999949,
               9.9999999999, 3.14159265358979]
    for em, xm in itertools.product(err_mants, x_mants):
        for ee in (-300, -200, -15, -7, -4, -3, -2, -1, 0, 1, 2, 3, 5, 12,
                   100, 288):
            for dx in (-2, -1, 0, 1, 2, 3, 6, 11):
                xe = ee + dx
                if not (-300 <= xe <= 300):
                    continue
                err = em * 10.0**ee
                for sgn in (1, -1):
                    yield sgn * xm * 10.0**xe, err

    # err / x near 0.1 and near 1, x near powers of ten around 1 .. 100
    for xe in (-3, -2, -1, 0, 1, 2, 3):
        for xm in (1.0, 1.0000001, 0.99999999, 2.0, 5.0, 9.9, 9.99999,
                   9.9999996, 9.9999994):
            x = xm * 10.0**xe
            for ratio in (0.0999, 0.09999999, 0.1, 0.10000001, 0.1001,
                          0.0995, 0.09949, 0.999, 0.99999999, 1.0,
                          1.00000001, 1.001, 0.995, 0.9949, 9.95, 10.0,
                          0.0100001, 0.01, 0.00995):
                for sgn in (1, -1):
                    yield sgn * x, x * ratio

    # integers and numpy scalars of several widths
    for x, err in [(12345, 67), (12345, 6), (-7, 3), (10, 1), (99, 9),
                   (100, 10), (100, 9), (1, 1), (0, 1), (0, 10), (10**15, 1234)]:
        yield x, err
        yield np.int64(x), np.int64(err)
        yield np.float64(x), np.float64(err)
        yield np.float32(x), np.float32(err)
        yield float(x), err


def outcome(fn, *args):
    try:
        return ("ok", fn(*args))
    except Exception as e:  # noqa
        return ("raise", type(e), str(e))


def unusual_inputs():
    nan, inf = float("nan"), float("inf")
    vals = [nan, inf, -inf, 0.0, -0.0, 1.0, -1.0, 0, 1, 15, 1e-320, 5e-324,
            1.7e308, 1e300, 1e-300, np.float64(2.5), np.float32(0.3),
            np.int32(7), True, False, None, "1.0", 1 + 2j, [1.0],
            np.array(1.5), np.array([1.0, 2.0]), 10**400, Fraction(1, 3)]
    errs = [nan, inf, 0.0, -0.0, -0.5, -3, 0, 1, 0.25, 1e-320, 1.7e308,
            np.float64(0.01), np.float32(0.3), True, None, "0.1", 2j,
            np.array(0.1), 10**400, Fraction(1, 7), 1e13, 1e-13]
    return itertools.product(vals, errs)


# --------------------------------------------------------------------------- #
#                                   main                                       #
# --------------------------------------------------------------------------- #


def main():
    tmpdir = tempfile.mkdtemp(prefix="c20_demo_")
    try:
        n = 0
        seen = set()
        with open(os.path.join(tmpdir, "strings.txt"), "w") as f:
            for x, err in domain_samples():
                s = format_number_with_error(x, err)
                assert isinstance(s, str)
                r = reference(x, err)
                assert s == r, (x, err, s, r)
                fx, ferr = float(x), float(err)
                in_domain = (
                    ferr > 0 and np.isfinite(ferr) and np.isfinite(fx) and
                    (fx == 0 or (1e-300 <= abs(fx) <= 1e300 and
                                 1e-12 <= ferr / abs(fx) <= 1e12))
                )
                if in_domain and not isinstance(x, np.float32):
                    check_property(x, err, s)
                    n += 1
                seen.add(s)
                f.write(s + "\n")
        assert n > 20000, n
        # every shape of output was produced
        assert any("e+" in s for s in seen)
        assert any("e-" in s for s in seen)
        assert any("e" not in s and "." in s for s in seen)
        assert any("e" not in s and "." not in s for s in seen)
        assert any("(10)" in s for s in seen)
        assert any(s.startswith("-0.0") for s in seen)
        with open(os.path.join(tmpdir, "strings.txt")) as f:
            assert sum(1 for _ in f) >= n

        # a few literal expectations
        lit = {
            (0.1542412, 0.0626653): "0.154(63)",
            (-128124123097, 6424): "-1.281241231(64)e+11",
            (1.0, 0.0996): "1.00(10)",
            (99.9, 9.96): "100(10)",
            (12.345, 0.67): "12.35(67)" if f"{12.345:.2f}" == "12.35"
            else "12.34(67)",
            (0.0, 9.96): "0.0(10)e+01",
            (1234.5, 0.25): "1.23450(25)e+03",
            (5e-5, 2.5e-6): "5.00(25)e-05",
            (3.0, 25.0): "0.03(25)e+02",
        }
        for (x, err), want in lit.items():
            got = format_number_with_error(x, err)
            assert got == want, (x, err, got, want)

        # unusual inputs: same result or same exception as the reference
        m = 0
        with np.errstate(all="ignore"):
            import warnings
            with warnings.catch_warnings():
                warnings.simplefilter("ignore")
                for x, err in unusual_inputs():
                    a = outcome(format_number_with_error, x, err)
                    b = outcome(reference, x, err)
                    assert a == b, (x, err, a, b)
                    m += 1
        assert m > 500

        # keyword call and public export
        assert xyzpy.format_number_with_error is format_number_with_error
        assert format_number_with_error(err=0.02, x=1.5) == "1.500(20)"

        # in-library callers
        rs = RunningStatistics()
        assert repr(rs) == "RunningStatistics(mean=None, count=0)"
        rs.update_from_it([1.1, 1.4, 1.2, 1.5, 1.3, 1.6])
        want = (
            f"RunningStatistics(mean={reference(rs.mean, rs.err)}, count=6)"
        )
        assert repr(rs) == want, (repr(rs), want)
        check_property(rs.mean, rs.err, reference(rs.mean, rs.err))

        vals = itertools.cycle([4.9, 5.3, 5.1, 5.0, 5.2, 4.8, 5.05])
        out, errstream = io.StringIO(), io.StringIO()
        with contextlib.redirect_stdout(out), \
                contextlib.redirect_stderr(errstream):
            stats = xyzpy.estimate_from_repeats(
                lambda: next(vals), verbosity=2, rtol=0.01, max_samples=200,
            )
        printed = out.getvalue().strip()
        assert printed == repr(stats), (printed, repr(stats))
        assert printed == (
            f"RunningStatistics(mean={reference(stats.mean, stats.err)}, "
            f"count={stats.count})"
        )
        assert stats.count < 200
    finally:
        shutil.rmtree(tmpdir, ignore_errors=True)

    assert not os.path.exists(tmpdir)
    print("PASS")


if __name__ == "__main__":
    main()
