"""Demo for C14 / t6: auto_add_extension, save_ds, load_ds (xyzpy/manage.py).

Run as:  cd <worktree> && /venv/bin/python /path/to/demo.py
"""
import os
import sys

sys.path.insert(0, os.getcwd())

import importlib
import itertools
import shutil
import tempfile

import numpy as np
import xarray as xr

import xyzpy
from xyzpy.manage import auto_add_extension, save_ds, load_ds

assert os.path.abspath(xyzpy.__file__).startswith(os.getcwd()), xyzpy.__file__

EXT = {'h5netcdf': '.h5', 'netcdf4': '.nc', 'joblib': '.dmp', 'zarr': '.zarr'}


def importable(mod):
    try:
        importlib.import_module(mod)
        return True
    except Exception:
        return False


ENGINES = ['h5netcdf', 'joblib']
if importable('netCDF4'):
    ENGINES.append('netcdf4')
if importable('zarr'):
    ENGINES.append('zarr')
NETCDF_ENGINES = [e for e in ENGINES if e in ('h5netcdf', 'netcdf4')]

n_checks = 0


def check(cond, msg):
    global n_checks
    n_checks += 1
    if not cond:
        raise AssertionError(msg)


def raises(exc_type, fn, *args, **kwargs):
    try:
        fn(*args, **kwargs)
    except exc_type as e:
        return e
    except BaseException as e:  # pragma: no cover
        raise AssertionError("expected {} got {!r}".format(exc_type, e))
    raise AssertionError("expected {} but nothing raised".format(exc_type))


# --------------------------------------------------------------------------- #
#                              file name handling                             #
# --------------------------------------------------------------------------- #

def demo_extension():
    for engine, ext in EXT.items():
        # no extension -> the engine's one is appended
        check(auto_add_extension('results', engine) == 'results' + ext,
              ('bare', engine))
        check(auto_add_extension('a/b.c/results', engine) ==
              'a/b.c/results' + ext, ('dotted dir', engine))
        check(auto_add_extension('', engine) == ext, ('empty', engine))
        # any known extension anywhere in the name -> unchanged
        for other in EXT.values():
            for name in ['results' + other, 'results' + other + '.bak',
                         'dir' + other + '/results']:
                check(auto_add_extension(name, engine) == name,
                      (name, engine))
        # idempotent
        once = auto_add_extension('xyz', engine)
        check(auto_add_extension(once, engine) == once, 'idempotent')

    # unknown engine: only matters if the name has no extension yet
    check(auto_add_extension('results.h5', 'bogus') == 'results.h5', 'bogus1')
    e = raises(KeyError, auto_add_extension, 'results', 'bogus')
    check(e.args == ('bogus',), e.args)
    raises(KeyError, auto_add_extension, 'results', None)
    # non-string names fail on the membership test
    raises(TypeError, auto_add_extension, None, 'h5netcdf')
    raises(TypeError, auto_add_extension, 12, 'joblib')
    # the argument is not modified (strings are immutable, but still)
    name = 'keep'
    auto_add_extension(name, 'joblib')
    check(name == 'keep', 'arg untouched')


# --------------------------------------------------------------------------- #
#                                 round trips                                 #
# --------------------------------------------------------------------------- #

def make_datasets():
    rng = np.random.default_rng(42)
    dss = {}

    dss['empty'] = xr.Dataset()
    dss['0d'] = xr.Dataset({'s': ((), 3.5), 'i': ((), 7), 'c': ((), 1 + 2j),
                            'b': ((), True), 't': ((), 'hello')})

    f1 = rng.normal(size=5)
    f1[[1, 3]] = np.nan
    dss['1d'] = xr.Dataset(
        {'f': ('x', f1), 'i': ('x', np.arange(5) * 3),
         'b': ('x', np.array([True, False, True, True, False])),
         't': ('x', np.array(['a', 'bb', 'ccc', '', 'e']))},
        coords={'x': [10, 20, 30, 40, 50]})

    c2 = rng.normal(size=(3, 4)) + 1j * rng.normal(size=(3, 4))
    c2[0, 0] = np.nan
    c2[2, 1] = complex(np.nan, 1.0)
    f2 = rng.normal(size=(3, 4))
    f2[1, :] = np.nan
    dss['2d'] = xr.Dataset(
        {'z': (('a', 'b'), c2), 'f': (('a', 'b'), f2),
         'only_b': ('b', np.arange(4.0))},
        coords={'a': [0.5, 1.5, 2.5], 'b': ['p', 'q', 'r', 's'],
                'extra': ('a', [True, False, True])})

    f3 = rng.normal(size=(2, 3, 2))
    f3[:, 1, :] = np.nan
    dss['3d'] = xr.Dataset(
        {'v': (('a', 'b', 'c'), f3),
         'w': (('c', 'a'), rng.integers(0, 9, size=(2, 2)))},
        coords={'a': [1, 2], 'b': [0.1, 0.2, 0.3], 'c': ['u', 'v']})

    c4 = (rng.normal(size=(2, 1, 3, 2)) +
          1j * rng.normal(size=(2, 1, 3, 2))).astype(np.complex64)
    dss['4d'] = xr.Dataset(
        {'q': (('a', 'b', 'c', 'd'), c4),
         'allnan': (('a', 'd'), np.full((2, 2), np.nan))},
        coords={'a': [1, 2], 'b': [7], 'c': [1.0, 2.0, 4.0], 'd': [-1, 1],
                'zc': ('c', np.array([1j, 2j, 3 + 0j]))})

    dss['nodimcoord'] = xr.Dataset({'f': (('m', 'n'), np.ones((2, 3)))})
    return dss


ATTRS = {
    'none': None, 'yes': True, 'no': False,
    'one': 1, 'zero': 0, 'flt': 2.5, 'txt': 'some text',
    'lst': [1, 2, 3], 'strnone': 'None',
}


def expected_attrs(attrs, engine):
    if engine in ('joblib', 'zarr'):
        return dict(attrs)
    out = {}
    for k, v in attrs.items():
        if v is None:
            v = 'None'
        elif v is True:
            v = 'True'
        elif v is False:
            v = 'False'
        out[k] = v
    return out


def attrs_equal(got, want):
    if list(got) != list(want):
        return False
    for k in want:
        g, w = got[k], want[k]
        if isinstance(w, (list, np.ndarray)) or isinstance(g, np.ndarray):
            if not np.array_equal(np.asarray(g), np.asarray(w)):
                return False
        elif isinstance(w, str) or w is None or isinstance(w, bool):
            if type(g) is not type(w) or g != w:
                return False
        else:
            if g != w:
                return False
    return True


def same_data(a, b):
    """Same dims, coords, variables, dtypes kinds and values (NaN aware)."""
    if dict(a.sizes) != dict(b.sizes):
        return False
    if list(a.data_vars) != list(b.data_vars):
        return False
    if set(a.coords) != set(b.coords):
        return False
    for name in a.variables:
        va, vb = a.variables[name], b.variables[name]
        if va.dims != vb.dims:
            return False
        xa, xb = np.asarray(va.values), np.asarray(vb.values)
        if xa.dtype.kind != xb.dtype.kind and not (
                {xa.dtype.kind, xb.dtype.kind} <= {'U', 'O', 'T'}):
            return False
        if xa.dtype.kind in 'fc':
            if xa.dtype != xb.dtype:
                return False
            if not np.array_equal(xa, xb, equal_nan=True):
                return False
        else:
            if not np.array_equal(xa.astype(object), xb.astype(object)):
                return False
    return True


def demo_roundtrip(tmp):
    dss = make_datasets()
    for (label, ds0), engine, with_ext in itertools.product(
            dss.items(), ENGINES, (False, True)):
        ds = ds0.copy(deep=True)
        ds.attrs.update(ATTRS)
        base = os.path.join(tmp, 'rt_{}_{}_{}'.format(label, engine, with_ext))
        given = base + EXT[engine] if with_ext else base
        on_disk = base + EXT[engine]

        before = set(os.listdir(tmp))
        ret = save_ds(ds, given, engine=engine)
        check(ret is None, 'save_ds returns None')
        new = set(os.listdir(tmp)) - before
        check(new == {os.path.basename(on_disk)}, (new, on_disk))

        # the dataset handed in has its attributes rewritten in place for
        # netcdf engines, and is left alone otherwise
        check(attrs_equal(ds.attrs, expected_attrs(ATTRS, engine)),
              ('in-place attrs', engine, dict(ds.attrs)))
        check(same_data(ds, ds0), 'saving does not change the data')

        # loading under either name gives the same thing back
        for name in (given, base, on_disk):
            got = load_ds(name, engine=engine)
            check(same_data(got, ds0), ('values', label, engine, name))
            check(attrs_equal(got.attrs, expected_attrs(ATTRS, engine)),
                  ('attrs', label, engine, dict(got.attrs)))
            if engine != 'joblib':
                # loaded into memory and closed
                check(all(v._in_memory for v in got.variables.values()),
                      'in memory')

        # lazily
        if engine != 'joblib':
            for chunks in (1, {}, {d: 1 for d in ds0.dims}, 'auto'):
                lazy = load_ds(given, engine=engine, chunks=chunks)
                try:
                    if ds0.data_vars and chunks != 'auto':
                        check(all(v.chunks is not None
                                  for v in lazy.data_vars.values()
                                  if v.ndim > 0),
                              ('is lazy', label, chunks))
                    check(same_data(lazy.compute(), ds0),
                          ('lazy values', label, engine, chunks))
                    check(attrs_equal(lazy.attrs,
                                      expected_attrs(ATTRS, engine)), 'lazyat')
                finally:
                    lazy.close()
        else:
            # joblib ignores chunks / load_to_mem entirely
            got = load_ds(given, engine=engine, chunks=1, load_to_mem=True)
            check(same_data(got, ds0), 'joblib ignores chunks')

        os.remove(on_disk) if os.path.isfile(on_disk) else shutil.rmtree(
            on_disk)


# --------------------------------------------------------------------------- #
#                            options and edge cases                           #
# --------------------------------------------------------------------------- #

def demo_save_options(tmp):
    cplx = xr.Dataset({'z': ('x', np.array([1 + 1j, 2 - 1j]))},
                      coords={'x': [0, 1]})
    real = xr.Dataset({'r': ('x', np.array([1.0, np.nan]))},
                      coords={'x': [0, 1]})
    ccoord = xr.Dataset({'r': ('x', np.array([1.0, 2.0]))},
                        coords={'x': [0, 1],
                                'zc': ('x', np.array([1j, 2j]))})

    for engine in NETCDF_ENGINES:
        if engine != 'h5netcdf':
            continue
        # the save keywords reach xarray: record them
        seen = []
        orig = xr.Dataset.to_netcdf

        def spy(self, *args, **kwargs):
            seen.append((args, dict(kwargs)))
            return orig(self, *args, **kwargs)

        xr.Dataset.to_netcdf = spy
        try:
            save_ds(real, os.path.join(tmp, 'o_real'), engine=engine)
            save_ds(cplx, os.path.join(tmp, 'o_cplx'), engine=engine)
            save_ds(ccoord, os.path.join(tmp, 'o_ccoord'), engine=engine)
            save_ds(cplx, os.path.join(tmp, 'o_cplx2'), engine=engine,
                    invalid_netcdf=True, mode='w')
            save_ds(real, os.path.join(tmp, 'o_real2.h5'), engine=engine,
                    invalid_netcdf=True)
            err = None
            try:
                save_ds(cplx, os.path.join(tmp, 'o_cplx3'), engine=engine,
                        invalid_netcdf=False)
            except Exception as e:  # whatever h5netcdf says: not overridden
                err = e
        finally:
            xr.Dataset.to_netcdf = orig

        want = [
            ((os.path.join(tmp, 'o_real.h5'),), {'engine': engine}),
            ((os.path.join(tmp, 'o_cplx.h5'),),
             {'engine': engine, 'invalid_netcdf': True}),
            ((os.path.join(tmp, 'o_ccoord.h5'),),
             {'engine': engine, 'invalid_netcdf': True}),
            ((os.path.join(tmp, 'o_cplx2.h5'),),
             {'engine': engine, 'invalid_netcdf': True, 'mode': 'w'}),
            ((os.path.join(tmp, 'o_real2.h5'),),
             {'engine': engine, 'invalid_netcdf': True}),
            ((os.path.join(tmp, 'o_cplx3.h5'),),
             {'engine': engine, 'invalid_netcdf': False}),
        ]
        check(seen == want, seen)
        check(same_data(load_ds(os.path.join(tmp, 'o_ccoord'), engine=engine),
                        ccoord), 'complex coordinate')
        check(same_data(load_ds(os.path.join(tmp, 'o_cplx2'), engine=engine),
                        cplx), 'complex explicit')
        # (recorded only: what an explicit invalid_netcdf=False leads to is
        # the backend's business)
        _ = err

    # joblib: keywords go to joblib.dump, attributes are left alone
    ds = real.copy(deep=True)
    ds.attrs.update(n=None, t=True, f=False)
    save_ds(ds, os.path.join(tmp, 'o_jl'), engine='joblib', compress=3)
    check(ds.attrs == {'n': None, 't': True, 'f': False}, 'joblib attrs')
    got = load_ds(os.path.join(tmp, 'o_jl'), engine='joblib')
    check(got.attrs == {'n': None, 't': True, 'f': False}, 'joblib attrs 2')
    check(got.attrs['n'] is None and got.attrs['t'] is True, 'identity')
    raises(TypeError, save_ds, ds, os.path.join(tmp, 'o_jl2'),
           engine='joblib', not_an_option=1)
    check(not os.path.exists(os.path.join(tmp, 'o_jl2.dmp')), 'nothing made')

    # only identity with None / True / False counts, 1 == True does not
    ds = real.copy(deep=True)
    ds.attrs.update(a=1, b=0, c=1.0, d=np.bool_(True), e='True', f=True)
    # (xarray then refuses the numpy bool, after the rewriting was done)
    raises(TypeError, save_ds, ds, os.path.join(tmp, 'o_ident'))
    check(not os.path.exists(os.path.join(tmp, 'o_ident.h5')), 'refused')
    check(attrs_equal(ds.attrs, {'a': 1, 'b': 0, 'c': 1.0,
                                 'd': np.bool_(True), 'e': 'True',
                                 'f': 'True'}), dict(ds.attrs))
    check(type(ds.attrs['a']) is int and type(ds.attrs['d']) is np.bool_,
          'types kept')
    # variable attributes are not rewritten by save_ds
    ds = real.copy(deep=True)
    ds['r'].attrs['flag'] = 'x'
    ds.attrs['top'] = None
    save_ds(ds, os.path.join(tmp, 'o_varattr'))
    check(ds['r'].attrs == {'flag': 'x'} and ds.attrs == {'top': 'None'},
          'var attrs')

    # unknown engine: fails on the extension look-up before anything else...
    ds = real.copy(deep=True)
    ds.attrs['n'] = None
    raises(KeyError, save_ds, ds, os.path.join(tmp, 'o_bogus'),
           engine='bogus')
    check(ds.attrs == {'n': None}, 'nothing rewritten before the KeyError')
    # ...unless the name has an extension: then the attributes are already
    # rewritten when xarray rejects the engine
    raises(Exception, save_ds, ds, os.path.join(tmp, 'o_bogus.h5'),
           engine='bogus')
    check(ds.attrs == {'n': 'None'}, 'rewritten before backend error')
    check(not os.path.exists(os.path.join(tmp, 'o_bogus.h5')), 'no file')

    # a lazily loaded dataset can be saved elsewhere (values are inspected)
    lazy = load_ds(os.path.join(tmp, 'o_cplx'), chunks=1)
    try:
        save_ds(lazy, os.path.join(tmp, 'o_cplx_copy'))
    finally:
        lazy.close()
    check(same_data(load_ds(os.path.join(tmp, 'o_cplx_copy')), cplx), 'copy')


def demo_load_options(tmp):
    ds = xr.Dataset({'f': (('x', 'y'), np.arange(6.0).reshape(2, 3))},
                    coords={'x': [1, 2], 'y': [1, 2, 3]})
    ds['f'][0, 1] = np.nan
    name = os.path.join(tmp, 'l_data')
    save_ds(ds, name)
    save_ds(ds, name, engine='joblib')

    # create_new only matters when the file is missing
    for engine in ENGINES:
        missing = os.path.join(tmp, 'l_missing_' + engine)
        new = load_ds(missing, engine=engine, create_new=True)
        check(isinstance(new, xr.Dataset) and not new.variables
              and not new.attrs, 'blank dataset')
        check(not os.path.exists(missing + EXT[engine]), 'not created')
        raises((FileNotFoundError, OSError), load_ds, missing, engine=engine)
        raises((FileNotFoundError, OSError), load_ds, missing, engine=engine,
               create_new=False)
        if engine in ('h5netcdf', 'joblib'):
            got = load_ds(name, engine=engine, create_new=True)
            check(same_data(got, ds), 'create_new with a file there')
    # create_new wins over the chunks / load_to_mem clash when file missing
    new = load_ds(os.path.join(tmp, 'l_nothing'), create_new=True,
                  load_to_mem=True, chunks=1)
    check(not new.variables, 'blank wins')
    # unknown engine and no extension
    raises(KeyError, load_ds, os.path.join(tmp, 'l_data'), engine='bogus')

    # chunks together with load_to_mem
    for chunks in (1, {'x': 1}, {}, 'auto'):
        e = raises(ValueError, load_ds, name, load_to_mem=True, chunks=chunks)
        check(str(e) == "``chunks`` redundant if ``load_to_mem`` given.",
              str(e))
        e = raises(ValueError, load_ds, name, load_to_mem=1, chunks=chunks)
    # ... but not for joblib, which returns first
    got = load_ds(name, engine='joblib', load_to_mem=True, chunks=1)
    check(same_data(got, ds), 'joblib early')

    # which combinations end up in memory
    def in_memory(d):
        return all(v._in_memory for v in d.variables.values())

    table = [
        (dict(), True),
        (dict(load_to_mem=None, chunks=None), True),
        (dict(load_to_mem=True), False),     # sic: only the default loads
        (dict(load_to_mem=False), False),
        (dict(load_to_mem=0), False),
        (dict(chunks=1), False),
        (dict(chunks={'x': 1}), False),
        (dict(load_to_mem=False, chunks=2), False),
        (dict(load_to_mem=None, chunks={}), False),
    ]
    for opts, want in table:
        got = load_ds(name, **opts)
        try:
            check(in_memory(got) is want, (opts, want))
            if opts.get('chunks') is not None:
                check(got['f'].chunks is not None, ('dask', opts))
            check(same_data(got.compute(), ds), ('values', opts))
        finally:
            got.close()

    # extra keywords reach xarray.open_dataset / joblib.load
    got = load_ds(name, drop_variables=['f'])
    check(list(got.data_vars) == [] and set(got.coords) == {'x', 'y'}, 'kw')
    got = load_ds(name, engine='joblib', mmap_mode=None)
    check(same_data(got, ds), 'joblib kw')
    raises(TypeError, load_ds, name, engine='joblib', bogus_kw=1)


def demo_load_fallback(tmp):
    """The h5netcdf -> netcdf4 retry, with ``xarray.open_dataset`` faked."""
    name = os.path.join(tmp, 'fb')
    ds = xr.Dataset({'f': ('x', [1.0, 2.0])}, coords={'x': [0, 1]})
    save_ds(ds, name)

    real_open = xr.open_dataset
    calls = []

    def fake_factory(first_error, second=None):
        def fake(file_name, **opts):
            calls.append((file_name, dict(opts)))
            if len(calls) == 1:
                raise first_error
            if second is not None:
                raise second
            # pretend netcdf4 worked: really open with h5netcdf
            opts = dict(opts, engine='h5netcdf')
            return real_open(file_name, **opts)
        return fake

    try:
        # 1. retried with netcdf4, everything else the same
        del calls[:]
        xr.open_dataset = fake_factory(
            AttributeError("'Foo' object has no attribute 'bar'"))
        got = load_ds(name, chunks=None, drop_variables=['nope'])
        check(same_data(got, ds), 'fallback result')
        check(all(v._in_memory for v in got.variables.values()), 'loaded')
        check(calls == [
            (name + '.h5', {'engine': 'h5netcdf', 'chunks': None,
                            'drop_variables': ['nope']}),
            (name + '.h5', {'engine': 'netcdf4', 'chunks': None,
                            'drop_variables': ['nope']}),
        ], calls)

        # 1b. lazily too
        del calls[:]
        xr.open_dataset = fake_factory(
            AttributeError("'Foo' object has no attribute 'bar'"))
        got = load_ds(name, chunks={'x': 1})
        try:
            check(got['f'].chunks is not None, 'lazy after retry')
            check([c[1] for c in calls] == [
                {'engine': 'h5netcdf', 'chunks': {'x': 1}},
                {'engine': 'netcdf4', 'chunks': {'x': 1}}], calls)
        finally:
            got.close()

        # 2. another AttributeError is passed on, same object, no retry
        del calls[:]
        err = AttributeError("something else")
        xr.open_dataset = fake_factory(err)
        e = raises(AttributeError, load_ds, name)
        check(e is err and len(calls) == 1, 'other message')

        # 3. another engine is not retried
        del calls[:]
        err = AttributeError("'Foo' object has no attribute 'bar'")
        xr.open_dataset = fake_factory(err)
        e = raises(AttributeError, load_ds, name + '.h5', engine='scipy')
        check(e is err and len(calls) == 1, 'other engine')
        check(calls[0] == (name + '.h5', {'engine': 'scipy', 'chunks': None}),
              calls)

        # 4. other exception types are not caught
        del calls[:]
        err = RuntimeError("object has no attribute")
        xr.open_dataset = fake_factory(err)
        e = raises(RuntimeError, load_ds, name)
        check(e is err and len(calls) == 1, 'other type')

        # 5. the retry's own failure comes out, chained to the first
        del calls[:]
        first = AttributeError("'Foo' object has no attribute 'bar'")
        second = ValueError("netcdf4 missing")
        xr.open_dataset = fake_factory(first, second)
        e = raises(ValueError, load_ds, name)
        check(e is second and e.__context__ is first and len(calls) == 2,
              'chained')

        # 6. the chunks / load_to_mem clash is found before opening anything
        del calls[:]
        xr.open_dataset = fake_factory(RuntimeError('never'))
        raises(ValueError, load_ds, name, load_to_mem=True, chunks=1)
        check(calls == [], 'nothing opened')
    finally:
        xr.open_dataset = real_open


def main():
    tmp = tempfile.mkdtemp(prefix='xyz_c14_t6_')
    try:
        demo_extension()
        demo_roundtrip(tmp)
        demo_save_options(tmp)
        demo_load_options(tmp)
        demo_load_fallback(tmp)
    finally:
        shutil.rmtree(tmp, ignore_errors=True)
    check(not os.path.exists(tmp), 'cleaned up')
    print("engines:", ENGINES, "checks:", n_checks)
    print("PASS")


if __name__ == '__main__':
    main()
