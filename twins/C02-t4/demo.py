"""Demo / check for property C02: sparse cases run only what was asked and
leave every other slot missing.

Run as ``cd <worktree> && /venv/bin/python /path/to/demo.py``.
"""
import os
import sys

sys.path.insert(0, os.getcwd())

import itertools  # noqa: E402
import math  # noqa: E402
import random  # noqa: E402
import shutil  # noqa: E402
import tempfile  # noqa: E402
import warnings  # noqa: E402
import zlib  # noqa: E402

import numpy as np  # noqa: E402
import xarray as xr  # noqa: E402

import xyzpy  # noqa: E402
from xyzpy.gen.combo_runner import (  # noqa: E402
    combo_runner,
    combo_runner_core,
    combo_runner_to_ds,
    nan_like_result,
)
from xyzpy.gen.case_runner import case_runner, case_runner_to_ds  # noqa: E402
from xyzpy.gen.prepare import parse_cases  # noqa: E402

assert os.path.dirname(os.path.dirname(os.path.abspath(xyzpy.__file__))) == \
    os.path.abspath(os.getcwd()), xyzpy.__file__

warnings.simplefilter("ignore")

NCHECK = 0


def check(cond, msg=""):
    global NCHECK
    NCHECK += 1
    if not cond:
        raise AssertionError(msg)


def same(x, y):
    """Structural, type-aware, nan-aware equality of nested results."""
    if isinstance(x, (xr.Dataset, xr.DataArray)):
        return type(x) is type(y) and x.identical(y)
    if isinstance(x, tuple):
        return (
            isinstance(y, tuple) and
            len(x) == len(y) and
            all(same(a, b) for a, b in zip(x, y))
        )
    if isinstance(x, list):
        return (
            isinstance(y, list) and
            len(x) == len(y) and
            all(same(a, b) for a, b in zip(x, y))
        )
    if isinstance(x, np.ndarray):
        return (
            isinstance(y, np.ndarray) and
            x.shape == y.shape and
            x.dtype == y.dtype and
            np.array_equal(x, y, equal_nan=(x.dtype.kind == "f"))
        )
    if x is None:
        return y is None
    if isinstance(x, float) and math.isnan(x):
        return isinstance(y, float) and math.isnan(y)
    return type(x) is type(y) and x == y


class Recorder:
    """Wraps a function, recording the kwargs of every call in order."""

    def __init__(self, fn):
        self.fn = fn
        self.calls = []

    def __call__(self, **kws):
        self.calls.append(dict(kws))
        return self.fn(**kws)


# ------------------------- the different result kinds ---------------------- #

def _h(kws):
    return sum((i + 1) * zlib.crc32(str(kws[k]).encode()) % 97 for i, k in
               enumerate(sorted(kws)))


def res_number(**kws):
    return float(_h(kws))


def res_bool(**kws):
    return _h(kws) % 2 == 0


def res_str(**kws):
    return "|".join("{}={}".format(k, kws[k]) for k in sorted(kws))


def res_tuple(**kws):
    return (_h(kws), res_str(**kws), _h(kws) % 3 == 0)


def res_nested(**kws):
    h = _h(kws)
    return [[h, h + 1, h + 2], [h + 3, h + 4, h + 5]]


def res_tuple_arrays(**kws):
    h = _h(kws)
    return (h, [h, h + 1, h + 2], [[h, 1.0], [2.0, h]])


def res_dict(**kws):
    h = _h(kws)
    return {"u": ("t", [h, h + 1.0]), "w": float(h)}


def res_dataset(**kws):
    h = _h(kws)
    return xr.Dataset({"u": ("t", [h, h + 1.0])}, coords={"t": [10, 20]})


KINDS = {
    "number": res_number,
    "bool": res_bool,
    "str": res_str,
    "tuple": res_tuple,
    "nested": res_nested,
    "tuple_arrays": res_tuple_arrays,
    "dict": res_dict,
    "dataset": res_dataset,
}


# ----------------------- independent model of expectation ------------------ #

def expected_placeholder(kind, first):
    if kind in ("bool", "str"):
        return None
    if kind == "number":
        return float("nan")
    if kind == "tuple":
        return (np.array(np.nan), np.array(np.nan), np.array(np.nan))
    if kind == "nested":
        return (np.full(3, np.nan), np.full(3, np.nan))
    if kind == "tuple_arrays":
        return (np.array(np.nan), np.full(3, np.nan), np.full((2, 2), np.nan))
    if kind == "dict":
        return xr.full_like(xr.Dataset(first), np.nan, dtype=float)
    if kind == "dataset":
        return xr.full_like(first, np.nan, dtype=float)
    raise ValueError(kind)


def sort_or_keep(vals):
    try:
        return sorted(vals)
    except TypeError:
        return None


def expected_grid(fn, case_args, case_tuples, combos, constants, kind):
    """Build the expected nested tuple by direct recursion over coordinates."""
    combo_args = tuple(a for a, _ in combos)
    combo_vals = tuple(list(v) for _, v in combos)
    fn_args = tuple(case_args) + combo_args

    asked = {}
    order = []
    for ct in case_tuples:
        for sub in itertools.product(*combo_vals):
            loc = tuple(ct) + sub
            kws = dict(zip(fn_args, loc))
            kws.update(constants)
            asked[loc] = fn(**kws)
            order.append(kws)

    coords = []
    for i, a in enumerate(case_args):
        vals = set(ct[i] for ct in case_tuples)
        svals = sort_or_keep(vals)
        check(svals is not None)
        coords.append(svals)
    coords.extend(combo_vals)

    if case_args:
        first = asked[tuple(case_tuples[0]) + tuple(v[0] for v in combo_vals)]
        hole = expected_placeholder(kind, first)
    else:
        hole = None

    def build(prefix, rest):
        if not rest:
            return asked.get(prefix, hole)
        return tuple(build(prefix + (v,), rest[1:]) for v in rest[0])

    return build((), coords), fn_args, coords, order


def call_key(kws):
    return tuple(sorted((k, repr(v)) for k, v in kws.items()))


# ------------------------------- the checks -------------------------------- #

ARG_POOL = {
    "a": [1, 2, 3, 5],
    "b": ["x", "y", "zz"],
    "c": [0.5, 1.5, 2.5],
    "d": [10, 20],
}


def random_problem(rng, n_case_args, n_combo_args):
    names = list(ARG_POOL)
    rng.shuffle(names)
    case_args = tuple(names[:n_case_args])
    combo_args = tuple(names[n_case_args:n_case_args + n_combo_args])
    universe = list(itertools.product(*(ARG_POOL[a] for a in case_args)))
    rng.shuffle(universe)
    ncases = rng.randint(1, min(5, len(universe)))
    case_tuples = universe[:ncases]
    combos = []
    for a in combo_args:
        vals = list(ARG_POOL[a])
        rng.shuffle(vals)
        combos.append((a, vals[:rng.randint(1, len(vals))]))
    return case_args, case_tuples, tuple(combos)


def check_core_grid(rng):
    """combo_runner / combo_runner_core on many random sparse problems."""
    kinds = list(KINDS)
    n = 0
    for n_case_args in (1, 2, 3, 4):
        for n_combo_args in range(0, 4 - n_case_args + 1):
            for rep in range(4):
                kind = kinds[n % len(kinds)]
                n += 1
                fn = KINDS[kind]
                case_args, case_tuples, combos = random_problem(
                    rng, n_case_args, n_combo_args)
                constants = {"k": 7} if rep % 2 else {}
                shuffle = (False, True, 3, False)[rep]

                exp, fn_args, coords, order = expected_grid(
                    fn, case_args, case_tuples, combos, constants, kind)

                # dict spelling, keys in a scrambled order for later cases
                dict_cases = []
                for i, ct in enumerate(case_tuples):
                    items = list(zip(case_args, ct))
                    if i:
                        rng.shuffle(items)
                    dict_cases.append(dict(items))

                rec = Recorder(fn)
                info = {}
                got = combo_runner_core(
                    rec,
                    combos=combos,
                    constants=constants,
                    cases=tuple(dict_cases),
                    shuffle=shuffle,
                    verbosity=0,
                    info=info,
                )
                check(same(got, exp), ("grid", kind, case_args, combos))
                check(info["fn_args"] == fn_args)
                check(list(info["all_combo_values"]) == coords)
                # exactly once per requested setting, never any other
                check(sorted(map(call_key, rec.calls)) ==
                      sorted(map(call_key, order)))
                check(len(rec.calls) == len(order))
                if not shuffle:
                    check(rec.calls == order)
                elif len(order) > 1:
                    ref = list(order)
                    random.seed(int(shuffle))
                    random.shuffle(ref)
                    check(rec.calls == ref)

                # public entry point, with a dict for the sub-grids
                rec = Recorder(fn)
                got = combo_runner(
                    rec,
                    combos=dict(combos),
                    cases=dict_cases,
                    constants=constants,
                    shuffle=shuffle,
                    verbosity=0,
                )
                check(same(got, exp))
                check(len(rec.calls) == len(order))

                # flat: results in requested order + the settings
                rec = Recorder(fn)
                info = {}
                got = combo_runner_core(
                    rec,
                    combos=combos,
                    constants=constants,
                    cases=dict_cases,
                    flat=True,
                    shuffle=shuffle,
                    verbosity=0,
                    info=info,
                )
                check(isinstance(got, tuple))
                check(same(got, tuple(fn(**kws) for kws in order)))
                check(info["settings"] == order)
                check(list(info) == ["settings"])

                # tuple spelling through case_runner (always flat)
                rec = Recorder(fn)
                got = case_runner(
                    rec,
                    fn_args=case_args,
                    cases=[tuple(ct) for ct in case_tuples],
                    combos=dict(combos),
                    constants=constants,
                    shuffle=shuffle,
                    verbosity=0,
                )
                check(same(got, tuple(fn(**kws) for kws in order)))
                check(sorted(map(call_key, rec.calls)) ==
                      sorted(map(call_key, order)))


def check_split(rng):
    """Multiple outputs split into one grid each, each with own placeholder."""
    for fn, kind in ((res_tuple, "tuple"), (res_tuple_arrays, "tuple_arrays")):
        for shuffle in (False, 2):
            case_args, case_tuples, combos = random_problem(rng, 2, 1)
            dict_cases = [dict(zip(case_args, ct)) for ct in case_tuples]
            rec = Recorder(fn)
            got = combo_runner_core(
                rec, combos=combos, constants={}, cases=dict_cases,
                split=True, shuffle=shuffle, verbosity=0,
            )
            check(isinstance(got, tuple) and len(got) == 3)
            sample = fn(**dict(zip(case_args + tuple(a for a, _ in combos),
                                   case_tuples[0] +
                                   tuple(v[0] for _, v in combos))))
            for i in range(3):
                def fni(_i=i, **kws):
                    return fn(**kws)[_i]
                # placeholder comes from the i-th output of the first result
                s = sample[i]
                if isinstance(s, (bool, str)):
                    hole = None
                elif isinstance(s, list):
                    hole = tuple(
                        np.full(np.shape(row), np.nan) for row in s)
                else:
                    hole = float("nan")
                exp_i, _, _, order = expected_grid(
                    fni, case_args, case_tuples, combos, {}, "number")

                def patch(x, depth):
                    if depth == 0:
                        if isinstance(x, float) and math.isnan(x) and \
                                not isinstance(s, float):
                            return hole
                        return x
                    return tuple(patch(y, depth - 1) for y in x)

                exp_i = patch(exp_i, len(case_args) + len(combos))
                check(same(got[i], exp_i), ("split", kind, i))
            check(len(rec.calls) == len(order))

            # flat + split -> tuple of flat tuples
            got = combo_runner_core(
                fn, combos=combos, constants={}, cases=dict_cases,
                split=True, flat=True, shuffle=shuffle, verbosity=0,
            )
            flat = tuple(fn(**kws) for kws in order)
            check(same(got, tuple(zip(*flat))))


def check_no_cases():
    """Plain grids (no cases): everything is run, nothing is missing."""
    combos = (("a", [3, 1, 2]), ("b", ["q", "p"]))
    rec = Recorder(res_number)
    info = {}
    got = combo_runner_core(rec, combos, {"k": 1}, verbosity=0, info=info)
    exp = tuple(
        tuple(res_number(a=a, b=b, k=1) for b in ["q", "p"])
        for a in [3, 1, 2]
    )
    check(same(got, exp))
    check(info["fn_args"] == ("a", "b"))
    check(info["all_combo_values"] == ([3, 1, 2], ["q", "p"]))
    check(rec.calls == [dict(a=a, b=b, k=1) for a in [3, 1, 2]
                        for b in ["q", "p"]])
    # neither cases nor combos: a single call with just the constants
    rec = Recorder(res_str)
    got = combo_runner_core(rec, (), {"k": 1}, verbosity=0)
    check(got == "k=1" and rec.calls == [{"k": 1}])
    for empty in (None, (), [], {}):
        rec = Recorder(res_str)
        check(combo_runner(rec, {"a": [1, 2]}, cases=empty, verbosity=0) ==
              ("a=1", "a=2"))
        check(len(rec.calls) == 2)
    # single case given as a bare dict
    rec = Recorder(res_number)
    got = combo_runner(rec, cases={"a": 1, "b": "x"}, verbosity=0)
    check(same(got, ((res_number(a=1, b="x"),),)))
    check(rec.calls == [{"a": 1, "b": "x"}])


def check_union_ordering():
    """Union of case coordinates: sorted if possible, else left as found."""
    cases = [{"a": 3, "b": "z"}, {"a": 1, "b": "y"}, {"a": 3, "b": "y"}]
    info = {}
    got = combo_runner_core(
        res_str, (("c", [9, 8]),), {}, cases=cases, verbosity=0, info=info)
    check(info["all_combo_values"] == ([1, 3], ["y", "z"], [9, 8]))
    check(got == (
        (("a=1|b=y|c=9", "a=1|b=y|c=8"), (None, None)),
        (("a=3|b=y|c=9", "a=3|b=y|c=8"), ("a=3|b=z|c=9", "a=3|b=z|c=8")),
    ))
    # unsortable mixture -> any order, but still the exact union
    cases = [{"a": 1}, {"a": "s"}, {"a": 2.5}]
    info = {}
    rec = Recorder(res_number)
    got = combo_runner_core(rec, (), {}, cases=cases, verbosity=0, info=info)
    (avals,) = info["all_combo_values"]
    check(isinstance(avals, list) and len(avals) == 3)
    check(set(avals) == {1, "s", 2.5})
    check(same(got, tuple(res_number(a=v) for v in avals)))
    check(len(rec.calls) == 3)
    # a constant may also be handed over as pairs
    got = combo_runner_core(
        res_str, (), [("k", 0)], cases=[{"a": 1}], verbosity=0)
    check(got == ("a=1|k=0",))


def check_rejections():
    """Things that must be refused, and *when* they are refused."""
    rec = Recorder(res_number)
    for combos, cases in (
        ({"a": [1, 2]}, [{"a": 1, "b": "x"}]),
        ({"b": ["x"], "c": [1]}, [{"a": 1, "b": "x"}, {"a": 2, "b": "y"}]),
        ((("a", [1, 2]),), ({"a": 1},)),
    ):
        for runner in (
            lambda: combo_runner(rec, combos, cases=cases, verbosity=0),
            lambda: combo_runner(rec, combos, cases=cases, flat=True,
                                 shuffle=True, verbosity=0),
            lambda: case_runner(rec, None, cases, combos=combos, verbosity=0),
            lambda: combo_runner_to_ds(rec, combos, "out", cases=cases,
                                       verbosity=0),
        ):
            try:
                runner()
            except ValueError as e:
                check("both ``cases`` and ``combos``" in str(e), str(e))
                check("currently found combo variables" in str(e))
            else:
                check(False, "overlap was not rejected")
    check(rec.calls == [], "function ran although the request was rejected")

    # the message reports combo variables first then case variables
    try:
        combo_runner_core(rec, (("b", [1]), ("a", [2])), {},
                          cases=[{"c": 1, "a": 2}], verbosity=0)
    except ValueError as e:
        check(str(e) == (
            "Variables can't appear in both ``cases`` and ``combos``, "
            "currently found combo variables ('b', 'a') and case variables"
            "('c', 'a')."))
    else:
        check(False)

    # later case lacking an argument of the first: KeyError, nothing run
    try:
        combo_runner(rec, cases=[{"a": 1, "b": 2}, {"a": 1}], verbosity=0)
    except KeyError as e:
        check(e.args == ("b",))
    else:
        check(False)
    # ... and it is noticed before the overlap check
    try:
        combo_runner(rec, {"a": [1]}, cases=[{"a": 1, "b": 2}, {"a": 1}],
                     verbosity=0)
    except KeyError as e:
        check(e.args == ("b",))
    else:
        check(False)
    # extra keys in later cases are silently ignored
    got = combo_runner(rec, cases=[{"a": 1}, {"a": 2, "zz": 5}], verbosity=0)
    check(rec.calls == [{"a": 1}, {"a": 2}])
    check(same(got, (res_number(a=1), res_number(a=2))))
    rec.calls.clear()

    # unhashable case value -> TypeError before anything runs
    try:
        combo_runner(rec, cases=[{"a": [1, 2]}], verbosity=0)
    except TypeError as e:
        check("unhashable" in str(e))
    else:
        check(False)
    # non-iterable sub-grid -> TypeError before anything runs
    try:
        combo_runner_core(rec, (("c", 5),), {}, cases=[{"a": 1}],
                          verbosity=0)
    except TypeError as e:
        check("int" in str(e))
    else:
        check(False)
    # constants missing altogether (un-parsed call)
    try:
        combo_runner_core(rec, (("c", [5]),), None, cases=[{"a": 1}],
                          verbosity=0)
    except TypeError as e:
        check("NoneType" in str(e))
    else:
        check(False)
    # empty (but truthy) stream of cases
    try:
        combo_runner_core(rec, (), {}, cases=iter(()), verbosity=0)
    except IndexError:
        check(True)
    else:
        check(False)
    # cases which are not mappings
    try:
        combo_runner_core(rec, (), {}, cases=[(1, 2)], verbosity=0)
    except AttributeError as e:
        check("keys" in str(e))
    else:
        check(False)
    check(rec.calls == [])

    # cases with an empty sub-grid: nothing to run, nothing to shape the
    # placeholder from
    try:
        combo_runner_core(rec, (("c", []),), {}, cases=[{"a": 1}],
                          verbosity=0)
    except IndexError:
        check(True)
    else:
        check(False)
    check(combo_runner_core(rec, (("c", []),), {}, cases=[{"a": 1}],
                            flat=True, verbosity=0) == ())
    check(combo_runner_core(rec, (("c", []),), {}, cases=[{"a": 1}],
                            split=True, verbosity=0) == ())
    try:
        combo_runner_core(rec, (("c", []),), {}, cases=[{"a": 1}],
                          shuffle=True, verbosity=0)
    except ValueError as e:
        check("unpack" in str(e))
    else:
        check(False)
    check(rec.calls == [])

    # duplicated case: run twice, slot holds the last
    n = []

    def counting(a):
        n.append(a)
        return len(n)

    got = combo_runner(counting, cases=[{"a": 1}, {"a": 2}, {"a": 1}],
                       verbosity=0)
    check(n == [1, 2, 1] and got == (3, 2))


def check_parse_cases():
    """The spellings of ``cases`` that are accepted."""
    check(parse_cases(None) == ())
    check(parse_cases(()) == ())
    check(parse_cases([], ("a",)) == ())
    d = {"a": 1}
    check(parse_cases(d) == (d,) and parse_cases(d)[0] is d)
    ds = [{"a": 1}, {"a": 2}]
    out = parse_cases(iter(ds))
    check(out == tuple(ds) and out[0] is ds[0])
    check(parse_cases([(1, "x"), (2, "y")], ("a", "b")) ==
          ({"a": 1, "b": "x"}, {"a": 2, "b": "y"}))
    check(parse_cases(([1, "x"], (2, "y")), ["a", "b"]) ==
          ({"a": 1, "b": "x"}, {"a": 2, "b": "y"}))
    # single argument, bare values
    check(parse_cases([1, 10, 100], ("a",)) ==
          ({"a": 1}, {"a": 10}, {"a": 100}))
    check(parse_cases(["foo", "bar"], ("a",)) == ({"a": "foo"}, {"a": "bar"}))
    check(parse_cases(["foo", "bar"], "a") == ({"a": "foo"}, {"a": "bar"}))
    check(parse_cases(range(3), ("a", "b")) == ({"a": 0}, {"a": 1}, {"a": 2}))
    # whether to wrap is decided by the first case only
    check(parse_cases([5, (6, 7)], ("a", "b")) == ({"a": 5}, {"a": (6, 7)}))
    check(parse_cases(["ab", (6, 7)], ("a", "b")) ==
          ({"a": "ab"}, {"a": (6, 7)}))
    check(parse_cases([(1,), "xy"], ("a", "b")) ==
          ({"a": 1}, {"a": "x", "b": "y"}))
    # truncation to the shorter of names / values
    check(parse_cases([(1, 2, 3)], ("a", "b")) == ({"a": 1, "b": 2},))
    check(parse_cases([(1,)], ("a", "b")) == ({"a": 1},))
    out = parse_cases(((i, -i) for i in range(3)), ("a", "b"))
    check(isinstance(out, tuple) and all(type(c) is dict for c in out))
    check(out == tuple({"a": i, "b": -i} for i in range(3)))
    try:
        parse_cases([(1, 2)])
    except TypeError as e:
        check("`fn_args` must be provided" in str(e))
    else:
        check(False)
    try:
        parse_cases([(1, 2), 3], ("a", "b"))
    except TypeError as e:
        check("int" in str(e))
    else:
        check(False)
    try:
        parse_cases([(1, 2)], (["un", "hashable"], "b"))
    except TypeError as e:
        check("unhashable" in str(e))
    else:
        check(False)


def check_placeholder():
    """Shape and type of the all-missing placeholder."""
    check(nan_like_result(True) is None)
    check(nan_like_result(False) is None)
    check(nan_like_result("hello") is None)
    check(nan_like_result("") is None)
    for x in (1, -42.0, 1j, None, np.float64(2.0), np.array(3.0)):
        r = nan_like_result(x)
        check(type(r) is float and math.isnan(r))
    r = nan_like_result((True, [[10, 20, 30], [40, 50, 60]], -42.0, "hello"))
    check(isinstance(r, tuple) and len(r) == 4)
    check([np.shape(x) for x in r] == [(), (2, 3), (), ()])
    check(all(isinstance(x, np.ndarray) and np.isnan(x).all() for x in r))
    r = nan_like_result([[1, 2, 3], [4, 5, 6]])
    check(same(r, (np.full(3, np.nan), np.full(3, np.nan))))
    r = nan_like_result(np.arange(6).reshape(2, 3))
    check(same(r, (np.full(3, np.nan), np.full(3, np.nan))))
    check(nan_like_result(()) == ())
    check(nan_like_result([]) == ())
    r = nan_like_result([{1, 2, 3}, "ab", b"ab", np.float32(1)])
    check([np.shape(x) for x in r] == [(3,), (), (2,), ()])
    # an iterator is consumed exactly once
    it = iter([1, [2, 3]])
    r = nan_like_result(it)
    check([np.shape(x) for x in r] == [(), (2,)] and list(it) == [])

    # something that starts off iterable but then fails with a TypeError
    def gen():
        yield 1
        raise TypeError("boom")

    r = nan_like_result(gen())
    check(type(r) is float and math.isnan(r))

    def gen2():
        yield 1
        raise KeyError("boom")

    try:
        nan_like_result(gen2())
    except KeyError:
        check(True)
    else:
        check(False)
    # empty inner sequences cannot be shaped
    try:
        nan_like_result(([],))
    except IndexError:
        check(True)
    else:
        check(False)
    r = nan_like_result({"u": ("t", [1, 2]), "w": 3})
    check(isinstance(r, xr.Dataset))
    check(r.identical(xr.Dataset({"u": ("t", [np.nan, np.nan]),
                                  "w": np.nan})))
    da = xr.DataArray([1, 2], dims="t", name="u")
    r = nan_like_result(da)
    check(isinstance(r, xr.DataArray) and r.dtype == float and
          bool(r.isnull().all()) and r.name == "u")


def check_to_ds(rng):
    """Labelled outputs: union coordinates, results in place, rest missing."""
    for rep in range(6):
        case_args, case_tuples, combos = random_problem(rng, 2, rep % 3)
        combo_args = tuple(a for a, _ in combos)
        fn_args = case_args + combo_args
        shuffle = bool(rep % 2)

        def fn(**kws):
            return res_number(**kws), res_bool(**kws), res_str(**kws)

        rec = Recorder(fn)
        if rep % 2:
            ds = case_runner_to_ds(
                rec, case_args, [tuple(c) for c in case_tuples],
                var_names=["num", "flag", "txt"],
                combos=dict(combos), shuffle=shuffle, verbosity=0,
            )
        else:
            ds = combo_runner_to_ds(
                rec, dict(combos), ["num", "flag", "txt"],
                cases=[dict(zip(case_args, c)) for c in case_tuples],
                shuffle=shuffle, verbosity=0,
            )
        requested = set()
        for ct in case_tuples:
            for sub in itertools.product(*(v for _, v in combos)):
                requested.add(tuple(ct) + sub)
        check(len(rec.calls) == len(requested))
        check(set(tuple(c[a] for a in fn_args) for c in rec.calls) ==
              requested)
        for i, a in enumerate(case_args):
            check(list(ds[a].values) == sorted(set(c[i] for c in case_tuples)))
        for a, v in combos:
            check(list(ds[a].values) == list(v))
        check(set(ds.dims) == set(fn_args))
        for loc in itertools.product(*(ds[a].values.tolist()
                                       for a in fn_args)):
            kws = dict(zip(fn_args, loc))
            pt = ds.sel(kws)
            if loc in requested:
                check(float(pt["num"]) == res_number(**kws))
                check(pt["flag"].item() == res_bool(**kws))
                check(pt["txt"].item() == res_str(**kws))
            else:
                check(math.isnan(float(pt["num"])))
                check(pt["flag"].item() is None or
                      (isinstance(pt["flag"].item(), float) and
                       math.isnan(pt["flag"].item())))
                check(bool(pt["txt"].isnull()))

    # dataset-valued function with cases
    rec = Recorder(res_dict)
    ds = combo_runner_to_ds(
        rec, {"c": [1, 2]}, None,
        cases=[{"a": 1, "b": "x"}, {"a": 2, "b": "y"}], verbosity=0)
    check(len(rec.calls) == 4)
    check(ds.sizes == {"a": 2, "b": 2, "c": 2, "t": 2})
    check(bool(ds["u"].sel(a=1, b="y").isnull().all()))
    check(bool(ds["w"].sel(a=2, b="x").isnull().all()))
    check(float(ds["w"].sel(a=2, b="y", c=1)) ==
          res_dict(a=2, b="y", c=1)["w"])
    check(ds["u"].sel(a=1, b="x", c=2).values.tolist() ==
          list(res_dict(a=1, b="x", c=2)["u"][1]))

    # dataframe output: one row per requested setting
    rec = Recorder(res_number)
    df = case_runner_to_ds(
        rec, ("a", "b"), [(1, "x"), (2, "y")], var_names="out",
        combos={"c": [1, 2]}, to_df=True, verbosity=0)
    check(len(df) == 4 and len(rec.calls) == 4)
    check(df["out"].tolist() == [res_number(**kws) for kws in rec.calls])


def check_runner_and_crop(tmpdir):
    """Runner / Harvester / Crop front ends on top of the same machinery."""
    calls = []

    def fn(a, b, c=0):
        calls.append((a, b, c))
        return a * 100 + b * 10 + c, str(a) + str(b)

    runner = xyzpy.Runner(fn, var_names=["val", "lab"])
    ds = runner.run_cases([(1, 2), (3, 4)], verbosity=0)
    check(calls == [(1, 2, 0), (3, 4, 0)])
    check(ds["val"].sel(a=1, b=2).item() == 120)
    check(math.isnan(ds["val"].sel(a=1, b=4).item()))
    check(ds["lab"].sel(a=3, b=4).item() == "34")
    check(bool(ds["lab"].sel(a=3, b=2).isnull()))
    del calls[:]

    ds = runner.run_cases([{"b": 2, "a": 1}, {"a": 3, "b": 4}],
                          combos=(("c", [5, 6]),), verbosity=0)
    check(calls == [(1, 2, 5), (1, 2, 6), (3, 4, 5), (3, 4, 6)])
    check(ds["val"].dims == ("b", "a", "c"))
    check(int(ds["val"].isnull().sum()) == 4)
    del calls[:]

    try:
        runner.run_cases([(1, 2)], combos=(("b", [1]),), verbosity=0)
    except ValueError as e:
        check("both ``cases`` and ``combos``" in str(e))
    else:
        check(False)
    check(calls == [])

    # single-argument bare cases
    r1 = xyzpy.Runner(lambda s: s.upper(), var_names="up", fn_args="s")
    ds = r1.run_cases(["ab", "cd"], verbosity=0)
    check(ds["up"].values.tolist() == ["AB", "CD"])

    # harvester merges new sparse cases into file
    fname = os.path.join(tmpdir, "data.h5")
    def fnum(a, b, c=0):
        return fn(a, b, c)[0]

    h = xyzpy.Harvester(xyzpy.Runner(fnum, var_names="val"), fname,
                        engine="h5netcdf")
    h.harvest_cases([(1, 2), (3, 4)], verbosity=0)
    h.harvest_cases([(1, 4)], verbosity=0)
    check(calls == [(1, 2, 0), (3, 4, 0), (1, 4, 0)])
    with xyzpy.load_ds(fname, engine="h5netcdf") as full:
        full = full.load()
    check(full["val"].sel(a=1, b=4).item() == 140)
    check(math.isnan(full["val"].sel(a=3, b=2).item()))
    check(int(full["val"].notnull().sum()) == 3)
    del calls[:]

    # sow / grow / reap of sparse cases
    crop = runner.Crop(name="sparse", parent_dir=tmpdir, batchsize=3)
    crop.sow_cases(("a", "b"), [(1, 2), (3, 4)], combos=(("c", [5, 6]),),
                   verbosity=0)
    check(calls == [])
    check(crop.num_sown_batches == 2)
    crop.grow_missing(verbosity=0)
    ds = crop.reap()
    # (the crop runs a pickled copy of fn, so look at the results instead)
    for (a, b, c) in [(1, 2, 5), (1, 2, 6), (3, 4, 5), (3, 4, 6)]:
        check(ds["val"].sel(a=a, b=b, c=c).item() == a * 100 + b * 10 + c)
        check(ds["lab"].sel(a=a, b=b, c=c).item() == str(a) + str(b))
    check(ds["val"].sel(a=3, b=4, c=6).item() == 346)
    check(int(ds["val"].isnull().sum()) == 4)
    check(bool(ds["lab"].sel(a=1, b=4).isnull().all()))
    check(not os.path.exists(crop.location))
    del calls[:]

    crop = xyzpy.Crop(farmer=runner, name="sparse2", parent_dir=tmpdir,
                      batchsize=1, shuffle=True)
    crop.sow_cases(None, [{"a": 1, "b": 2}, {"a": 3, "b": 4},
                          {"a": 3, "b": 2}], verbosity=0)
    check(crop.num_sown_batches == 3)
    crop.grow_missing(verbosity=0)
    ds = crop.reap()
    for (a, b) in [(1, 2), (3, 2), (3, 4)]:
        check(ds["val"].sel(a=a, b=b).item() == a * 100 + b * 10)
    check(ds["val"].sel(a=3, b=2).item() == 320)
    check(int(ds["val"].isnull().sum()) == 1)
    check(math.isnan(ds["val"].sel(a=1, b=4).item()))


def main():
    rng = random.Random(1234)
    check_parse_cases()
    check_placeholder()
    check_no_cases()
    check_union_ordering()
    check_rejections()
    check_core_grid(rng)
    check_split(rng)
    check_to_ds(rng)
    tmpdir = tempfile.mkdtemp(prefix="c02demo")
    try:
        check_runner_and_crop(tmpdir)
    finally:
        shutil.rmtree(tmpdir, ignore_errors=True)
    print("PASS ({} checks)".format(NCHECK))


if __name__ == "__main__":
    main()
