"""Demo for twin 2 (C17): the matplotlib drawing methods in
xyzpy/plot/plotter_matplotlib.py (``LinePlot.plot_lines``,
``Scatter.plot_scatter``, ``Histogram.plot_histogram``,
``HeatMap.plot_heatmap`` and the panel loop of ``mpl_multi_plot``).

Run as ``cd <worktree> && /venv/bin/python /path/to/demo.py``.
"""
import os
import sys

sys.path.insert(0, os.getcwd())
os.environ.setdefault("MPLBACKEND", "Agg")

import itertools
import logging
import shutil
import tempfile
import warnings

import numpy as np
import xarray as xr
import matplotlib

matplotlib.use("Agg")
import matplotlib.pyplot as plt
from matplotlib.colors import to_rgba, Normalize, LogNorm
from matplotlib.collections import PathCollection, QuadMesh
from matplotlib.patches import Polygon

import xyzpy
from xyzpy.plot.color import xyz_colormaps
from xyzpy.plot.marker import _MPL_MARKERS
from xyzpy.plot.plotter_matplotlib import (
    LinePlot, Scatter, Histogram, HeatMap,
    lineplot, scatter, histogram, heatmap,
    auto_lineplot, auto_scatter, auto_histogram, auto_heatmap,
)

assert os.path.dirname(os.path.dirname(os.path.abspath(xyzpy.__file__))) \
    == os.path.abspath(os.getcwd()), xyzpy.__file__

warnings.filterwarnings("ignore")
logging.getLogger("matplotlib.font_manager").setLevel(logging.ERROR)

NCHECK = [0]
TAB10 = [rgb + (1.0,) for rgb in matplotlib.cm.tab10.colors]


def check(cond, msg=""):
    NCHECK[0] += 1
    if not cond:
        raise AssertionError(msg)


def same(a, b, msg=""):
    a, b = np.asarray(a), np.asarray(b)
    check(a.shape == b.shape and np.array_equal(a, b),
          "{}: {!r} != {!r}".format(msg, a, b))


def close(a, b, msg=""):
    a, b = np.asarray(a, dtype=float), np.asarray(b, dtype=float)
    check(a.shape == b.shape and np.allclose(a, b, rtol=1e-12, atol=0),
          "{}: {!r} != {!r}".format(msg, a, b))


def make_ds(seed=0, nx=6, nz=4, nw=None, zvals=None):
    rng = np.random.RandomState(seed)
    x = np.linspace(1.0, 3.5, nx)
    z = np.arange(nz) * 2.0 + 1.0 if zvals is None else np.asarray(zvals)
    shape = (nx, nz) if nw is None else (nx, nz, nw)
    dims = ("x", "z") if nw is None else ("x", "z", "w")
    y = rng.uniform(1, 2, shape)
    y[1, 0] = np.nan
    y[2, 1] = np.inf
    if nz > 2:
        y[:, 2] = np.nan
    coords = {"x": x, "z": z}
    if nw is not None:
        coords["w"] = np.arange(nw) * 0.5 + 0.25
    return xr.Dataset(
        coords=coords,
        data_vars={
            "y": (dims, y),
            "y2": (dims, rng.uniform(3, 5, shape)),
            "ye": (dims, rng.uniform(0.01, 0.1, shape)),
            "xe": (dims, rng.uniform(0.01, 0.1, shape)),
            "cz": (("z",), rng.uniform(1, 10, nz)),
            "cp": (dims, rng.uniform(0.5, 1.5, shape)),
        },
    )


def pairs(xda, yda, *others):
    arrs = xr.broadcast(xda, yda, *others)
    flat = [a.values.flatten() for a in arrs]
    ok = np.isfinite(flat[0]) & np.isfinite(flat[1])
    return [f[ok] for f in flat]


def run(cls, ds, *args, **kwargs):
    before = ds.copy(deep=True)
    P = cls(ds, *args, **kwargs)
    fig = P()
    check(ds.identical(before), "dataset was modified by plotting")
    check(fig is P._fig)
    return P, fig


def segs(coll):
    return np.array(coll.get_segments())


# --------------------------------------------------------------------------- #
# LinePlot.plot_lines
# --------------------------------------------------------------------------- #

def check_line_data(ds, lines):
    check(len(lines) == ds.z.size)
    for i, ln in enumerate(lines):
        ex, ey = pairs(ds["x"], ds["y"].isel(z=i))
        same(ln.get_xdata(), ex)
        same(ln.get_ydata(), ey)
        check(ln.get_label() == str(ds.z.values[i]))


def test_lines_styles():
    ds = make_ds(1)

    # defaults: sequential colours, cycling markers, solid 1.3 lines
    P, fig = run(LinePlot, ds, "x", "y", "z")
    lines = P._axes.get_lines()
    check_line_data(ds, lines)
    for i, ln in enumerate(lines):
        check(to_rgba(ln.get_color()) == TAB10[i])
        check(ln.get_marker() == _MPL_MARKERS[i])
        check(ln.get_markersize() == 5)
        check(to_rgba(ln.get_markeredgecolor()) == TAB10[i][:3] + (1.0,))
        check(ln.get_markerfacecolor() == TAB10[i][:3] + (0.5,))
        check(ln.get_linewidth() == 1.3 and ln.get_zorder() == 3)
        check(ln.get_linestyle() == "-")
        check(not ln.get_rasterized())
    check(len(P._axes.containers) == 0)
    handles, labels = P._axes.get_legend_handles_labels()
    check(P._legend_labels == labels == [str(z) for z in ds.z.values])
    check(all(a is b for a, b in zip(P._legend_handles, handles)))
    lgnd = P._axes.get_legend()
    check([t.get_text() for t in lgnd.get_texts()] == labels)
    check(lgnd.get_title().get_text() == "z")

    # everything customised: each cycle advances once per series
    P, fig = run(
        LinePlot, ds, "x", "y", "z",
        colors=["red", (0, 0.5, 0, 0.8)], marker_alpha=0.5,
        markers=["s", "^", "v"], marker_size=2, line_widths=[1, 2, 3],
        line_styles=["--", ":"], zorders=[5, 4], zlabels=list("ABCD"),
        rasterize=True, legend_reverse=True, ztitle="ZZ",
    )
    lines = P._axes.get_lines()
    cols = [to_rgba("red"), (0, 0.5, 0, 0.8)]
    for i, ln in enumerate(lines):
        ex, ey = pairs(ds["x"], ds["y"].isel(z=i))
        same(ln.get_xdata(), ex)
        same(ln.get_ydata(), ey)
        col = cols[i % 2]
        check(to_rgba(ln.get_color()) == col)
        check(ln.get_marker() == ["s", "^", "v"][i % 3])
        check(ln.get_markersize() == 2)
        check(ln.get_markeredgecolor() == col[:3] + (0.5 * col[3],))
        check(ln.get_markerfacecolor() == col[:3] + (0.5 * col[3] / 2,))
        check(ln.get_linewidth() == [1, 2, 3][i % 3])
        check(ln.get_zorder() == [5, 4][i % 2])
        check(ln.get_linestyle() == ["--", ":"][i % 2])
        check(ln.get_label() == "ABCD"[i])
        check(ln.get_rasterized())
    lgnd = P._axes.get_legend()
    check([t.get_text() for t in lgnd.get_texts()] == list("DCBA"))
    check(lgnd.get_title().get_text() == "ZZ")
    check(P.legend_marker_scale == 3 / 2)

    # no lines, no markers
    P, fig = run(LinePlot, ds, "x", "y", "z", lines=False)
    check(all(ln.get_linestyle() == "None" for ln in P._axes.get_lines()))
    P, fig = run(LinePlot, ds, "x", "y", "z", markers=False)
    check(all(ln.get_marker() == "None" for ln in P._axes.get_lines()))
    check_line_data(ds, P._axes.get_lines())

    # single series gets the single-line marker
    P, fig = run(LinePlot, ds.isel(z=1), "x", "y")
    (ln,) = P._axes.get_lines()
    check(ln.get_marker() == "." and ln.get_label().startswith("_"))
    check(P._legend_labels == [])


def test_lines_colormapped():
    ds = make_ds(2)
    for cm_name, log in (("viridis", False), ("plasma", True), (None, False)):
        cmap = xyz_colormaps(cm_name)
        norm = (LogNorm if log else Normalize)(vmin=float(ds.z.min()),
                                               vmax=float(ds.z.max()))
        P, fig = run(LinePlot, ds, "x", "y", "z", colors=True,
                     colormap=cm_name, colormap_log=log)
        lines = P._axes.get_lines()
        check_line_data(ds, lines)
        for zv, ln in zip(ds.z.values, lines):
            check(to_rgba(ln.get_color()) == to_rgba(cmap(norm(zv))))
        check(P.vmin == float(ds.z.min()) and P.vmax == float(ds.z.max()))

    # from a separate variable, many series (no legend, colorbar instead)
    ds = make_ds(3, nz=13)
    cmap = xyz_colormaps("viridis")
    norm = Normalize(vmin=float(ds.cz.min()), vmax=float(ds.cz.max()))
    P, fig = run(LinePlot, ds, "x", "y", "z", c="cz", colormap="viridis")
    lines = P._axes.get_lines()
    check_line_data(ds, lines)
    for cv, ln in zip(ds.cz.values, lines):
        check(to_rgba(ln.get_color()) == to_rgba(cmap(norm(cv))))
    check(P._use_colorbar and P._axes.get_legend() is None)
    check(P._cbar.ax.get_title() == "cz")

    # string z: evenly spaced along the colour map
    ds = make_ds(4, nz=3, zvals=["p", "q", "r"])
    P, fig = run(LinePlot, ds, "x", "y", "z", colors=True,
                 colormap_reverse=True, colormap="viridis")
    cmap = xyz_colormaps("viridis", reverse=True)
    for rv, ln in zip(np.linspace(0, 1, 3), P._axes.get_lines()):
        check(to_rgba(ln.get_color()) == to_rgba(cmap(rv)))
    check_line_data(ds, P._axes.get_lines())


def test_lines_errorbars():
    ds = make_ds(5)
    for kw in ({"y_err": "ye"}, {"x_err": "xe"},
               {"y_err": "ye", "x_err": "xe"}):
        P, fig = run(LinePlot, ds, "x", "y", "z", errorbar_capsize=2,
                     errorbar_capthick=1.5, errorbar_linewidth=0.9,
                     colors=["b", "g"], **kw)
        conts = P._axes.containers
        check(len(conts) == ds.z.size)
        for i, cont in enumerate(conts):
            sub = ds.isel(z=i)
            ex, ey, eye, exe = pairs(sub["x"], sub["y"], sub["ye"], sub["xe"])
            ln, caps, bars = cont.lines
            same(ln.get_xdata(), ex)
            same(ln.get_ydata(), ey)
            col = to_rgba("bg"[i % 2])
            check(to_rgba(ln.get_color()) == col)
            check(cont.get_label() == str(ds.z.values[i]))
            check(len(bars) == len(kw))
            check(len(caps) == (2 * len(kw) if len(ex) else 0))
            check(cont.has_yerr == ("y_err" in kw))
            check(cont.has_xerr == ("x_err" in kw))
            for cap in caps:
                check(cap.get_markersize() == 4.0)
                check(cap.get_markeredgewidth() == 1.5)
            bars = list(bars)
            for b in bars:
                check(np.allclose(b.get_linewidth(), 0.9))
                check(np.allclose(b.get_color()[0], col))
            if len(ex):
                if "x_err" in kw:
                    sx = segs(bars.pop(0))
                    close(sx[:, 0, 0], ex - exe)
                    close(sx[:, 1, 0], ex + exe)
                    close(sx[:, 0, 1], ey)
                if "y_err" in kw:
                    sy = segs(bars.pop(0))
                    close(sy[:, 0, 1], ey - eye)
                    close(sy[:, 1, 1], ey + eye)
                    close(sy[:, 0, 0], ex)
            else:
                check(all(len(b.get_segments()) == 0 for b in bars))
        check(list(P._legend_labels) == [str(z) for z in ds.z.values])
        check(all(a is b for a, b in zip(P._legend_handles, conts)))


def test_exhausted_cycles():
    ds = make_ds(6)
    # labels run out after the first series has been drawn
    for cls, exc in ((LinePlot, StopIteration), (Scatter, StopIteration)):
        P = cls(ds, "x", "y", "z", zlabels=["only"])
        try:
            P()
        except exc as e:
            check(type(e) is exc)
        else:
            check(False, "expected " + exc.__name__)
        n = len(P._axes.get_lines()) + len(P._axes.collections)
        check(n == 1, "one series drawn before running out of labels")
        plt.close(P._fig)
    P = Histogram(ds, "y", z="z", zlabels=["only"])
    try:
        P()
    except RuntimeError as e:
        check(type(e) is RuntimeError)
    else:
        check(False)
    check(len(P._axes.patches) == 0)
    plt.close(P._fig)
    for kw in ({"line_widths": []}, {"zorders": []}, {"line_styles": []}):
        P = LinePlot(ds, "x", "y", "z", **kw)
        try:
            P()
        except StopIteration:
            check(len(P._axes.get_lines()) == 0)
        else:
            check(False)
        plt.close(P._fig)
    # bad marker_alpha is only noticed after the width / marker were taken
    P = LinePlot(ds, "x", "y", "z", marker_alpha=None, line_widths=[])
    try:
        P()
    except StopIteration:
        check(True)
    else:
        check(False)
    plt.close(P._fig)
    P = LinePlot(ds, "x", "y", "z", marker_alpha=None)
    try:
        P()
    except TypeError:
        check(next(P._lws) == 1.3 and next(P._mrkrs) == _MPL_MARKERS[1])
        check(next(P._zlbls) == str(ds.z.values[0]))
    else:
        check(False)
    plt.close(P._fig)


# --------------------------------------------------------------------------- #
# Scatter.plot_scatter
# --------------------------------------------------------------------------- #

def test_scatter():
    ds = make_ds(7)

    P, fig = run(Scatter, ds, "x", "y", "z", marker_alpha=0.7,
                 marker_size=11, zorders=[2, 6])
    colls = P._axes.collections
    check(len(colls) == ds.z.size)
    check(all(a is b for a, b in zip(P._legend_handles, colls)))
    check(P._legend_labels == [str(z) for z in ds.z.values])
    for i, coll in enumerate(colls):
        check(isinstance(coll, PathCollection))
        ex, ey = pairs(ds["x"], ds["y"].isel(z=i))
        offs = np.asarray(coll.get_offsets())
        same(offs[:, 0], ex)
        same(offs[:, 1], ey)
        check(coll.get_label() == str(ds.z.values[i]))
        check(coll.get_array() is None)
        close(coll.get_facecolor(), [TAB10[i][:3] + (0.7,)])
        same(coll.get_sizes(), [11])
        check(coll.get_zorder() == [2, 6][i % 2])
        check(coll.get_alpha() == 0.7)
    lgnd = P._axes.get_legend()
    check([t.get_text() for t in lgnd.get_texts()] == P._legend_labels)

    # coloured per point from another variable: colours do not come from the
    # series colour cycle at all
    for cname in ("cp", "cz"):
        P, fig = run(Scatter, ds, "x", "y", "z", c=cname, colormap="plasma",
                     markers=["o", "s"])
        colls = P._axes.collections
        check(len(colls) == ds.z.size)
        lo, hi = float(ds[cname].min()), float(ds[cname].max())
        for i, coll in enumerate(colls):
            sub = ds.isel(z=i)
            ex, ey, ec = pairs(sub["x"], sub["y"], sub[cname])
            offs = np.asarray(coll.get_offsets())
            same(offs[:, 0], ex)
            same(offs[:, 1], ey)
            same(np.asarray(coll.get_array()), ec)
            check(coll.get_cmap() is P.cmap is xyz_colormaps("plasma"))
            check(coll.get_label() == str(ds.z.values[i]))
        check((P.vmin, P.vmax) == (lo, hi))
        # no per-series colours are made, or asked for, in this mode
        check(P._c_cols == [] and next(P._cols, "empty") == "empty")
        check(P._use_colorbar and P._cbar.ax.get_title() == cname)

    # z colour-mapped series colours
    P, fig = run(Scatter, ds, "x", "y", "z", colors=True, colormap="viridis")
    cmap = xyz_colormaps("viridis")
    norm = Normalize(float(ds.z.min()), float(ds.z.max()))
    for zv, coll in zip(ds.z.values, P._axes.collections):
        close(coll.get_facecolor(), [to_rgba(cmap(norm(zv)))])

    # several variables / no z
    ds1 = ds.isel(z=0)
    P, fig = run(Scatter, ds1, "x", ["y", "y2"])
    check(P._legend_labels == ["y", "y2"])
    for var, coll in zip(["y", "y2"], P._axes.collections):
        ex, ey = pairs(ds1["x"], ds1[var])
        same(np.asarray(coll.get_offsets())[:, 0], ex)
        same(np.asarray(coll.get_offsets())[:, 1], ey)
    P, fig = run(Scatter, ds1, "x", "y")
    check(P._legend_labels == [None] and len(P._axes.collections) == 1)
    check(P._axes.collections[0].get_paths()[0].vertices.shape ==
          matplotlib.markers.MarkerStyle(".").get_path().vertices.shape)


# --------------------------------------------------------------------------- #
# Histogram.plot_histogram
# --------------------------------------------------------------------------- #

def hist_reference(series, bins, stacked=False):
    fig = plt.figure()
    ax = fig.add_axes((0.1, 0.1, 0.8, 0.8))
    _, _, patches = ax.hist(tuple(series), bins=bins, density=True,
                            histtype="stepfilled", fill=True, stacked=stacked)
    if len(series) == 1:
        patches = [patches]
    out = [[p.get_xy().copy() for p in ps] for ps in patches]
    plt.close(fig)
    return out


def hist_polys(ax):
    # matplotlib adds 'stepfilled' polygons to the axes last series first
    return [p for p in ax.patches if isinstance(p, Polygon)][::-1]


def test_histogram():
    rng = np.random.RandomState(8)
    v = rng.normal(size=(60, 3))
    v[3, 0] = np.nan
    v[4, 1] = np.inf
    v[20:40, 2] = np.nan
    ds = xr.Dataset(coords={"z": [10, 20, 30]},
                    data_vars={"v": (("n", "z"), v),
                               "u": (("n", "z"), rng.uniform(size=(60, 3)))})
    series = [v[:, i][np.isfinite(v[:, i])] for i in range(3)]

    for kw in ({}, {"bins": 5, "stacked": True},
               {"line_widths": [1, 2], "zorders": [4, 5, 6],
                "marker_alpha": 0.4, "colors": ["r", "g", "b"],
                "rasterize": True}):
        P, fig = run(Histogram, ds, "v", z="z", **kw)
        ref = hist_reference(series, kw.get("bins", 30),
                             kw.get("stacked", False))
        polys = hist_polys(P._axes)
        check(len(polys) == 3)
        alpha = kw.get("marker_alpha", 1.0)
        cols = ([to_rgba(c) for c in kw["colors"]] if "colors" in kw
                else TAB10)
        for i, (p, r) in enumerate(zip(polys, ref)):
            same(p.get_xy(), r[0], "histogram polygon")
            close(p.get_edgecolor(), cols[i][:3] + (alpha,))
            close(p.get_facecolor(), cols[i][:3] + (alpha / 4,))
            check(p.get_linewidth() == kw.get("line_widths", [1.3])[
                i % len(kw.get("line_widths", [1.3]))])
            check(p.get_zorder() == kw.get("zorders", [3])[
                i % len(kw.get("zorders", [3]))])
            check(p.get_label() == str(ds.z.values[i]))
            check(bool(p.get_rasterized()) == kw.get("rasterize", False))
        check(P._legend_labels == ("10", "20", "30"))
        check(isinstance(P._legend_handles, tuple) and
              len(P._legend_handles) == 3)
        for i, h in enumerate(P._legend_handles):
            close(h.get_facecolor(), cols[i][:3] + (alpha / 4,))
            close(h.get_edgecolor(), cols[i][:3] + (alpha,))
        check(P._axes.get_xlabel() == "x" and P._axes.get_ylabel() == "f(x)")

    # one series only: matplotlib hands back a bare list of polygons
    P, fig = run(Histogram, ds, "u", line_widths=[2.5], zorders=[7])
    (poly,) = hist_polys(P._axes)
    u = ds["u"].values.flatten()
    same(poly.get_xy(), hist_reference([u], 30)[0][0])
    close(poly.get_edgecolor(), TAB10[0])
    close(poly.get_facecolor(), TAB10[0][:3] + (0.25,))
    check(poly.get_linewidth() == 2.5 and poly.get_zorder() == 7)
    check(P._legend_labels == (None,))

    # several variables
    P, fig = run(Histogram, ds, ["v", "u"])
    fl = v.flatten()
    ref = hist_reference([fl[np.isfinite(fl)], u], 30)
    for i, (p, r) in enumerate(zip(hist_polys(P._axes), ref)):
        same(p.get_xy(), r[0])
        close(p.get_edgecolor(), TAB10[i])
    check(P._legend_labels == ("v", "u"))


# --------------------------------------------------------------------------- #
# HeatMap.plot_heatmap
# --------------------------------------------------------------------------- #

def edges(c):
    av = np.mean(np.abs(c[:-1] - c[1:]))
    return np.append(c - av / 2, c[-1] + av / 2)


def check_mesh(P, ds, method="pcolormesh"):
    qm = P._heatmap
    z = np.ma.masked_invalid(ds["z"].transpose("y", "x").values)
    arr = qm.get_array()
    check(arr.shape == z.shape)
    same(np.ma.getmaskarray(arr), np.ma.getmaskarray(z))
    same(arr.filled(-99.0), z.filled(-99.0))
    if method == "pcolormesh":
        check(isinstance(qm, QuadMesh))
        coords = qm.get_coordinates()
        X, Y = np.meshgrid(edges(ds["x"].values), edges(ds["y"].values))
        same(coords[..., 0], X)
        same(coords[..., 1], Y)
    check(qm in P._axes.collections)
    return qm


def test_heatmap():
    rng = np.random.RandomState(9)
    ds = xr.Dataset(
        coords={"x": [1.0, 2.0, 4.0], "y": [0.0, 1.0, 2.0, 5.0],
                "w": [7, 8], "v": ["a", "b", "c"]},
        data_vars={"z": (("w", "x", "v", "y"),
                         rng.uniform(0.5, 2, size=(2, 3, 3, 4)))})
    ds["z"][0, 1, 0, 2] = np.nan
    ds["z"][1, 0, 1, 0] = np.inf
    ds["z"][1, 2, 2, :] = np.nan

    sub = ds.isel(w=0, v=0)
    P, fig = run(HeatMap, sub, "x", "y", "z")
    qm = check_mesh(P, sub)
    zf = sub["z"].values[np.isfinite(sub["z"].values)]
    check((qm.norm.vmin, qm.norm.vmax) == (zf.min(), zf.max()))
    check(type(qm.norm) is Normalize)
    check(qm.get_cmap() is xyz_colormaps("inferno") is P.cmap)
    check(qm.get_rasterized() is True)
    check(P._cbar.ax.get_title() == "z")
    check(P._axes.get_xlabel() == "x" and P._axes.get_ylabel() == "y")

    # inf / all-NaN column, log colours, explicit limits, other colour map
    sub = ds.isel(w=1, v=1)
    P, fig = run(HeatMap, sub, "x", "y", "z", colormap_log=True,
                 colormap="viridis", vmin=0.6, vmax=1.8, rasterize=False)
    qm = check_mesh(P, sub)
    check(type(qm.norm) is LogNorm and qm.norm is P._color_norm)
    check((qm.norm.vmin, qm.norm.vmax) == (0.6, 1.8))
    check(qm.get_cmap() is xyz_colormaps("viridis"))
    check(not qm.get_rasterized())
    check(P._cbar.extend == "both")
    sub = ds.isel(w=1, v=2)
    P, fig = run(HeatMap, sub, "x", "y", "z")
    check_mesh(P, sub)

    # the reversed colour map is only used for the colour bar's mappable
    sub = ds.isel(w=0, v=1)
    P, fig = run(HeatMap, sub, "x", "y", "z", colormap="viridis",
                 colormap_reverse=True)
    check(P._heatmap.get_cmap() is xyz_colormaps("viridis"))
    check(P.mappable.get_cmap() is xyz_colormaps("viridis", reverse=True))

    # other drawing method
    P, fig = run(HeatMap, sub, "x", "y", "z", method="pcolor")
    qm = check_mesh(P, sub, method="pcolor")
    check(type(qm).__name__ in ("PolyQuadMesh", "PolyCollection"))
    try:
        HeatMap(sub, "x", "y", "z", method="no_such_method")()
    except AttributeError:
        check(True)
    else:
        check(False)
    plt.close("all")

    # decreasing / transposed storage, x-y swapped
    sub = ds.isel(w=0, v=2).isel(x=slice(None, None, -1))
    P, fig = run(HeatMap, sub, "y", "x", "z")
    qm = P._heatmap
    same(qm.get_array().filled(-1),
         np.ma.masked_invalid(sub["z"].transpose("x", "y").values).filled(-1))
    X, Y = np.meshgrid(edges(sub["y"].values), edges(sub["x"].values))
    same(qm.get_coordinates()[..., 0], X)
    same(qm.get_coordinates()[..., 1], Y)

    # grids: each slice in the panel titled with its coordinate
    before = ds.copy(deep=True)
    fig = heatmap(ds, "x", "y", "z", row="w", col="v")
    check(ds.identical(before))
    panels = fig.axes[:6]
    finite = ds["z"].values[np.isfinite(ds["z"].values)]
    for i, j in itertools.product(range(2), range(3)):
        ax = panels[i * 3 + j]
        sub = ds.isel(w=i, v=j)
        (qm,) = ax.collections
        z = np.ma.masked_invalid(sub["z"].transpose("y", "x").values)
        same(qm.get_array().filled(-99.0), z.filled(-99.0))
        X, Y = np.meshgrid(edges(ds["x"].values), edges(ds["y"].values))
        same(qm.get_coordinates()[..., 0], X)
        same(qm.get_coordinates()[..., 1], Y)
        check(ax.get_title() == ("v = {}".format("abc"[j]) if i == 0 else ""))
        check(ax.get_ylabel() == ("w = {}".format([7, 8][i]) if j == 2
                                  else "y" if j == 0 else ""))
        check(ax.get_xlabel() == ("x" if i == 1 else ""))
    check(len(fig.axes) == 7)   # + one shared colour bar

    # auto variant
    arr = rng.uniform(size=(3, 5))
    arr[1, 1] = np.nan
    fig = auto_heatmap(arr)
    (qm,) = fig.axes[0].collections
    same(qm.get_array().filled(-1),
         np.ma.masked_invalid(arr.T).filled(-1))


# --------------------------------------------------------------------------- #
# mpl_multi_plot panel loop
# --------------------------------------------------------------------------- #

def ticks_on(ax):
    xt = ax.xaxis.get_major_ticks()[0]
    yt = ax.yaxis.get_major_ticks()[0]
    return {"bottom": xt.tick1line.get_visible(),
            "top": xt.tick2line.get_visible(),
            "left": yt.tick1line.get_visible(),
            "right": yt.tick2line.get_visible()}


def test_grids(tmpdir):
    ds = make_ds(10, nz=3, nw=3)
    ds = ds.assign_coords(u=[100, 200]).assign(
        y=ds["y"].expand_dims(u=[100, 200]).copy())
    ds["y"][1, 0, 0, 0] = np.nan
    before = ds.copy(deep=True)

    for space in (0, None):
        fig = lineplot(ds, "x", "y", "z", row="u", col="w", hspace=space,
                       wspace=space, tight_layout=(space is None))
        check(ds.identical(before))
        check(len(fig.axes) == 6)
        for i, j in itertools.product(range(2), range(3)):
            ax = fig.axes[i * 3 + j]
            sub = ds.isel(u=i, w=j)
            lines = ax.get_lines()
            check(len(lines) == 3)
            for k, ln in enumerate(lines):
                ex, ey = pairs(sub["x"], sub["y"].isel(z=k))
                same(ln.get_xdata(), ex)
                same(ln.get_ydata(), ey)
                check(ln.get_label() == str(ds.z.values[k]))
                check(to_rgba(ln.get_color()) == TAB10[k])
            check(ax.get_title() == ("w = {}".format(ds.w.values[j])
                                     if i == 0 else ""))
            check(ax.get_ylabel() == ("u = {}".format([100, 200][i])
                                      if j == 2 else "y" if j == 0 else ""))
            want = {"left": j == 0, "top": i == 0, "right": j == 2,
                    "bottom": i == 1}
            if space is None:
                want = dict.fromkeys(want, True)
            if j == 2:
                # the row label's axis has its ticks moved to the right
                want["left"] = False
            check(ticks_on(ax) == want, (i, j, ticks_on(ax), want))
            check(ax.get_legend() is None)
        (lgnd,) = fig.legends
        check([t.get_text() for t in lgnd.get_texts()] ==
              [str(z) for z in ds.z.values])
        lims = {(ax.get_xlim(), ax.get_ylim()) for ax in fig.axes}
        check(len(lims) == 1)
    fig.savefig(os.path.join(tmpdir, "grid.png"))

    # single row of panels, scatter coloured per point + shared colour bar
    sub = ds.isel(u=0)
    fig = scatter(sub, "x", "y", "z", col="w", c="cp", hspace=0, wspace=0)
    for j, ax in enumerate(fig.axes[:3]):
        check(ax.get_title() == "w = {}".format(ds.w.values[j]))
        for k, coll in enumerate(ax.collections):
            s2 = sub.isel(w=j, z=k)
            ex, ey, ec = pairs(s2["x"], s2["y"], s2["cp"])
            same(np.asarray(coll.get_offsets())[:, 0], ex)
            same(np.asarray(coll.get_offsets())[:, 1], ey)
            same(np.asarray(coll.get_array()), ec)
            # (no norm is handed to matplotlib: each series is autoscaled)
            if len(ec):
                check(coll.norm.vmin == ec.min())
                check(coll.norm.vmax == ec.max())
        check(ticks_on(ax) == {"left": j == 0, "top": True,
                               "right": j == 2, "bottom": True})

    # single column of panels, histogram
    fig = histogram(sub, "y2", z="z", row="w", hspace=0, wspace=0)
    for i, ax in enumerate(fig.axes):
        check(ax.get_ylabel() == "w = {}".format(ds.w.values[i]))
        series = [sub["y2"].isel(w=i, z=k).values.flatten()
                  for k in range(3)]
        for p, r in zip(hist_polys(ax), hist_reference(series, 30)):
            same(p.get_xy(), r[0])
        check(ticks_on(ax) == {"left": False, "top": i == 0, "right": True,
                               "bottom": i == 2})
    (lgnd,) = fig.legends
    check([t.get_text() for t in lgnd.get_texts()] ==
          [str(z) for z in ds.z.values])


def test_auto(tmpdir):
    x = np.linspace(0, 1, 5)
    yz = np.random.RandomState(11).uniform(size=(2, 5))
    yz[0, 3] = np.nan
    fig = auto_lineplot(x, yz, colors=True, colormap="viridis")
    cmap, norm = xyz_colormaps("viridis"), Normalize(0, 1)
    for i, ln in enumerate(fig.axes[0].get_lines()):
        ok = np.isfinite(yz[i])
        same(ln.get_xdata(), x[ok])
        same(ln.get_ydata(), yz[i][ok])
        check(to_rgba(ln.get_color()) == to_rgba(cmap(norm(i))))
    fig = auto_scatter(x, yz)
    for i, coll in enumerate(fig.axes[0].collections):
        ok = np.isfinite(yz[i])
        same(np.asarray(coll.get_offsets())[:, 1], yz[i][ok])
    fig = auto_histogram(yz)
    (poly,) = hist_polys(fig.axes[0])
    fl = yz.flatten()
    same(poly.get_xy(), hist_reference([fl[np.isfinite(fl)]], 30)[0][0])
    fig.savefig(os.path.join(tmpdir, "auto.png"))


def main():
    tmpdir = tempfile.mkdtemp(prefix="c17_t2_demo_")
    try:
        test_lines_styles()
        test_lines_colormapped()
        test_lines_errorbars()
        test_exhausted_cycles()
        test_scatter()
        test_histogram()
        test_heatmap()
        test_grids(tmpdir)
        test_auto(tmpdir)
    finally:
        plt.close("all")
        shutil.rmtree(tmpdir, ignore_errors=True)
    print("checks:", NCHECK[0])
    print("PASS")


if __name__ == "__main__":
    main()
