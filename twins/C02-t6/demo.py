"""Demo for C02 twin t6: the all-missing stand-in (``nan_like_result``) and
the folding of the flat results into the nested output grid (``_unflatten``
and the per-output step of ``combo_runner_core``).

Run as ``cd <worktree> && /venv/bin/python /path/to/demo.py``.
"""
import os
import sys

sys.path.insert(0, os.getcwd())

import itertools
import math
import shutil
import tempfile

import numpy as np
import xarray as xr

import xyzpy
from xyzpy.gen import combo_runner as cr
from xyzpy.gen.combo_runner import (
    combo_runner,
    combo_runner_core,
    combo_runner_to_ds,
    nan_like_result,
    infer_shape,
    _unflatten,
)
from xyzpy.gen.case_runner import case_runner, case_runner_to_ds

assert os.path.abspath(xyzpy.__file__).startswith(os.getcwd()), xyzpy.__file__


def isnan(x):
    return isinstance(x, float) and math.isnan(x)


def missing(v):
    # (xarray may turn the None of a str array into nan on construction)
    return v is None or isnan(v)


def same(a, b):
    """Structural equality where nan == nan and arrays compare by content."""
    if isinstance(a, (xr.Dataset, xr.DataArray)):
        return type(a) is type(b) and a.identical(b)
    if isinstance(a, np.ndarray) or isinstance(b, np.ndarray):
        if not (isinstance(a, np.ndarray) and isinstance(b, np.ndarray)):
            return False
        return (a.shape == b.shape and a.dtype == b.dtype and
                np.array_equal(a, b, equal_nan=a.dtype.kind == "f"))
    if isinstance(a, (tuple, list)):
        return (type(a) is type(b) and len(a) == len(b) and
                all(same(x, y) for x, y in zip(a, b)))
    if isnan(a) or isnan(b):
        return isnan(a) and isnan(b)
    return type(a) is type(b) and a == b


class Recorder:
    """Wrap a function, recording every call's keyword arguments."""

    def __init__(self, fn):
        self.fn = fn
        self.calls = []

    def __call__(self, **kws):
        self.calls.append(dict(kws))
        return self.fn(**kws)


def expected_nested(results_at, axes, fill):
    """Independent (recursive) model of the nested output grid."""
    def rec(prefix, rest):
        if not rest:
            return results_at.get(prefix, fill)
        return tuple(rec(prefix + (v,), rest[1:]) for v in rest[0])
    return rec((), tuple(axes))


# --------------------------------------------------------------------------- #
# 1. the stand-in for every result kind


def check_nan_like():
    # plain numbers (not iterable) -> nan
    for res in (1, 2.5, 3 + 1j, np.float64(2.0), None, np.array(3.0)):
        assert isnan(nan_like_result(res)), res
    # bool / str -> None
    for res in (True, False, "hello", ""):
        assert nan_like_result(res) is None, res

    # tuple of mixed kinds
    res = (True, [[10, 20, 30], [40, 50, 60]], -42.0, "hello", np.ones((2, 1)))
    out = nan_like_result(res)
    assert type(out) is tuple and len(out) == 5
    assert out[0].shape == () and np.isnan(out[0])
    assert out[1].shape == (2, 3) and np.isnan(out[1]).all()
    assert out[2].shape == () and np.isnan(out[2])
    assert out[3] is None
    assert out[4].shape == (2, 1) and np.isnan(out[4]).all()
    for o in (out[0], out[1], out[2], out[4]):
        assert isinstance(o, np.ndarray) and o.dtype == float
        assert not o.flags.writeable  # broadcast views

    # a bare nested list / array is a 'sequence of outputs' too
    out = nan_like_result([[1, 2], [3, 4], [5, 6]])
    assert type(out) is tuple and len(out) == 3
    assert all(o.shape == (2,) and np.isnan(o).all() for o in out)
    out = nan_like_result(np.arange(6.0).reshape(2, 3))
    assert type(out) is tuple and [o.shape for o in out] == [(3,), (3,)]
    assert nan_like_result(()) == ()
    assert nan_like_result([]) == ()
    out = nan_like_result(["a", 1, "b"])
    assert out[0] is None and out[2] is None and out[1].shape == ()
    # a generator is consumed as the sequence of outputs
    out = nan_like_result(x for x in (1, "s", [1, 2]))
    assert out[1] is None and out[2].shape == (2,)
    # sets have a length but no indexing -> shape is just the length
    out = nan_like_result(({1, 2, 3},))
    assert out[0].shape == (3,)

    # errors other than TypeError propagate from inside the sequence
    for bad in (([],), ([[1], []][1:],), ({"a": 1},)):
        try:
            nan_like_result(bad)
        except (IndexError, KeyError):
            pass
        else:
            raise AssertionError(bad)

    # a TypeError from inside the sequence gives nan for the whole result
    class Weird:
        def __len__(self):
            return 2

        def __getitem__(self, i):
            raise TypeError("no")

    out = nan_like_result((Weird(),))
    assert out[0].shape == (2,)

    class Explodes:
        def __iter__(self):
            yield 1
            raise TypeError("mid-way")

    assert isnan(nan_like_result(Explodes()))

    class Explodes2:
        def __iter__(self):
            yield 1
            raise RuntimeError("mid-way")

    try:
        nan_like_result(Explodes2())
    except RuntimeError:
        pass
    else:
        raise AssertionError

    # dict / Dataset / DataArray
    ds = xr.Dataset({"x": ("t", [1, 2, 3]), "y": ((), True)},
                    coords={"t": [10, 20, 30]})
    out = nan_like_result(ds)
    assert isinstance(out, xr.Dataset)
    assert out["x"].dtype == float and out["x"].isnull().all()
    assert out["y"].dtype == float and out["y"].isnull().all()
    assert list(out["t"].values) == [10, 20, 30]
    out = nan_like_result({"x": ("t", [1, 2, 3]), "z": 4})
    assert isinstance(out, xr.Dataset) and set(out.data_vars) == {"x", "z"}
    assert out["x"].shape == (3,) and out["x"].isnull().all()
    out = nan_like_result(xr.DataArray([[1, 2]], dims=["a", "b"], name="q"))
    assert isinstance(out, xr.DataArray) and out.shape == (1, 2)
    assert out.name == "q" and out.isnull().all()

    assert infer_shape("abc") == ()
    assert infer_shape([["ab", "cd"]]) == (1, 2)
    assert infer_shape(5) == ()
    assert infer_shape(np.zeros((2, 3, 4))) == (2, 3, 4)


# --------------------------------------------------------------------------- #
# 2. folding a flat store into the nested grid


def check_unflatten():
    # no axes at all: the single result under the empty key
    assert _unflatten({(): "only"}, ()) == "only"
    try:
        _unflatten({}, ())
    except KeyError:
        pass
    else:
        raise AssertionError

    marker = object()
    axes = ([1, 2, 3], ["a", "b"], [0.5])
    full = {p: "".join(map(str, p)) for p in itertools.product(*axes)}
    store = dict(full)
    out = _unflatten(store, axes)
    assert out == expected_nested(full, axes, None)
    assert store == {}  # everything was consumed

    # sparse store with a fill value, tuple / list spelling of the axes
    sparse = {(1, "a", 0.5): 10, (3, "b", 0.5): 30}
    for spelling in (tuple, list):
        store = dict(sparse)
        out = _unflatten(store, spelling(axes), marker)
        assert out == expected_nested(sparse, axes, marker)
        assert store == {}
    # default fill is None
    out = _unflatten(dict(sparse), axes)
    assert out == expected_nested(sparse, axes, None)
    assert out[0][1][0] is None and out[0][0][0] == 10

    # entries outside the grid are left behind and not looked at
    store = dict(sparse)
    store[(9, "z", 0.5)] = "stray"
    out = _unflatten(store, axes, marker)
    assert out == expected_nested(sparse, axes, marker)
    assert store == {(9, "z", 0.5): "stray"}

    # an empty axis gives empty tuples
    assert _unflatten({}, ([1, 2], []), marker) == ((), ())
    assert _unflatten({}, ([], [1, 2]), marker) == ()

    # a single axis
    assert _unflatten({(2,): "x"}, ([1, 2, 3],), marker) == (marker, "x", marker)

    # the input axes are not modified
    axes_l = [[1, 2], ["a"]]
    _unflatten({}, axes_l, 0)
    assert axes_l == [[1, 2], ["a"]]


# --------------------------------------------------------------------------- #
# 3. sparse cases through the runners

RESULT_KINDS = {
    "number": lambda a, b, c=0, d=0: a + 10 * b + 100 * c + 1000 * d,
    "float": lambda a, b, c=0, d=0: a / 2 + b + c + d,
    "bool": lambda a, b, c=0, d=0: (a + b + c + d) % 2 == 0,
    "str": lambda a, b, c=0, d=0: f"{a}-{b}-{c}-{d}",
    "tuple": lambda a, b, c=0, d=0: (a + b, f"s{c}{d}", a > b),
    "nested": lambda a, b, c=0, d=0: (a, [[b, c, d], [d, c, b]]),
}


def fill_for(kind):
    if kind in ("bool", "str"):
        return None
    if kind in ("number", "float"):
        return float("nan")
    if kind == "tuple":
        return (np.broadcast_to(np.nan, ()), None, np.broadcast_to(np.nan, ()))
    if kind == "nested":
        return (np.broadcast_to(np.nan, ()), np.broadcast_to(np.nan, (2, 3)))


CASE_SETS = [
    # (cases, combos)
    ([{"a": 1, "b": 4}], None),
    ([{"a": 3, "b": 4}, {"a": 1, "b": 6}, {"a": 1, "b": 4}], None),
    ([{"b": 6, "a": 2}, {"a": 1, "b": 5}], {"c": [7, 8]}),
    ([{"a": 2}, {"a": 1}], {"b": [5, 4], "c": [9]}),
    ([{"a": 1, "b": 4, "c": 7, "d": 2}, {"a": 2, "b": 5, "c": 7, "d": 1},
      {"d": 1, "c": 8, "b": 4, "a": 1}], None),
    ([{"a": 1, "b": 4, "d": 0}, {"a": 2, "b": 5, "d": 1}], (("c", [3, 1, 2]),)),
]


def model(kind, cases, combos):
    fn = RESULT_KINDS[kind]
    case_args = tuple(cases[0])
    combos = dict(combos or {})
    combo_args = tuple(combos)
    settings, locs = [], []
    for c in cases:
        for vals in itertools.product(*combos.values()):
            kws = {**{k: c[k] for k in case_args}, **dict(zip(combo_args, vals))}
            settings.append(kws)
            locs.append(tuple(kws[k] for k in case_args + combo_args))
    axes = tuple(sorted({c[k] for c in cases}) for k in case_args)
    axes += tuple(list(v) for v in combos.values())
    results = [fn(**kws) for kws in settings]
    return case_args + combo_args, settings, locs, axes, results


def check_runner(kind, cases, combos, shuffle):
    fn_args, settings, locs, axes, results = model(kind, cases, combos)
    fill = fill_for(kind)

    # nested
    rec = Recorder(RESULT_KINDS[kind])
    out = combo_runner(rec, combos, cases=cases, shuffle=shuffle, verbosity=0)
    want = expected_nested(dict(zip(locs, results)), axes, fill)
    assert same(out, want), (kind, cases, combos, out, want)
    key = lambda kws: sorted(kws.items())
    assert sorted(map(key, rec.calls)) == sorted(map(key, settings))
    assert len(rec.calls) == len(settings)
    if not shuffle:
        assert rec.calls == settings

    # flat: exactly the results, in the order asked
    rec = Recorder(RESULT_KINDS[kind])
    out = combo_runner(rec, combos, cases=cases, flat=True, shuffle=shuffle,
                       verbosity=0)
    assert same(out, tuple(results))
    assert len(rec.calls) == len(settings)

    # tuple spelling through case_runner (always flat)
    rec = Recorder(RESULT_KINDS[kind])
    case_args = tuple(cases[0])
    out = case_runner(rec, case_args,
                      [tuple(c[k] for k in case_args) for c in cases],
                      combos=combos, shuffle=shuffle, verbosity=0)
    assert same(out, tuple(results))

    # split, for multi-output kinds
    if kind in ("tuple", "nested"):
        rec = Recorder(RESULT_KINDS[kind])
        out = combo_runner(rec, combos, cases=cases, split=True,
                           shuffle=shuffle, verbosity=0)
        assert type(out) is tuple and len(out) == len(results[0])
        for i, part in enumerate(out):
            first = results[0][i]
            if isinstance(first, (bool, str)):
                fill_i = None
            else:
                # a nested list is itself taken as a sequence of outputs
                fill_i = nan_like_result(first)
            want = expected_nested(
                dict(zip(locs, [r[i] for r in results])), axes, fill_i)
            assert same(part, want), (kind, i, part, want)
        assert len(rec.calls) == len(settings)

    # info labelling
    info = {}
    combo_runner_core(RESULT_KINDS[kind],
                      combos=xyzpy.gen.prepare.parse_combos(combos),
                      cases=cases, constants={}, verbosity=0, info=info,
                      shuffle=shuffle)
    assert info["fn_args"] == fn_args
    assert tuple(map(list, info["all_combo_values"])) == tuple(map(list, axes))


def check_to_ds():
    cases = [{"a": 3, "b": 4}, {"a": 1, "b": 6}]
    combos = {"c": [7, 8]}

    # number
    rec = Recorder(RESULT_KINDS["number"])
    ds = combo_runner_to_ds(rec, combos, "x", cases=cases, verbosity=0)
    assert ds["x"].dims == ("a", "b", "c")
    assert list(ds["a"].values) == [1, 3] and list(ds["b"].values) == [4, 6]
    assert ds["x"].dtype == float
    assert int(ds["x"].notnull().sum()) == 4 and len(rec.calls) == 4
    assert ds["x"].sel(a=3, b=4, c=8).item() == 3 + 40 + 800
    assert np.isnan(ds["x"].sel(a=1, b=4, c=7).item())

    # bool and str -> object arrays holding None
    for kind in ("bool", "str"):
        ds = combo_runner_to_ds(RESULT_KINDS[kind], combos, "x", cases=cases,
                                verbosity=0)
        assert ds["x"].dtype == object
        assert missing(ds["x"].sel(a=1, b=4, c=7).item())
        assert int(ds["x"].notnull().sum()) == 4
        assert ds["x"].sel(a=1, b=6, c=7).item() == \
            RESULT_KINDS[kind](a=1, b=6, c=7)

    # several outputs with an inner dimension
    def fn(a, b, c):
        return a + b + c, [a, b, c], f"{a}{b}{c}", a > c

    ds = case_runner_to_ds(
        fn, ("a", "b"), [(3, 4), (1, 6)], ["s", "v", "t", "g"],
        var_dims={"v": "k"}, var_coords={"k": [0, 1, 2]}, combos=combos,
        verbosity=0, shuffle=2)
    assert ds["v"].dims == ("a", "b", "c", "k")
    assert ds["v"].sel(a=3, b=4, c=7).values.tolist() == [3, 4, 7]
    assert np.isnan(ds["v"].sel(a=3, b=6, c=7).values).all()
    assert missing(ds["t"].sel(a=3, b=6, c=7).item())
    assert ds["t"].sel(a=1, b=6, c=8).item() == "168"
    assert ds["g"].sel(a=3, b=6, c=7).item() is None
    assert ds["g"].sel(a=1, b=6, c=8).item() is False
    assert np.isnan(ds["s"].sel(a=1, b=4, c=8).item())

    # dict / Dataset results
    for wrap in (dict, xr.Dataset):
        calls = []

        def fn(a, b, c):
            calls.append((a, b, c))
            return wrap({"x": ("t", [a, b, c]), "y": ((), a * b * c)})

        ds = combo_runner_to_ds(fn, combos, None, cases=cases, verbosity=0)
        assert sorted(calls) == [(1, 6, 7), (1, 6, 8), (3, 4, 7), (3, 4, 8)]
        assert set(ds["x"].dims) == {"a", "b", "c", "t"}
        assert ds["x"].sel(a=3, b=4, c=8).values.tolist() == [3, 4, 8]
        assert np.isnan(ds["x"].sel(a=3, b=6, c=8).values).all()
        assert np.isnan(ds["y"].sel(a=1, b=4, c=7).item())
        assert ds["y"].sel(a=1, b=6, c=7).item() == 42

    # unsortable union falls back to some order but still the right slots
    cases = [{"a": "p", "b": 1}, {"a": 2, "b": 1}]
    out = combo_runner(lambda a, b: str(a), cases=cases, verbosity=0)
    assert len(out) == 2 and all(len(o) == 1 for o in out)
    assert sorted(o[0] for o in out) == ["2", "p"]


def check_rejection():
    rec = Recorder(lambda a, b: a + b)
    for runner in (
        lambda: combo_runner(rec, {"a": [1, 2]}, cases=[{"a": 1, "b": 2}],
                             verbosity=0),
        lambda: combo_runner(rec, {"b": [1], "a": [1]}, cases=[{"a": 1}],
                             flat=True, verbosity=0),
        lambda: combo_runner_to_ds(rec, {"a": [1, 2]}, "x",
                                   cases=[{"a": 1, "b": 2}], verbosity=0),
        lambda: case_runner(rec, ("a", "b"), [(1, 2)], combos={"b": [3]},
                            verbosity=0),
    ):
        try:
            runner()
        except ValueError as e:
            assert "both ``cases`` and ``combos``" in str(e)
        else:
            raise AssertionError("overlap accepted")
    assert rec.calls == []


def crop_fn(a, b, c):
    return a + b + c, f"{a}{b}{c}", [a, b]


def check_crop(tmp):
    """The stand-in is also what a partial reap fills in."""
    cases = [{"a": 3, "b": 4}, {"a": 1, "b": 6}, {"a": 1, "b": 4}]
    combos = {"c": [7, 8]}
    crop = xyzpy.Crop(fn=crop_fn, name="t6", parent_dir=tmp, batchsize=2)
    crop.sow_combos(combos, cases=cases)
    assert crop.num_batches == 3
    crop.grow(1)
    crop.grow(3)
    out = crop.reap_combos(allow_incomplete=True, clean_up=False)
    # batch 2 = case (a=1, b=6) is missing
    got = {}
    for i, a in enumerate([1, 3]):
        for j, b in enumerate([4, 6]):
            for k, c in enumerate([7, 8]):
                got[a, b, c] = out[i][j][k]
    for (a, b, c), r in got.items():
        if (a, b) in ((3, 4), (1, 4)):
            assert r == crop_fn(a, b, c), (a, b, c, r)
        else:
            assert type(r) is tuple and len(r) == 3
            assert r[0].shape == () and np.isnan(r[0])
            assert r[1] is None
            assert r[2].shape == (2,) and np.isnan(r[2]).all()
    crop.grow_missing()
    ds = crop.reap_combos_to_ds(["s", "t", "v"], var_dims={"v": "k"})
    assert not os.path.exists(crop.location)
    assert ds["s"].sel(a=1, b=6, c=8).item() == 15
    assert np.isnan(ds["s"].sel(a=3, b=6, c=8).item())
    assert missing(ds["t"].sel(a=3, b=6, c=8).item())
    assert ds["t"].sel(a=3, b=4, c=8).item() == "348"
    assert np.isnan(ds["v"].sel(a=3, b=6, c=7).values).all()
    assert int(ds["s"].notnull().sum()) == 6


def main():
    check_nan_like()
    check_unflatten()
    n = 0
    for kind in RESULT_KINDS:
        for cases, combos in CASE_SETS:
            for shuffle in (False, True, 7):
                check_runner(kind, cases, combos, shuffle)
                n += 1
    check_to_ds()
    check_rejection()
    tmp = tempfile.mkdtemp(prefix="c02_t6_")
    try:
        check_crop(tmp)
    finally:
        shutil.rmtree(tmp, ignore_errors=True)
    print(f"checked {n} runner configurations")
    print("PASS")


if __name__ == "__main__":
    main()
