"""Demo for C10 (crash safety of sow / grow / reap), harvester / sampler side.

Run as ``cd <worktree> && /venv/bin/python /path/to/demo.py``.

A worker is *really* killed (``os._exit`` in a forked child: no buffers are
flushed, no ``finally`` / ``__exit__`` runs) at every file-system operation
boundary of reaping-and-syncing a crop into a ``Harvester`` (netcdf and joblib
files) and a ``Sampler`` (pickle and csv files): before the data is written
next to the data file, after that file is created, after partial write
prefixes, before / after close, before / after the ``os.replace`` that
publishes it, and before / after every ``unlink`` / ``rmdir`` of the deferred
clean up of the crop. (Sowing and growing are also killed, at a stride of
boundaries.) From every crash state

* the data merged earlier is still on disk: the data file holds exactly the old
  data or exactly the old and the new data, never something else or nothing,
* a plain ``reap`` by a fresh process refuses or returns the exact results,
* the recovery (re-sow if the sown files are incomplete, ``check_bad``,
  ``grow_missing``, ``reap``) reaches exactly the uninterrupted result, also
  when the recovery itself is killed once more.

The saving and the clean up are also checked directly: options of ``reap``
(``sync``, ``clean_up``, ``allow_incomplete``, ``overwrite``), farmers without
a ``data_name``, missing extension, a failing ``os.replace`` followed by a
retry.
"""
import os
import sys

sys.path.insert(0, os.getcwd())

import builtins  # noqa: E402
import contextlib  # noqa: E402
import io  # noqa: E402
import pickle  # noqa: E402
import shutil  # noqa: E402
import tempfile  # noqa: E402
import traceback  # noqa: E402
import warnings  # noqa: E402

warnings.filterwarnings("ignore")

import numpy as np  # noqa: E402
import pandas as pd  # noqa: E402
import tqdm  # noqa: E402
import xarray as xr  # noqa: E402
import xyzpy as xyz  # noqa: E402
from xyzpy.gen.cropping import XYZError  # noqa: E402

assert os.path.abspath(xyz.__file__).startswith(os.getcwd()), xyz.__file__

tqdm.tqdm.monitor_interval = 0  # no monitor thread: workers are forked

KILLED = 77
OUTCOMES = []


def log(*items):
    OUTCOMES.append(repr(items))


# --------------------------------------------------------------------------- #
#                       killing a worker at a boundary                        #
# --------------------------------------------------------------------------- #


class Crash:
    def __init__(self, root, kill_at):
        self.root = root
        self.kill_at = kill_at
        self.count = 0

    def point(self):
        self.count += 1
        if self.count == self.kill_at:
            os._exit(KILLED)


class FileProxy:
    """A file opened for writing below the watched root."""

    def __init__(self, f, crash):
        self._f = f
        self._crash = crash

    def write(self, data):
        return self._f.write(data)

    def close(self):
        if not self._f.closed:
            self._crash.point()  # before close (data may still be buffered)
            self._f.close()
            self._crash.point()  # after close

    def __enter__(self):
        return self

    def __exit__(self, *exc):
        self.close()
        return False

    def __iter__(self):
        return iter(self._f)

    def __getattr__(self, name):
        return getattr(self._f, name)


def cut_points(n):
    return sorted(c for c in {1, n // 2, n - 1} if 0 < c < n) + [n]


def install_hooks(crash):
    real_open = builtins.open
    real_dump, real_dumps = pickle.dump, pickle.dumps
    real_unlink = os.unlink
    real_to_netcdf = xr.Dataset.to_netcdf

    def watched(file):
        return isinstance(file, str) and os.path.abspath(file).startswith(
            crash.root
        )

    def hooked_open(file, mode="r", *args, **kwargs):
        if not (watched(file) and any(c in mode for c in "wax+")):
            return real_open(file, mode, *args, **kwargs)
        crash.point()  # before open
        f = real_open(file, mode, *args, **kwargs)
        crash.point()  # after create / truncate
        return FileProxy(f, crash)

    def hooked_dump(obj, file, *args, **kwargs):
        if not isinstance(file, FileProxy):
            return real_dump(obj, file, *args, **kwargs)
        data = real_dumps(obj, *args, **kwargs)
        pos = 0
        for c in cut_points(len(data)):
            file.write(data[pos:c])
            file.flush()
            pos = c
            crash.point()  # after a partial write prefix / the full write

    def hooked_to_netcdf(self, path=None, *args, **kwargs):
        # the hdf5 library writes the file itself: let it write elsewhere, then
        # put the very same bytes in place, piece by piece
        if not watched(path):
            return real_to_netcdf(self, path, *args, **kwargs)
        side = os.path.join(
            os.path.dirname(crash.root),
            "side-{}{}".format(os.getpid(), os.path.splitext(path)[1]),
        )
        real_to_netcdf(self, side, *args, **kwargs)
        with real_open(side, "rb") as f:
            data = f.read()
        real_unlink(side)
        crash.point()  # before open
        f = real_open(path, "wb")
        crash.point()  # after create / truncate
        pos = 0
        for c in cut_points(len(data)):
            f.write(data[pos:c])
            f.flush()
            pos = c
            crash.point()
        f.close()
        crash.point()  # after close

    def around(real):
        def hooked(*args, **kwargs):
            crash.point()  # before
            out = real(*args, **kwargs)
            crash.point()  # after
            return out

        return hooked

    builtins.open = hooked_open
    pickle.dump = hooked_dump
    xr.Dataset.to_netcdf = hooked_to_netcdf
    os.replace = around(os.replace)
    os.rename = around(os.rename)
    os.remove = around(os.remove)
    os.unlink = around(os.unlink)
    os.rmdir = around(os.rmdir)


def run_worker(root, kill_at, action):
    """Run ``action`` in a forked worker that is killed at its ``kill_at``-th
    file-system operation boundary. Returns whether it was killed.
    """
    sys.stdout.flush()
    sys.stderr.flush()
    pid = os.fork()
    if pid == 0:
        code = 3
        try:
            install_hooks(Crash(root, kill_at))
            with contextlib.redirect_stdout(io.StringIO()):
                action()
            code = 0
        except BaseException:
            traceback.print_exc(file=sys.__stderr__)
            sys.__stderr__.flush()
        finally:
            os._exit(code)
    _, status = os.waitpid(pid, 0)
    code = os.waitstatus_to_exitcode(status)
    assert code in (0, KILLED), "worker failed by itself: {}".format(code)
    return code == KILLED


@contextlib.contextmanager
def quiet():
    with contextlib.redirect_stdout(io.StringIO()) as out:
        yield out


@contextlib.contextmanager
def no_progress_bars():
    with contextlib.redirect_stderr(io.StringIO()):
        yield


# --------------------------------------------------------------------------- #
#                             the farmers studied                             #
# --------------------------------------------------------------------------- #


def fn(a, b):
    return 10.0 * a + b


def make_runner():
    return xyz.Runner(fn, var_names=["out"], attrs={"who": "demo"})


OLD_COMBOS = {"a": [1, 2], "b": [0.5, 1.5]}
NEW_COMBOS = {"a": [3, 4, 5], "b": [0.5, 1.5]}


class HarvesterKind:
    """6 new cases in 3 batches reaped into a file that holds 4 old ones."""

    def __init__(self, engine, data_name):
        self.name = "harvester-" + engine
        self.engine = engine
        self.data_name = data_name
        self.file_name = xyz.manage.auto_add_extension(data_name, engine)

    def farmer(self, d):
        return xyz.Harvester(
            make_runner(),
            data_name=os.path.join(d, self.data_name),
            engine=self.engine,
        )

    def crop(self, d):
        return self.farmer(d).Crop(name="demo", parent_dir=d, num_batches=3)

    def start(self, d):
        self.farmer(d).harvest_combos(OLD_COMBOS, verbosity=0)

    def sow(self, crop):
        crop.sow_combos(NEW_COMBOS, verbosity=0)

    def on_disk(self, d):
        ds = xyz.load_ds(os.path.join(d, self.file_name), engine=self.engine)
        return ds

    @staticmethod
    def same(x, y):
        return isinstance(x, xr.Dataset) and x.identical(y)

    resow_after_merge = True  # merging the same data again changes nothing


class SamplerKind:
    """5 new samples in 2 batches reaped into a file that holds 4 old ones."""

    def __init__(self, engine, data_name):
        self.name = "sampler-" + engine
        self.engine = engine
        self.data_name = self.file_name = data_name

    def farmer(self, d):
        return xyz.Sampler(
            make_runner(),
            data_name=os.path.join(d, self.data_name),
            default_combos={"a": [1, 2, 3, 4, 5, 6], "b": [0.5, 1.5, 2.5]},
            engine=self.engine,
        )

    def crop(self, d):
        return self.farmer(d).Crop(name="demo", parent_dir=d, num_batches=2)

    def start(self, d):
        np.random.seed(1)
        self.farmer(d).sample_combos(4, verbosity=0)

    def sow(self, crop):
        np.random.seed(2)
        with quiet():
            crop.sow_samples(5, verbosity=0)

    def on_disk(self, d):
        return xyz.manage.load_df(
            os.path.join(d, self.file_name), engine=self.engine
        )

    @staticmethod
    def same(x, y):
        return isinstance(x, pd.DataFrame) and x.equals(y)

    resow_after_merge = False  # reaping again would append the rows again


def sown_complete(crop):
    loc = crop.location
    return (
        os.path.isdir(os.path.join(loc, "batches"))
        and os.path.isdir(os.path.join(loc, "results"))
        and os.path.isfile(os.path.join(loc, "xyz-settings.jbdmp"))
        and os.path.isfile(os.path.join(loc, "xyz-function.clpkl"))
        and crop.num_sown_batches == crop.num_batches
    )


def do_sow(kind, d):
    kind.sow(kind.crop(d))


def do_grow(kind, d):
    kind.crop(d).grow_missing(verbosity=0)


def do_reap(kind, d):
    kind.crop(d).reap()


STAGES = [("sow", do_sow), ("grow", do_grow), ("reap", do_reap)]


def reference(kind, top):
    """The uninterrupted run."""
    d = tempfile.mkdtemp(dir=top)
    kind.start(d)
    kind.old = kind.on_disk(d)
    crop = kind.crop(d)
    kind.sow(crop)
    crop.grow_missing(verbosity=0)
    kind.new = crop.reap()
    assert not os.path.exists(crop.location)
    kind.both = kind.on_disk(d)
    assert len(kind.old.to_dataframe() if isinstance(kind.old, xr.Dataset)
               else kind.old) == 4
    assert not kind.same(kind.old, kind.both)
    assert sorted(os.listdir(d)) == [kind.file_name]
    shutil.rmtree(d)


def do_recover(kind, d):
    """The documented recovery, as a fresh process would run it."""
    merged = kind.same(kind.on_disk(d), kind.both)
    crop = kind.crop(d)
    if merged and not kind.resow_after_merge:
        # nothing is missing from the data file, only the crop is left over
        if os.path.exists(crop.location):
            crop.delete_all()
    else:
        if not sown_complete(crop):
            kind.sow(crop)
        with quiet():
            crop.check_bad()
        crop.grow_missing(verbosity=0)
        res = crop.reap()
        assert kind.same(res, kind.new), res
    assert not os.path.exists(crop.location)
    assert kind.same(kind.on_disk(d), kind.both)
    # a fresh farmer sees it too
    farmer = kind.farmer(d)
    full = farmer.full_ds if hasattr(farmer, "full_ds") else farmer.full_df
    assert kind.same(full, kind.both)


def merged_data_survives(kind, d, stage):
    now = kind.on_disk(d)  # must be loadable
    if kind.same(now, kind.old):
        return "old"
    assert stage in ("reap", "recover"), "new data before it was reaped"
    assert kind.same(now, kind.both), "data file is neither old nor complete"
    return "old+new"


def plain_reap_refuses_or_is_exact(kind, d, top):
    d2 = tempfile.mkdtemp(dir=top)
    shutil.rmtree(d2)
    shutil.copytree(d, d2)
    try:
        res = kind.crop(d2).reap()
    except Exception as e:
        out = "refused:" + type(e).__name__
    else:
        assert kind.same(res, kind.new), "reap returned wrong data"
        out = "exact"
    # whatever happened, the copy's data file was not damaged either
    now = kind.on_disk(d2)
    if out.startswith("refused") or kind.resow_after_merge:
        assert kind.same(now, kind.old) or kind.same(now, kind.both)
    shutil.rmtree(d2)
    return out


def crash_everywhere(kind, top, strides, second_stride, second_step):
    n_states = n_double = 0
    for stage, action in STAGES:
        k = 1
        while True:
            d = tempfile.mkdtemp(dir=top)
            kind.start(d)
            for name, earlier in STAGES:
                if name == stage:
                    break
                earlier(kind, d)
            killed = run_worker(d, k, lambda: action(kind, d))
            if not killed:
                assert k > 5
                log(kind.name, stage, "boundaries below", k)
                if stage == "reap":
                    assert kind.same(kind.on_disk(d), kind.both)
                shutil.rmtree(d)
                break
            n_states += 1
            log(kind.name, stage, k, merged_data_survives(kind, d, stage),
                plain_reap_refuses_or_is_exact(kind, d, top))

            if k % second_stride == 1:
                j = 1 + (k // second_stride) % 4
                while True:
                    d3 = tempfile.mkdtemp(dir=top)
                    shutil.rmtree(d3)
                    shutil.copytree(d, d3)
                    killed2 = run_worker(d3, j, lambda: do_recover(kind, d3))
                    if killed2:
                        n_double += 1
                        log(kind.name, stage, k, j,
                            merged_data_survives(kind, d3, "recover"),
                            plain_reap_refuses_or_is_exact(kind, d3, top))
                        do_recover(kind, d3)
                    assert kind.same(kind.on_disk(d3), kind.both)
                    shutil.rmtree(d3)
                    if not killed2:
                        break
                    j += second_step

            do_recover(kind, d)
            shutil.rmtree(d)
            k += strides[stage]
    return n_states, n_double


# --------------------------------------------------------------------------- #
#                   saving and cleaning up, checked directly                  #
# --------------------------------------------------------------------------- #


def grown_crop(kind, d, only=None):
    crop = kind.crop(d)
    kind.sow(crop)
    if only is None:
        crop.grow_missing(verbosity=0)
    else:
        crop.grow(only, verbosity=0)
    return crop


def check_reap_options(kind, top):
    """sync / clean_up / allow_incomplete decide what happens to the data file
    and to the crop, in this order: first the data is synced, then the crop is
    deleted."""
    for sync in (True, False):
        for allow_incomplete in (False, True):
            for clean_up in (None, True, False):
                d = tempfile.mkdtemp(dir=top)
                kind.start(d)
                crop = grown_crop(kind, d)
                opts = dict(sync=sync, clean_up=clean_up,
                            allow_incomplete=allow_incomplete)
                res = crop.reap(**opts)
                assert kind.same(res, kind.new)
                kept = (clean_up is False) or (
                    clean_up is None and allow_incomplete
                )
                assert os.path.isdir(crop.location) == kept, opts
                want = kind.both if sync else kind.old
                assert kind.same(kind.on_disk(d), want), opts
                left = sorted(os.listdir(d))
                assert left == sorted(
                    [kind.file_name] + ([".xyz-demo"] if kept else [])
                ), left
                if sync:
                    farmer = crop.farmer
                    full = (farmer.full_ds if hasattr(farmer, "full_ds")
                            else farmer.full_df)
                    assert kind.same(full, kind.both)
                shutil.rmtree(d)

    # incomplete crop: refused unless allowed, then kept unless told otherwise
    for clean_up in (None, True):
        d = tempfile.mkdtemp(dir=top)
        kind.start(d)
        crop = grown_crop(kind, d, only=1)
        try:
            crop.reap(clean_up=clean_up)
        except XYZError:
            pass
        else:
            raise AssertionError("incomplete crop reaped")
        assert kind.same(kind.on_disk(d), kind.old)
        res = crop.reap(allow_incomplete=True, clean_up=clean_up, sync=False)
        assert len(res.to_dataframe() if isinstance(res, xr.Dataset)
                   else res) == len(
            kind.new.to_dataframe() if isinstance(kind.new, xr.Dataset)
            else kind.new)
        assert not kind.same(res, kind.new)
        assert os.path.isdir(crop.location) == (clean_up is None)
        assert kind.same(kind.on_disk(d), kind.old)
        shutil.rmtree(d)
    log(kind.name, "options ok")


def check_harvester_saving(top):
    kind = HarvesterKind("h5netcdf", "data")  # extension is added: data.h5
    reference(kind, top)
    assert kind.file_name == "data.h5"
    check_reap_options(kind, top)

    # overwrite options reach the merge
    for overwrite, ok in ((None, False), (True, True), (False, True)):
        d = tempfile.mkdtemp(dir=top)
        h = kind.farmer(d)
        clash = kind.new.copy(deep=True)
        clash["out"] = clash["out"] + 1.0
        h.add_ds(clash)  # conflicting values for the cases to come
        before = kind.on_disk(d)
        crop = grown_crop(kind, d)
        try:
            crop.reap(overwrite=overwrite)
        except Exception as e:
            assert not ok
            assert isinstance(e, xr.MergeError), e
            # nothing was synced, so nothing was deleted
            assert os.path.isdir(crop.location)
            assert kind.same(kind.on_disk(d), before)
        else:
            assert ok
            assert not os.path.exists(crop.location)
            now = kind.on_disk(d)
            want = kind.new if overwrite else clash
            assert now["out"].equals(want["out"])
        assert sorted(set(os.listdir(d)) - {".xyz-demo"}) == ["data.h5"]
        shutil.rmtree(d)

    # no data_name: memory only; saving refuses
    d = tempfile.mkdtemp(dir=top)
    h = xyz.Harvester(make_runner())
    try:
        h.save_full_ds()
    except XYZError as e:
        assert "data_name" in str(e)
    else:
        raise AssertionError
    crop = h.Crop(name="demo", parent_dir=d, num_batches=3)
    crop.sow_combos(NEW_COMBOS, verbosity=0)
    crop.grow_missing(verbosity=0)
    res = crop.reap()
    assert res.identical(kind.new) and h.full_ds.identical(kind.new)
    assert h.full_ds is not res
    assert os.listdir(d) == []
    try:
        crop.reap_harvest(None)
    except ValueError:
        pass
    else:
        raise AssertionError
    shutil.rmtree(d)

    # nothing in memory and nothing given: fails before the file is touched
    d = tempfile.mkdtemp(dir=top)
    kind.start(d)
    h = kind.farmer(d)
    try:
        h.save_full_ds()
    except AttributeError:
        pass
    else:
        raise AssertionError
    assert os.listdir(d) == ["data.h5"]
    assert kind.same(kind.on_disk(d), kind.old)
    shutil.rmtree(d)
    log("harvester saving ok")


def check_failed_replace(top):
    """The final ``os.replace`` failing leaves the old file, and a retry
    works."""
    real_replace = os.replace

    def failing(src, dst):
        raise OSError("no replace today")

    # harvester
    kind = HarvesterKind("h5netcdf", "data.h5")
    reference(kind, top)
    d = tempfile.mkdtemp(dir=top)
    kind.start(d)
    crop = grown_crop(kind, d)
    os.replace = failing
    try:
        crop.reap()
    except OSError as e:
        assert "no replace today" in str(e)
    else:
        raise AssertionError
    finally:
        os.replace = real_replace
    assert os.path.isdir(crop.location)  # not cleaned up
    assert sorted(os.listdir(d)) == [".xyz-demo", "data.h5", "data.h5.tmp"]
    assert kind.same(kind.on_disk(d), kind.old)
    tmp = xyz.load_ds(os.path.join(d, "data.h5.tmp"), engine="h5netcdf")
    assert tmp.identical(kind.both)
    assert crop.farmer._full_ds.identical(kind.both)
    crop.farmer.save_full_ds()  # retry with what is in memory
    assert sorted(os.listdir(d)) == [".xyz-demo", "data.h5"]
    assert kind.same(kind.on_disk(d), kind.both)
    assert kind.same(crop.reap(), kind.new)  # and the reap can be redone
    assert kind.same(kind.on_disk(d), kind.both)
    assert sorted(os.listdir(d)) == ["data.h5"]
    shutil.rmtree(d)

    # sampler
    kind = SamplerKind("pickle", "samples.pkl")
    reference(kind, top)
    d = tempfile.mkdtemp(dir=top)
    kind.start(d)
    crop = grown_crop(kind, d)
    os.replace = failing
    try:
        crop.reap()
    except OSError as e:
        assert "no replace today" in str(e)
    else:
        raise AssertionError
    finally:
        os.replace = real_replace
    assert os.path.isdir(crop.location)
    assert sorted(os.listdir(d)) == [
        ".xyz-demo", "samples.pkl", "tmp-samples.pkl"]
    assert kind.same(kind.on_disk(d), kind.old)
    assert kind.same(pd.read_pickle(os.path.join(d, "tmp-samples.pkl")),
                     kind.both)
    # memory still holds what the file holds, so the reap can simply be redone
    assert kind.same(crop.farmer._full_df, kind.old)
    assert kind.same(crop.farmer.last_df, kind.new)
    assert kind.same(crop.reap(), kind.new)
    assert kind.same(kind.on_disk(d), kind.both)
    assert kind.same(crop.farmer.full_df, kind.both)
    assert sorted(os.listdir(d)) == ["samples.pkl"]
    shutil.rmtree(d)
    log("failed replace ok")


def check_sampler_saving(top):
    kind = SamplerKind("pickle", "samples.pkl")
    reference(kind, top)
    check_reap_options(kind, top)

    # a compressed file: the temporary file keeps the extension
    kindz = SamplerKind("pickle", "samples.pkl.gz")
    reference(kindz, top)
    assert kindz.same(kindz.both, kind.both)
    d = tempfile.mkdtemp(dir=top)
    kindz.start(d)
    with open(os.path.join(d, "samples.pkl.gz"), "rb") as f:
        assert f.read(2) == b"\x1f\x8b"
    crop = grown_crop(kindz, d)
    crop.reap()
    with open(os.path.join(d, "samples.pkl.gz"), "rb") as f:
        assert f.read(2) == b"\x1f\x8b"
    assert os.listdir(d) == ["samples.pkl.gz"]
    shutil.rmtree(d)

    # save_full_df with and without a new frame
    d = tempfile.mkdtemp(dir=top)
    s = kind.farmer(d)
    try:
        s.save_full_df()  # nothing to save
    except Exception:
        pass
    else:
        raise AssertionError
    assert os.listdir(d) == []
    s.save_full_df(kind.old)
    assert s.full_df is kind.old
    assert kind.same(kind.on_disk(d), kind.old)
    s.save_full_df()
    assert kind.same(kind.on_disk(d), kind.old)
    s.save_full_df(kind.both, engine="pickle")
    assert s.full_df is kind.both
    assert kind.same(kind.on_disk(d), kind.both)
    assert os.listdir(d) == ["samples.pkl"]
    shutil.rmtree(d)

    # no data_name: memory only
    d = tempfile.mkdtemp(dir=top)
    s = xyz.Sampler(make_runner(), default_combos={"a": [1], "b": [2.5]})
    crop = s.Crop(name="demo", parent_dir=d, batchsize=2)
    with quiet():
        crop.sow_samples(3, verbosity=0)
    crop.grow_missing(verbosity=0)
    df = crop.reap()
    assert list(df["out"]) == [12.5] * 3
    assert s.full_df.equals(df) and s.full_df is not df
    assert s.last_df is df
    assert os.listdir(d) == []
    try:
        crop.reap_samples(None)
    except ValueError:
        pass
    else:
        raise AssertionError
    shutil.rmtree(d)
    log("sampler saving ok")


def check_harvester_swap(top):
    """``save_full_ds``: a new dataset replaces (and closes) the one in
    memory, without one the current one is written again."""
    kind = HarvesterKind("h5netcdf", "data.h5")
    reference(kind, top)
    d = tempfile.mkdtemp(dir=top)
    h = kind.farmer(d)
    closed = []
    real_close = xr.Dataset.close

    def spying_close(self):
        closed.append(id(self))
        return real_close(self)

    first = kind.old.copy(deep=True)
    second = kind.both.copy(deep=True)
    xr.Dataset.close = spying_close
    try:
        h.save_full_ds(first)
        assert h._full_ds is first and id(first) not in closed
        assert kind.same(kind.on_disk(d), kind.old)
        h.save_full_ds()  # same again
        assert h._full_ds is first and id(first) not in closed
        assert kind.same(kind.on_disk(d), kind.old)
        h.save_full_ds(second, engine="h5netcdf")
        assert h._full_ds is second
        assert closed.count(id(first)) == 1 and id(second) not in closed
        assert kind.same(kind.on_disk(d), kind.both)
        assert os.listdir(d) == ["data.h5"]
        # an engine the extension table does not know is refused before
        # anything is closed or swapped
        closed_before = list(closed)
        other = xyz.Harvester(make_runner(), full_ds=first,
                              data_name=os.path.join(d, "other"))
        try:
            other.save_full_ds(second, engine="nope")
        except KeyError:
            pass
        else:
            raise AssertionError
        assert other._full_ds is first and closed == closed_before
        assert os.listdir(d) == ["data.h5"]
    finally:
        xr.Dataset.close = real_close
    shutil.rmtree(d)
    log("harvester swap ok")


def main():
    top = tempfile.mkdtemp(prefix="xyz-c10-demo-")
    counts = []
    try:
        with no_progress_bars():
            check_harvester_saving(top)
            check_harvester_swap(top)
            check_sampler_saving(top)
            check_failed_replace(top)
            fine = {"sow": 5, "grow": 4, "reap": 1}
            coarse = {"sow": 7, "grow": 5, "reap": 2}
            for kind, strides, second, step in (
                (HarvesterKind("h5netcdf", "data.h5"), fine, 7, 9),
                (SamplerKind("pickle", "samples.pkl"), fine, 7, 9),
                (HarvesterKind("joblib", "data"), coarse, 9, 13),
                (SamplerKind("csv", "samples.csv"), coarse, 9, 13),
            ):
                reference(kind, top)
                root = tempfile.mkdtemp(dir=top)
                counts.append(
                    (kind.name,) + crash_everywhere(kind, root, strides,
                                                    second, step)
                )
    finally:
        shutil.rmtree(top, ignore_errors=True)
    if os.environ.get("DEMO_SHOW_OUTCOMES"):
        print("\n".join(OUTCOMES))
    for name, n, m in counts:
        print("{}: {} crash states (+{} killed recoveries)".format(name, n, m))
    print("PASS")


if __name__ == "__main__":
    main()
