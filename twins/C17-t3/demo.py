"""Demo / check for refactoring 3 (plotter_matplotlib.mpl_multi_plot).

Run as:  cd <worktree> && /venv/bin/python /tmp/tw/C17.out/t3/demo.py

Checks that row / column grids of lineplot, scatter, histogram and heatmap put
each slice of the dataset into the panel titled with its coordinate value, with
axis titles / tick labels / tick marks only on the proper outer panels, a
single global legend, and that the dataset is never modified.
"""
import os
import sys
import warnings

sys.path.insert(0, os.getcwd())
warnings.filterwarnings("ignore")

import matplotlib  # noqa: E402

matplotlib.use("Agg")

import logging  # noqa: E402

logging.getLogger("matplotlib.font_manager").setLevel(logging.ERROR)

import numpy as np  # noqa: E402
import xarray as xr  # noqa: E402

import xyzpy  # noqa: E402

assert os.path.abspath(xyzpy.__file__).startswith(os.getcwd()), xyzpy.__file__

NCHECK = 0


def check(cond, msg):
    global NCHECK
    NCHECK += 1
    if not cond:
        print("FAIL:", msg)
        sys.exit(1)


def same(a, b):
    a = np.asarray(a, dtype=float)
    b = np.asarray(b, dtype=float)
    return a.shape == b.shape and np.array_equal(a, b)


def pretty(v):
    """Independent re-statement of how coordinate values appear in titles."""
    if isinstance(v, (float, np.floating)):
        s = "%.4f" % v
        s = s.rstrip("0")
        if s.endswith("."):
            s += "0"
        return s
    return str(v)


R_SETS = {
    "float": np.array([0.5, 1 / 3, 2.0]),
    "int": np.array([10, 20]),
    "str": np.array(["up", "down"]),
    "one": np.array([7.25]),
}
C_SETS = {
    "float": np.array([0.125, 100.0]),
    "str": np.array(["a", "b", "c"]),
    "one": np.array([3]),
}


def make_ds(rng, rv, cv, nz=3, nx=6):
    shape = (len(rv), len(cv), nz, nx)
    y = rng.uniform(1, 2, size=shape)
    y[0, 0, 0, 1] = np.nan
    y[-1, -1, -1, -1] = np.inf
    if nz > 1:
        y[0, -1, 1, :] = np.nan  # an all-NaN series in one panel
    e = rng.uniform(0.01, 0.1, size=shape)
    cc = rng.uniform(0, 5, size=shape)
    return xr.Dataset(
        {
            "y": (("r", "c", "z", "x"), y),
            "e": (("r", "c", "z", "x"), e),
            "cc": (("r", "c", "z", "x"), cc),
        },
        coords={"r": rv, "c": cv, "z": np.arange(nz) + 1,
                "x": np.linspace(1, 2, nx)},
    )


def panel_grid(ds, row, col):
    """List of (i, j, nrows, ncols, sub_dataset) in the order drawn."""
    rv = ds[row].values if row is not None else [None]
    cv = ds[col].values if col is not None else [None]
    out = []
    for i, r in enumerate(rv):
        for j, c in enumerate(cv):
            sel = {}
            if row is not None:
                sel[row] = i
            if col is not None:
                sel[col] = j
            out.append((i, j, len(rv), len(cv), ds.isel(sel)))
    return out


def check_decorations(ax, ds, row, col, i, j, nr, nc, xname, yname,
                      rowtitle=None, coltitle=None, zero_space=False):
    # column titles on first row only
    if col is not None and i == 0:
        want = "{} = {}".format(col if coltitle is None else coltitle,
                                pretty(ds[col].values[j]))
    else:
        want = ""
    check(ax.get_title() == want, f"title [{i},{j}] {ax.get_title()!r}")
    # row titles as right-hand y label of last column
    if row is not None and j == nc - 1:
        want = "{} = {}".format(row if rowtitle is None else rowtitle,
                                pretty(ds[row].values[i]))
        check(ax.get_ylabel() == want, f"row label [{i},{j}]")
        check(ax.yaxis.get_label_position() == "right", "row label on right")
    elif j == 0:
        check(ax.get_ylabel() == yname, f"y title [{i},{j}]")
        check(ax.yaxis.get_label_position() == "left", "y label on left")
    else:
        check(ax.get_ylabel() == "", f"no y title [{i},{j}]")
    # x title and x tick labels only on last row
    check(ax.get_xlabel() == (xname if i == nr - 1 else ""), "x title")
    xfmt = type(ax.xaxis.get_major_formatter()).__name__
    check((xfmt == "NullFormatter") == (i != nr - 1), "x tick labels")
    yfmt = type(ax.yaxis.get_major_formatter()).__name__
    check((yfmt == "NullFormatter") == (j != 0), "y tick labels")
    # tick marks
    xt = ax.xaxis.get_tick_params()
    yt = ax.yaxis.get_tick_params()
    right_ticks = (row is not None and j == nc - 1)  # via tick_right()
    if zero_space:
        check(xt["bottom"] == (i == nr - 1), "bottom ticks")
        check(xt["top"] == (i == 0), "top ticks")
        if not right_ticks:
            check(yt["left"] == (j == 0), "left ticks")
            check(yt["right"] == (j == nc - 1), "right ticks")
    else:
        check(xt["bottom"] and xt["top"], "default x ticks")
        if not right_ticks:
            check(yt["left"] and yt["right"], "default y ticks")
    if right_ticks:
        check(yt["right"] and not yt["left"], "ticks moved right")


def series_xy(sub, k, yname="y"):
    s = sub.isel(z=k)
    x, y = s["x"].values, s[yname].values
    fin = np.isfinite(x) & np.isfinite(y)
    return fin, x[fin], y[fin]


def check_line_grid(ds, row, col, **opts):
    ref = ds.copy(deep=True)
    fig = xyzpy.lineplot(ds, "x", "y", "z", row=row, col=col, **opts)
    panels = panel_grid(ds, row, col)
    axes = fig.axes[: len(panels)]
    check(len(fig.axes) >= len(panels), "number of panels")
    zero = opts.get("hspace") == 0 and opts.get("wspace") == 0
    for ax, (i, j, nr, nc, sub) in zip(axes, panels):
        sub = sub.squeeze()
        check_decorations(ax, ds, row, col, i, j, nr, nc, "x", "y",
                          opts.get("rowtitle"), opts.get("coltitle"), zero)
        lines = ax.get_lines()
        check(len(lines) == ds.sizes["z"], "lines per panel")
        for k, ln in enumerate(lines):
            _, ex, ey = series_xy(sub, k)
            check(same(ln.get_xdata(), ex) and same(ln.get_ydata(), ey),
                  f"panel [{i},{j}] line {k}")
            check(ln.get_label() == str(ds["z"].values[k]), "line label")
        check(ax.get_legend() is None, "no per-panel legend")
    # one global legend, one entry per z
    check(len(fig.legends) == 1, "global legend")
    check([t.get_text() for t in fig.legends[0].get_texts()] ==
          [str(z) for z in ds["z"].values], "legend entries")
    check(fig.legends[0].get_title().get_text() == "z", "legend title")
    # all panels share the same ranges
    check(len({ax.get_xlim() for ax in axes}) == 1, "shared xlim")
    check(len({ax.get_ylim() for ax in axes}) == 1, "shared ylim")
    check(ds.identical(ref), "dataset unmodified (line grid)")


def check_scatter_grid(ds, row, col, **opts):
    ref = ds.copy(deep=True)
    fig = xyzpy.scatter(ds, "x", "y", "z", row=row, col=col, c="cc", **opts)
    panels = panel_grid(ds, row, col)
    for ax, (i, j, nr, nc, sub) in zip(fig.axes, panels):
        sub = sub.squeeze()
        check_decorations(ax, ds, row, col, i, j, nr, nc, "x", "y")
        colls = ax.collections
        check(len(colls) == ds.sizes["z"], "collections per panel")
        for k, pc in enumerate(colls):
            fin, ex, ey = series_xy(sub, k)
            offs = np.asarray(pc.get_offsets()).reshape(-1, 2)
            check(same(offs[:, 0], ex) and same(offs[:, 1], ey),
                  f"scatter panel [{i},{j}] series {k}")
            check(same(np.asarray(pc.get_array()),
                       sub.isel(z=k)["cc"].values[fin]), "scatter c")
    check(len(fig.axes) == len(panels) + 1, "one global colorbar")
    check(fig.axes[-1].get_title() == "cc", "colorbar title")
    check(ds.identical(ref), "dataset unmodified (scatter grid)")


def check_errorbar_grid(ds, row, col):
    fig = xyzpy.lineplot(ds, "x", "y", "z", row=row, col=col, y_err="e")
    for ax, (i, j, nr, nc, sub) in zip(fig.axes, panel_grid(ds, row, col)):
        sub = sub.squeeze()
        conts = ax.containers
        check(len(conts) == ds.sizes["z"], "errorbar containers per panel")
        for k, cont in enumerate(conts):
            fin, ex, ey = series_xy(sub, k)
            ee = sub.isel(z=k)["e"].values[fin]
            check(same(cont.lines[0].get_xdata(), ex), "err grid x")
            check(same(cont.lines[0].get_ydata(), ey), "err grid y")
            segs = cont.lines[2][0].get_segments()
            check(len(segs) == len(ex), "n err segments")
            for s, xx, yy, e1 in zip(segs, ex, ey, ee):
                check(np.allclose(s, [[xx, yy - e1], [xx, yy + e1]]), "seg")


def check_hist_grid(rng):
    rv, cv, zv = np.array([1.5, 2.5]), np.array(["p", "q", "s"]), [1, 2]
    v = rng.normal(size=(2, 3, 2, 40))
    v[0, 1, 0, :5] = np.nan
    v[1, 2, 1, 7] = np.inf
    ds = xr.Dataset({"v": (("r", "c", "z", "n"), v)},
                    coords={"r": rv, "c": cv, "z": zv})
    ref = ds.copy(deep=True)
    for row, col in (("r", "c"), ("r", None), (None, "c")):
        d = ds
        if row is None:
            d = ds.isel(r=0)
        if col is None:
            d = ds.isel(c=1)
        bins = np.linspace(-4, 4, 9)
        fig = xyzpy.histogram(d, "v", z="z", row=row, col=col, bins=bins)
        for ax, (i, j, nr, nc, sub) in zip(fig.axes,
                                           panel_grid(d, row, col)):
            check_decorations(ax, d, row, col, i, j, nr, nc, "x", "f(x)")
            by_label = {p.get_label(): p for p in ax.patches}
            check(sorted(by_label) == ["1", "2"], "hist labels")
            for k, z in enumerate(zv):
                vals = sub.isel(z=k)["v"].values.ravel()
                vals = vals[np.isfinite(vals)]
                dens, _ = np.histogram(vals, bins=bins, density=True)
                # step-filled polygon: heights appear as the y of the outline
                ys = by_label[str(z)].get_xy()[:, 1]
                check(np.allclose(ys[1:2 * len(dens) + 1:2], dens) and
                      np.allclose(ys[2:2 * len(dens) + 2:2], dens),
                      f"hist heights [{i},{j}] z={z}")
        check(len(fig.legends) == 1, "hist global legend")
    check(ds.identical(ref), "dataset unmodified (hist grid)")


def check_heatmap_grid(rng):
    rv, cv = np.array([0.25, 0.75]), np.array([1, 2, 3])
    h = rng.uniform(1, 9, size=(2, 3, 4, 5))
    h[0, 0, 1, 1] = np.nan
    ds = xr.Dataset({"h": (("r", "c", "x", "y"), h)},
                    coords={"r": rv, "c": cv, "x": np.arange(4.0),
                            "y": np.arange(5.0) * 2})
    ref = ds.copy(deep=True)
    for row, col, opts in (("r", "c", {}), ("r", None, {}), (None, "c", {}),
                           ("c", "r", {"rowtitle": "C", "coltitle": "R"})):
        d = ds
        if row is None:
            d = ds.isel(r=1)
        if col is None:
            d = ds.isel(c=2)
        fig = xyzpy.heatmap(d, "x", "y", "h", row=row, col=col, **opts)
        panels = panel_grid(d, row, col)
        for ax, (i, j, nr, nc, sub) in zip(fig.axes, panels):
            check_decorations(ax, d, row, col, i, j, nr, nc, "x", "y",
                              opts.get("rowtitle"), opts.get("coltitle"))
            (qm,) = ax.collections
            want = np.ma.masked_invalid(
                sub["h"].transpose("y", "x").values)
            got = np.ma.asarray(qm.get_array()).reshape(want.shape)
            check(np.array_equal(np.ma.getmaskarray(got),
                                 np.ma.getmaskarray(want)), "heat mask")
            check(np.array_equal(got.filled(0), want.filled(0)),
                  f"heat values [{i},{j}]")
            # global colour scale
            check(qm.norm.vmin == float(d["h"].min()) and
                  qm.norm.vmax == float(d["h"].max()), "global heat norm")
        check(len(fig.axes) == len(panels) + 1, "one global colorbar")
    check(ds.identical(ref), "dataset unmodified (heat grid)")


def main():
    rng = np.random.default_rng(3)
    for rk, rv in R_SETS.items():
        for ck, cv in C_SETS.items():
            ds = make_ds(rng, rv, cv)
            check_line_grid(ds, "r", "c")
            check_line_grid(ds, "r", "c", hspace=0, wspace=0)
            check_line_grid(ds, "c", "r", rowtitle="Col!", coltitle="$R$")
            check_line_grid(ds.isel(c=0), "r", None)
            check_line_grid(ds.isel(c=-1), "r", None, hspace=0, wspace=0,
                            rowtitle="rr")
            check_line_grid(ds.isel(r=0), None, "c")
            check_line_grid(ds.isel(r=-1), None, "c", hspace=0, wspace=0,
                            coltitle="cc", xlog=True, ylog=True)
            check_line_grid(ds, "r", "c", hspace=0)  # only one of them zero
        ds = make_ds(rng, rv, C_SETS["str"])
        check_scatter_grid(ds, "r", "c")
        check_scatter_grid(ds.isel(r=0), None, "c")
        check_scatter_grid(ds.isel(c=1), "r", None)
        check_errorbar_grid(ds, "r", "c")
    check_hist_grid(rng)
    check_heatmap_grid(rng)
    print(f"{NCHECK} checks")
    print("PASS")


if __name__ == "__main__":
    main()
