"""Demo 2 for property C11 (concurrent growers / waiting reaper / progress).

Run as:  cd <worktree> && /venv/bin/python /path/to/demo.py
Prints PASS and exits 0 when everything checks out.
"""
import os
import re
import sys
import time
import random
import shutil
import fnmatch
import tempfile
import threading
import traceback
import pickle as real_pickle

sys.path.insert(0, os.getcwd())

import xyzpy  # noqa: E402
from xyzpy.gen import cropping as C  # noqa: E402
from xyzpy.gen.cropping import Crop, XYZError  # noqa: E402

assert os.path.abspath(xyzpy.__file__).startswith(
    os.path.abspath(os.getcwd()) + os.sep
), "wrong xyzpy imported: {}".format(xyzpy.__file__)

# keep the progress bars of combo_runner_core out of the way
_devnull = open(os.devnull, "w")
sys.stderr = _devnull

RESULT_RGX = re.compile(r"^xyz-result-(\d+)\.jbdmp$")
FAILURES = []
NCHECKS = [0]


def check(cond, msg):
    NCHECKS[0] += 1
    if not cond:
        FAILURES.append(msg)
        print("FAIL:", msg)


def raises(exc_type, f, *args, **kwargs):
    try:
        f(*args, **kwargs)
    except exc_type:
        return True
    except BaseException as e:  # noqa
        print("unexpected exception", type(e), e)
        return False
    return False


# ----------------------- chunked, interruptible writes ---------------------- #

class ChunkedPickle:
    """Stand-in for the ``pickle`` module as seen by ``xyzpy.gen.cropping``:
    ``dump`` writes the data in several flushed chunks and calls a hook
    between them, so that other threads can observe (and the demo can freeze)
    the file-system state where a result is only partly written.
    """

    def __init__(self):
        self.hook = None
        self.nchunks = 4

    def dump(self, obj, file, *args, **kwargs):
        data = real_pickle.dumps(obj, *args, **kwargs)
        n = max(1, -(-len(data) // self.nchunks))
        pieces = [data[k:k + n] for k in range(0, len(data), n)]
        for j, piece in enumerate(pieces):
            file.write(piece)
            file.flush()
            hook = self.hook
            if hook is not None and j < len(pieces) - 1:
                hook(file.name, j)

    def load(self, file, *args, **kwargs):
        return real_pickle.load(file, *args, **kwargs)

    def __getattr__(self, name):
        return getattr(real_pickle, name)


SHIM = ChunkedPickle()
C.pickle = SHIM


def fn(a, b):
    # something with a bit of bulk, so that a partial write is really partial
    return (a * 100 + b, "x" * (50 + a), [float(b)] * 20)


def results_dir(crop):
    return os.path.join(crop.location, "results")


def result_file(crop, i):
    return os.path.join(results_dir(crop), C.RSLT_NM.format(i))


def expected_batch(crop, i):
    with open(
        os.path.join(crop.location, "batches", C.BTCH_NM.format(i)), "rb"
    ) as f:
        cases = real_pickle.load(f)
    return tuple(fn(**case) for case in cases)


def tmp_files(crop):
    return sorted(
        f for f in os.listdir(results_dir(crop)) if not RESULT_RGX.match(f)
    )


def fully_written_results(crop, expected):
    """The batch numbers that have a properly named result file - each of
    which must be completely loadable and hold the right results.
    """
    done = set()
    for f in os.listdir(results_dir(crop)):
        m = RESULT_RGX.match(f)
        if m:
            i = int(m.group(1))
            with open(os.path.join(results_dir(crop), f), "rb") as fh:
                res = real_pickle.load(fh)
            if res != expected[i]:
                raise AssertionError("batch {} has wrong results".format(i))
            done.add(i)
    return done


def new_crop(parent, name, combos, **kwargs):
    crop = Crop(fn=fn, name=name, parent_dir=parent, **kwargs)
    crop.sow_combos(combos)
    expected = {
        i: expected_batch(crop, i) for i in range(1, crop.num_batches + 1)
    }
    return crop, expected


def other_view(crop):
    """A separate Crop object, as another process would have."""
    return Crop(name=crop.name, parent_dir=crop.parent_dir)


def grow_batch(crop, i):
    C.grow(i, crop=other_view(crop), verbosity=0)


class Worker(threading.Thread):
    def __init__(self, target, *args):
        super().__init__(daemon=True)
        self._target_fn = target
        self._args_ = args
        self.result = None
        self.error = None

    def run(self):
        try:
            self.result = self._target_fn(*self._args_)
        except BaseException as e:  # noqa
            self.error = e
            self.tb = traceback.format_exc()


def poll_once(crop, expected):
    """One round of progress queries, checked against what is really fully
    written on disk. Results are never deleted here, so the set of finished
    batches only grows with time: anything reported finished must be fully
    readable immediately afterwards.
    """
    view = other_view(crop)
    n_results = view.num_results
    missing = view.missing_results()
    ready = view.is_ready_to_reap()
    done_after = fully_written_results(crop, expected)

    check(n_results <= len(done_after),
          "progress counted {} results but only {} are finished".format(
              n_results, len(done_after)))
    not_missing = set(range(1, view.num_batches + 1)) - set(missing)
    check(not_missing <= done_after,
          "batches {} reported as not missing but unfinished".format(
              not_missing - done_after))
    if ready:
        check(len(done_after) == view.num_batches,
              "reported ready to reap with unfinished batches")
        got = view.reap_combos(wait=False, clean_up=False)
        check(got == DIRECT[crop.name], "poller reap != direct results")
    return n_results, missing, ready


DIRECT = {}


def direct_run(crop, combos):
    DIRECT[crop.name] = xyzpy.combo_runner(fn, combos)
    return DIRECT[crop.name]


# ------------------------- frozen mid-write scenario ------------------------ #

def scenario_frozen_writer(parent, name, combos, num_batches, target, regrow):
    """Freeze a grower after it has written the first chunk of the result of
    batch ``target`` and look at what reapers and progress queries do.
    """
    crop, expected = new_crop(parent, name, combos, num_batches=num_batches)
    direct = direct_run(crop, combos)
    n = crop.num_batches

    SHIM.hook = None
    for i in range(1, n + 1):
        if regrow or i != target:
            grow_batch(crop, i)

    half, go = threading.Event(), threading.Event()

    def hook(fname, j):
        if "xyz-result-{}.".format(target) in os.path.basename(fname):
            if j == 0:
                half.set()
                go.wait(60)

    SHIM.hook = hook
    grower = Worker(grow_batch, crop, target)
    grower.start()
    check(half.wait(60), name + ": grower never started writing")

    # --- the result of ``target`` is now partly written ---
    tmps = tmp_files(crop)
    check(len(tmps) == 1, name + ": expected one temporary, got %r" % tmps)
    for t in tmps:
        check(t.startswith(C.RSLT_NM.format(target) + "."), name + ": " + t)
        check(not fnmatch.fnmatch(t, C.RSLT_NM.format("*")),
              name + ": temporary matches the result pattern: " + t)
        with open(os.path.join(results_dir(crop), t), "rb") as fh:
            check(raises(Exception, real_pickle.load, fh),
                  name + ": temporary is not actually partial")

    n_results, missing, ready = poll_once(crop, expected)
    if regrow:
        check(n_results == n, name + ": num_results %r" % n_results)
        check(missing == (), name + ": missing %r" % (missing,))
        check(ready, name + ": should be ready")
        # the old, complete, result is what gets used
        got = other_view(crop).reap_combos(wait=True, clean_up=False)
        check(got == direct, name + ": reap during regrow != direct")
        reaper = None
    else:
        check(n_results == n - 1, name + ": num_results %r" % n_results)
        check(missing == (target,), name + ": missing %r" % (missing,))
        check(not ready, name + ": should not be ready")
        check(raises(XYZError, other_view(crop).reap_combos, wait=False,
                     clean_up=False), name + ": reap(wait=False) no error")
        reaper = Worker(
            lambda: other_view(crop).reap_combos(wait=True, clean_up=False)
        )
        reaper.start()
        time.sleep(0.7)
        check(reaper.is_alive(), name + ": waiting reaper did not wait")
        check(reaper.error is None, name + ": reaper failed: %r" % reaper.error)
        poll_once(crop, expected)

    go.set()
    grower.join(60)
    check(grower.error is None, name + ": grower failed: %r" % grower.error)
    if reaper is not None:
        reaper.join(60)
        check(not reaper.is_alive(), name + ": reaper never finished")
        check(reaper.error is None, name + ": reaper failed: %r" % reaper.error)
        check(reaper.result == direct, name + ": waited reap != direct")
    SHIM.hook = None

    check(tmp_files(crop) == [], name + ": temporaries left over")
    n_results, missing, ready = poll_once(crop, expected)
    check((n_results, missing, ready) == (n, (), True), name + ": end state")
    got = other_view(crop).reap_combos(wait=False, clean_up=True)
    check(got == direct, name + ": final reap != direct")
    check(not os.path.exists(crop.location), name + ": not cleaned up")


# ----------------------------- random schedules ----------------------------- #

def scenario_random(parent, name, combos, num_batches, assignment, seed,
                    n_pollers=1, reap_first=True):
    """``assignment`` lists, per grower, the batches it grows in order. All
    growers, a waiting reaper and progress pollers run concurrently with
    seeded random pauses between the chunks of every result write.
    """
    crop, expected = new_crop(parent, name, combos, num_batches=num_batches)
    direct = direct_run(crop, combos)
    rng = random.Random(seed)
    lock = threading.Lock()

    def pause():
        with lock:
            t = rng.choice([0.0, 0.0, 0.01, 0.03, 0.08])
        time.sleep(t)

    def hook(fname, j):
        if "xyz-result-" in os.path.basename(fname):
            pause()

    SHIM.hook = hook

    def grower_fn(batches):
        for i in batches:
            pause()
            grow_batch(crop, i)

    stop = threading.Event()

    def poller_fn():
        k = 0
        while not stop.is_set():
            poll_once(crop, expected)
            k += 1
            time.sleep(0.005)
        return k

    def reaper_fn():
        return other_view(crop).reap_combos(wait=True, clean_up=False)

    reaper = Worker(reaper_fn)
    growers = [Worker(grower_fn, batches) for batches in assignment]
    pollers = [Worker(poller_fn) for _ in range(n_pollers)]

    first, second = ([reaper], growers) if reap_first else (growers, [reaper])
    for w in pollers + first:
        w.start()
    pause()
    for w in second:
        w.start()

    for w in growers + [reaper]:
        w.join(120)
        check(not w.is_alive(), name + ": worker hung")
    stop.set()
    for w in pollers:
        w.join(120)
    SHIM.hook = None

    for w in growers + pollers + [reaper]:
        check(w.error is None, name + ": worker failed: %r\n%s" % (
            w.error, getattr(w, "tb", "")))
    check(reaper.result == direct, name + ": waited reap != direct results")
    check(all(p.result and p.result > 0 for p in pollers),
          name + ": pollers did not run")
    check(tmp_files(crop) == [], name + ": temporaries left over")
    view = other_view(crop)
    check(view.num_results == crop.num_batches, name + ": final num_results")
    check(view.missing_results() == (), name + ": final missing")
    check(view.reap_combos(clean_up=True) == direct, name + ": final reap")


COMBOS_SMALL = [("a", [1, 2, 3]), ("b", [10, 20])]      # 6 cases
COMBOS_ODD = [("a", [1, 2, 3, 4, 5]), ("b", [7])]       # 5 cases
COMBOS_ONE = [("a", [4]), ("b", [1, 2])]                # 2 cases


def run_crop_scenarios(parent, seeds=(0, 1)):
    k = 0
    for num_batches, target, regrow in [
        (1, 1, False), (1, 1, True), (2, 1, False), (2, 2, True),
        (3, 2, False), (3, 3, False), (3, 1, True),
    ]:
        k += 1
        scenario_frozen_writer(
            parent, "frozen{}".format(k),
            COMBOS_ODD if num_batches == 3 else COMBOS_SMALL,
            num_batches, target, regrow,
        )

    for seed in seeds:
        for num_batches, combos, assignment in [
            (1, COMBOS_ONE, [[1]]),
            (1, COMBOS_SMALL, [[1], [1]]),
            (2, COMBOS_SMALL, [[1], [2]]),
            (2, COMBOS_ODD, [[2, 1], [1, 2]]),
            (3, COMBOS_ODD, [[1], [2], [3]]),
            (3, COMBOS_SMALL, [[3, 1], [2], [1, 3]]),
            (3, COMBOS_ODD, [[3, 2, 1]]),
        ]:
            k += 1
            scenario_random(
                parent, "random{}".format(k), combos, num_batches,
                assignment, seed=1000 * seed + k,
                n_pollers=1 + (k % 2), reap_first=bool((k + seed) % 2),
            )


def finish(parent):
    shutil.rmtree(parent, ignore_errors=True)
    if FAILURES:
        print("{} of {} checks FAILED".format(len(FAILURES), NCHECKS[0]))
        sys.exit(1)
    print("{} checks ok".format(NCHECKS[0]))
    print("PASS")
    sys.exit(0)


# =========================================================================== #
#          specific to this demo: the Reaper and its waiting for files        #
# =========================================================================== #

def reap_all(crop, n, **kwargs):
    """Use a Reaper directly to pull all ``n`` individual results."""
    got = []
    with C.Reaper(crop, **kwargs) as reap_fn:
        for _ in range(n):
            got.append(reap_fn())
    return tuple(got)


def unit_reaper(parent):
    SHIM.hook = None
    nan = float("nan")

    for combos, num_batches in [
        (COMBOS_SMALL, 1), (COMBOS_SMALL, 3), (COMBOS_ODD, 2), (COMBOS_ODD, 3),
        (COMBOS_ONE, 2),
    ]:
        name = "unit{}x{}".format(len(combos[0][1]), num_batches)
        crop, expected = new_crop(parent, name, combos,
                                  num_batches=num_batches)
        n = crop.num_batches
        flat = sum((expected[i] for i in range(1, n + 1)), ())
        sizes = {i: len(expected[i]) for i in expected}
        opts = dict(num_batches=n)

        # nothing grown yet
        check(raises(FileNotFoundError, reap_all, crop, len(flat), **opts),
              name + ": missing file, no wait, no default")
        got = reap_all(crop, len(flat), default_result="D", **opts)
        check(got == ("D",) * len(flat), name + ": all default")
        got = reap_all(crop, len(flat), default_result=None, **opts)
        check(got == (None,) * len(flat), name + ": all default None")

        # grow all but the last batch
        for i in range(1, n):
            grow_batch(crop, i)
        got = reap_all(crop, len(flat), default_result=nan, **opts)
        k = len(flat) - sizes[n]
        check(got[:k] == flat[:k], name + ": partial, finished part")
        check(len(got) == len(flat) and all(x != x for x in got[k:]),
              name + ": partial, default part")

        # waiting: with or without a default the real result is waited for
        for kw in [{}, {"default_result": nan}]:
            w = Worker(lambda: reap_all(crop, len(flat), wait=True,
                                        **dict(opts, **kw)))
            w.start()
            time.sleep(0.5)
            check(w.is_alive() and w.error is None,
                  name + ": did not wait %r" % (kw,))
            g = Worker(grow_batch, crop, n)
            g.start()
            g.join(60)
            w.join(60)
            check(w.error is None and not w.is_alive(),
                  name + ": waiting reaper: %r" % (w.error,))
            check(w.result == flat, name + ": waited result")
            os.remove(result_file(crop, n))

        grow_batch(crop, n)
        check(reap_all(crop, len(flat), **opts) == flat, name + ": all")
        check(reap_all(crop, len(flat), wait=True, **opts) == flat,
              name + ": all, wait")
        check(reap_all(crop, len(flat), default_result=1, **opts) == flat,
              name + ": all, default unused")

        # leaving results behind is an error
        if len(flat) > 1:
            check(raises(XYZError, reap_all, crop, len(flat) - 1, **opts),
                  name + ": not all reaped")
        # asking for too many too
        check(raises(StopIteration, reap_all, crop, len(flat) + 1, **opts),
              name + ": too many")

        # an empty result is rejected
        os.remove(result_file(crop, n))
        with open(result_file(crop, n), "wb") as fh:
            real_pickle.dump((), fh)
        for wait in (False, True):
            check(raises(ValueError, reap_all, crop, len(flat), wait=wait,
                         **opts), name + ": empty result accepted")
        with open(result_file(crop, n), "wb") as fh:
            real_pickle.dump(None, fh)
        check(raises(ValueError, reap_all, crop, len(flat), **opts),
              name + ": None result accepted")

        # something that is not a file
        os.remove(result_file(crop, n))
        os.mkdir(result_file(crop, n))
        try:
            reap_all(crop, len(flat), wait=True, **opts)
            check(False, name + ": directory accepted")
        except ValueError as e:
            check(str(e) == "{} is not a file.".format(result_file(crop, n)),
                  name + ": message %r" % str(e))
        check(raises(IsADirectoryError, reap_all, crop, len(flat), **opts),
              name + ": directory, no wait")
        got = reap_all(crop, len(flat), default_result="D", **opts)
        check(got[:k] == flat[:k] and got[k:] == ("D",) * sizes[n],
              name + ": directory, default")
        os.rmdir(result_file(crop, n))

        # a partly written temporary next to it is never looked at
        tmp = result_file(crop, n) + ".{}-{}.tmp".format(os.getpid(), "0" * 32)
        with open(tmp, "wb") as fh:
            fh.write(real_pickle.dumps(expected[n])[:5])
        w = Worker(lambda: reap_all(crop, len(flat), wait=True, **opts))
        w.start()
        time.sleep(0.5)
        check(w.is_alive() and w.error is None, name + ": used a temporary")
        check(raises(FileNotFoundError, reap_all, crop, len(flat), **opts),
              name + ": used a temporary (no wait)")
        os.replace(tmp, result_file(crop, n))   # still partial: must fail
        w.join(60)
        check(w.error is not None, name + ": partial file loaded?!")
        C.write_to_disk(expected[n], result_file(crop, n))
        check(reap_all(crop, len(flat), wait=True, **opts) == flat,
              name + ": final")
        crop.delete_all()

    # the extracted helper, where present
    helper = getattr(C, "_wait_for_file", None)
    if helper is not None:
        d = os.path.join(parent, "helper")
        os.makedirs(d)
        f = os.path.join(d, "f")
        w = Worker(helper, f, 0.01)
        w.start()
        time.sleep(0.1)
        check(w.is_alive(), "helper did not wait")
        open(f, "wb").close()
        w.join(10)
        check(not w.is_alive() and w.error is None and w.result is None,
              "helper")
        check(raises(ValueError, helper, d), "helper on directory")
        t0 = time.time()
        helper(f)
        check(time.time() - t0 < 0.15, "helper slept although file exists")


def scenario_runner(parent, seed):
    """Same as the random scenario but reaping to a dataset via a Runner."""
    import numpy as np

    def f2(a, b):
        return a + 0.5 * b, np.arange(3) * a

    runner = xyzpy.Runner(
        f2, var_names=["s", "v"], var_dims={"v": ["t"]},
        var_coords={"t": [0, 1, 2]},
    )
    combos = {"a": [1, 2, 3], "b": [4, 5]}
    direct = xyzpy.Runner(
        f2, var_names=["s", "v"], var_dims={"v": ["t"]},
        var_coords={"t": [0, 1, 2]},
    ).run_combos(combos, verbosity=0)

    name = "runner{}".format(seed)
    crop = runner.Crop(name=name, parent_dir=parent, num_batches=3)
    crop.sow_combos(combos)
    rng = random.Random(seed)
    lock = threading.Lock()

    def hook(fname, j):
        with lock:
            t = rng.choice([0.0, 0.02, 0.06])
        time.sleep(t)

    SHIM.hook = hook
    order = [1, 2, 3, rng.choice([1, 2, 3])]
    rng.shuffle(order)
    growers = [Worker(grow_batch, crop, i) for i in order]
    reaper = Worker(lambda: crop.reap(wait=True, clean_up=False))
    reaper.start()
    time.sleep(0.1)
    for g in growers:
        g.start()
    for w in growers + [reaper]:
        w.join(120)
        check(w.error is None and not w.is_alive(),
              name + ": %r\n%s" % (w.error, getattr(w, "tb", "")))
    SHIM.hook = None
    check(reaper.result is not None and reaper.result.identical(direct),
          name + ": dataset differs from direct run")
    crop.delete_all()


def main():
    parent = tempfile.mkdtemp(prefix="xyz-c11-t2-")
    try:
        unit_reaper(parent)
        for seed in (0, 1, 2):
            scenario_runner(parent, seed)
        run_crop_scenarios(parent, seeds=(0, 1))
    except BaseException:  # noqa
        FAILURES.append("exception")
        print(traceback.format_exc())
    finish(parent)


if __name__ == "__main__":
    main()
