"""Demo for C14 twin 1: ``auto_add_extension`` / ``save_ds`` (saving side).

Run as ``cd <worktree> && /venv/bin/python /path/to/demo.py``.
"""
import sys
import os

sys.path.insert(0, os.getcwd())

import warnings
warnings.simplefilter('ignore')
import shutil
import tempfile
import importlib
import itertools
from unittest import mock

import numpy as np
import xarray as xr
import joblib

import xyzpy
from xyzpy.manage import (
    auto_add_extension, save_ds, load_ds, save_merge_ds, _engine_extensions
)

assert os.path.dirname(os.path.abspath(xyzpy.__file__)) == \
    os.path.join(os.getcwd(), 'xyzpy'), xyzpy.__file__


def importable(name):
    try:
        importlib.import_module(name)
        return True
    except Exception:
        return False


ENGINES = ['h5netcdf', 'joblib']
if importable('netCDF4'):
    ENGINES.append('netcdf4')
HAVE_ZARR = importable('zarr')
if HAVE_ZARR:
    ENGINES.append('zarr')

NETCDF_LIKE = {'h5netcdf', 'netcdf4'}


def make_ds(ndim, kind, rng):
    """Dataset with ``ndim`` dimensions and variables of many dtypes."""
    dims = ['a', 'b', 'c', 'd'][:ndim]
    shape = [3, 2, 4, 2][:ndim]
    coords = {}
    if ndim > 0:
        coords['a'] = [10, 20, 30]
    if ndim > 1:
        coords['b'] = ['x', 'yy']
    if ndim > 2:
        coords['c'] = [0.5, 1.5, 2.5, np.pi]
    if ndim > 3:
        coords['d'] = [True, False]

    fl = rng.standard_normal(shape)
    cx = rng.standard_normal(shape) + 1j * rng.standard_normal(shape)
    if kind == 'nan' and ndim > 0:
        fl = fl.copy()
        fl[(0,) * ndim] = np.nan
        cx = cx.copy()
        cx[(-1,) * ndim] = np.nan
    if kind == 'allnan':
        fl = np.full(shape, np.nan)

    data_vars = {
        'i': (dims, rng.integers(-5, 5, size=shape)),
        'f': (dims, fl),
        'z': (dims, cx),
        'bl': (dims, rng.integers(0, 2, size=shape).astype(bool)),
        's': (dims, np.array(['s{}'.format(k) for k in
                              range(int(np.prod(shape)))],
                             dtype=object).reshape(shape)),
    }
    if kind == 'real':
        # nothing complex at all -> netcdf does not need 'invalid_netcdf'
        del data_vars['z']
    return xr.Dataset(data_vars=data_vars, coords=coords)


def expected_after_netcdf(attrs):
    out = {}
    for k, v in attrs.items():
        if v is None:
            out[k] = 'None'
        elif v is True:
            out[k] = 'True'
        elif v is False:
            out[k] = 'False'
        else:
            out[k] = v
    return out


def same_attr(x, y):
    if isinstance(x, (list, tuple, np.ndarray)) or \
            isinstance(y, (list, tuple, np.ndarray)):
        return np.array_equal(np.asarray(x), np.asarray(y))
    return x == y and (isinstance(x, str) == isinstance(y, str))


def check_same(ds_in, ds_out, attrs_expected):
    assert dict(ds_in.sizes) == dict(ds_out.sizes), (ds_in.sizes, ds_out.sizes)
    assert set(ds_in.coords) == set(ds_out.coords)
    assert set(ds_in.data_vars) == set(ds_out.data_vars)
    for name in ds_in.variables:
        vi, vo = ds_in[name], ds_out[name]
        assert vi.dims == vo.dims, name
        assert vi.dtype.kind == vo.dtype.kind or \
            {vi.dtype.kind, vo.dtype.kind} <= {'O', 'U'}, (name, vi.dtype,
                                                           vo.dtype)
        if vi.dtype.kind in 'fc':
            assert np.array_equal(vi.values, vo.values, equal_nan=True), name
            assert np.array_equal(np.isnan(vi.values), np.isnan(vo.values))
        else:
            assert np.array_equal(vi.values.astype(str) if vi.dtype.kind
                                  in 'OU' else vi.values,
                                  vo.values.astype(str) if vo.dtype.kind
                                  in 'OU' else vo.values), name
    assert set(ds_out.attrs) == set(attrs_expected), (ds_out.attrs,
                                                      attrs_expected)
    for k, v in attrs_expected.items():
        assert same_attr(v, ds_out.attrs[k]), (k, v, ds_out.attrs[k])


ATTRS = {
    'none': None, 'true': True, 'false': False,
    'one': 1, 'zero': 0, 'fl': 2.5, 'txt': 'hello',
    'strnone': 'None', 'arr': [1, 2, 3], 'fone': 1.0,
}


def test_auto_add_extension():
    exts = dict(_engine_extensions)
    assert exts == {'h5netcdf': '.h5', 'netcdf4': '.nc', 'joblib': '.dmp',
                    'zarr': '.zarr'}
    for engine, ext in exts.items():
        # no extension -> add the engine one
        assert auto_add_extension('foo', engine) == 'foo' + ext
        assert auto_add_extension('', engine) == ext
        assert auto_add_extension('dir.d/foo', engine) == 'dir.d/foo' + ext
        assert auto_add_extension('foo.txt', engine) == 'foo.txt' + ext
        # any known extension anywhere in the name -> unchanged
        for other in exts.values():
            for name in ('foo' + other, 'foo' + other + '.tmp',
                         'a' + other + '/foo', other):
                assert auto_add_extension(name, engine) == name
        # idempotent
        once = auto_add_extension('bar', engine)
        assert auto_add_extension(once, engine) == once
    # unknown engine: only matters if an extension is needed
    assert auto_add_extension('foo.h5', 'nope') == 'foo.h5'
    assert auto_add_extension('foo.zarr', None) == 'foo.zarr'
    for bad in ('nope', None, 3):
        try:
            auto_add_extension('foo', bad)
        except KeyError as e:
            assert e.args == (bad,)
        else:
            raise AssertionError
    try:
        auto_add_extension('foo', ['h5netcdf'])
    except TypeError:
        pass
    else:
        raise AssertionError
    # non-string name -> TypeError from the containment test
    for engine in ('h5netcdf', 'nope'):
        try:
            auto_add_extension(3, engine)
        except TypeError:
            pass
        else:
            raise AssertionError
    # str subclass keeps working, result is plain concatenation

    class S(str):
        pass

    assert auto_add_extension(S('foo'), 'joblib') == 'foo.dmp'
    r = auto_add_extension(S('foo.dmp'), 'h5netcdf')
    assert r == 'foo.dmp' and type(r) is S


def test_roundtrips(tmp):
    rng = np.random.default_rng(0)
    count = 0
    for engine, ndim, kind, with_ext in itertools.product(
            ENGINES, range(5), ['plain', 'nan', 'allnan', 'real'],
            [False, True]):
        ext = _engine_extensions[engine]
        ds = make_ds(ndim, kind, rng)
        ds.attrs.update(ATTRS)
        reference = ds.copy(deep=True)
        reference.attrs = dict(ATTRS)

        base = os.path.join(tmp, 'rt_{}_{}_{}_{}'.format(engine, ndim, kind,
                                                         with_ext))
        name = base + ext if with_ext else base
        before = set(os.listdir(tmp))
        assert save_ds(ds, name, engine=engine) is None
        created = set(os.listdir(tmp)) - before
        assert created == {os.path.basename(base + ext)}, created

        # documented in-place rewriting of attributes, netcdf engines only
        if engine in NETCDF_LIKE:
            attrs_expected = expected_after_netcdf(ATTRS)
            assert list(ds.attrs.items()) == list(attrs_expected.items())
            assert ds.attrs['one'] == 1 and ds.attrs['one'] is not True
            assert not isinstance(ds.attrs['one'], str)
            assert not isinstance(ds.attrs['zero'], str)
            assert not isinstance(ds.attrs['fone'], str)
        else:
            attrs_expected = dict(ATTRS)
            assert list(ds.attrs.items()) == list(ATTRS.items())
            assert ds.attrs['none'] is None
            assert ds.attrs['true'] is True and ds.attrs['false'] is False

        for load_name in (base, base + ext):
            out = load_ds(load_name, engine=engine)
            check_same(reference, out, attrs_expected)
            if engine != 'joblib':
                lazy = load_ds(load_name, engine=engine, chunks=1)
                check_same(reference, lazy.compute(), attrs_expected)
                lazy.close()
                if ndim:
                    lazy = load_ds(load_name, engine=engine,
                                   chunks={'a': 2})
                    check_same(reference, lazy.compute(), attrs_expected)
                    lazy.close()
        if engine == 'joblib':
            assert isinstance(joblib.load(base + ext), xr.Dataset)
        if engine == 'zarr':
            shutil.rmtree(base + ext)
        else:
            os.remove(base + ext)
        count += 1
    return count


def test_kwargs_forwarding(tmp):
    """Which keyword arguments reach the underlying writers."""
    rng = np.random.default_rng(1)
    real = make_ds(2, 'real', rng)
    cplx = make_ds(2, 'plain', rng)
    # complex only in a coordinate
    ccoord = xr.Dataset({'v': ('q', [1.0, 2.0])},
                        coords={'q': [1j, 2 + 0j]})

    calls = []

    def fake_to_netcdf(self, *args, **kwargs):
        calls.append((self, args, kwargs))

    with mock.patch.object(xr.Dataset, 'to_netcdf', fake_to_netcdf):
        save_ds(real, 'n1')
        save_ds(cplx, 'n2.h5', engine='h5netcdf')
        save_ds(ccoord, 'n3', engine='netcdf4')
        save_ds(cplx, 'n4', invalid_netcdf=False)
        save_ds(real, 'n5', invalid_netcdf=True, encoding={})
        save_ds(real, 'n6.dmp', engine='h5netcdf', mode='a')
        # unknown engine only fails if an extension must be chosen
        save_ds(real, 'n7.nc', engine='mystery')
        save_ds(xr.Dataset(), 'n8')
    assert [(c[1], c[2]) for c in calls] == [
        (('n1.h5',), {'engine': 'h5netcdf'}),
        (('n2.h5',), {'engine': 'h5netcdf', 'invalid_netcdf': True}),
        (('n3.nc',), {'engine': 'netcdf4', 'invalid_netcdf': True}),
        (('n4.h5',), {'engine': 'h5netcdf', 'invalid_netcdf': False}),
        (('n5.h5',), {'engine': 'h5netcdf', 'invalid_netcdf': True,
                      'encoding': {}}),
        (('n6.dmp',), {'engine': 'h5netcdf', 'mode': 'a'}),
        (('n7.nc',), {'engine': 'mystery'}),
        (('n8.h5',), {'engine': 'h5netcdf'}),
    ], calls
    assert calls[0][0] is real and calls[1][0] is cplx

    # attributes are rewritten before the write for netcdf-like engines ...
    seen = []

    def spy_to_netcdf(self, *args, **kwargs):
        seen.append(dict(self.attrs))

    d = xr.Dataset(attrs={'a': None, 'b': True, 'c': False, 'd': 1})
    with mock.patch.object(xr.Dataset, 'to_netcdf', spy_to_netcdf):
        save_ds(d, 'x', engine='netcdf4')
    assert seen == [{'a': 'None', 'b': 'True', 'c': 'False', 'd': 1}]
    assert d.attrs == {'a': 'None', 'b': 'True', 'c': 'False', 'd': 1}

    # ... but never for joblib / zarr
    jcalls = []
    d = xr.Dataset(attrs={'a': None, 'b': True, 'c': False})
    with mock.patch.object(joblib, 'dump',
                           lambda *a, **k: jcalls.append((a, k))):
        save_ds(d, 'j1', engine='joblib')
        save_ds(d, 'j2.h5', engine='joblib', compress=3)
    assert len(jcalls) == 2
    assert jcalls[0][0][0] is d and jcalls[0][0][1] == 'j1.dmp'
    assert jcalls[0][1] == {}
    assert jcalls[1][0][1] == 'j2.h5' and jcalls[1][1] == {'compress': 3}
    assert d.attrs == {'a': None, 'b': True, 'c': False}

    zcalls = []

    def fake_to_zarr(self, *args, **kwargs):
        zcalls.append((self, args, kwargs))

    with mock.patch.object(xr.Dataset, 'to_zarr', fake_to_zarr, create=True):
        save_ds(d, 'z1', engine='zarr')
        save_ds(cplx, 'z2.zarr', engine='zarr', mode='w')
    assert [(c[1], c[2]) for c in zcalls] == [
        (('z1.zarr',), {}), (('z2.zarr',), {'mode': 'w'})]
    assert d.attrs == {'a': None, 'b': True, 'c': False}

    # bad keyword arguments surface from the underlying writer
    try:
        save_ds(real, os.path.join(tmp, 'bad'), engine='joblib', nonsense=1)
    except TypeError:
        pass
    else:
        raise AssertionError
    assert not os.path.exists(os.path.join(tmp, 'bad.dmp'))


def test_errors(tmp):
    d = xr.Dataset({'v': ('q', [1.0, 2.0])}, attrs={'a': None})
    # engine without a known extension
    for bad in ('mystery', None):
        try:
            save_ds(d, os.path.join(tmp, 'e1'), engine=bad)
        except KeyError as e:
            assert e.args == (bad,)
        else:
            raise AssertionError
        assert d.attrs == {'a': None}
    # unhashable engine -> TypeError, nothing touched
    for name in ('e2', 'e2.h5'):
        try:
            save_ds(d, os.path.join(tmp, name), engine=['h5netcdf'])
        except TypeError as e:
            assert 'unhashable' in str(e)
        else:
            raise AssertionError
        assert d.attrs == {'a': None}
    # unknown engine with a usable name -> error from xarray, but the
    # attributes have been rewritten by then
    try:
        save_ds(d, os.path.join(tmp, 'e3.h5'), engine='mystery')
    except ValueError:
        pass
    else:
        raise AssertionError
    assert d.attrs == {'a': 'None'}
    assert os.listdir(tmp) == [] or not any(
        f.startswith('e') for f in os.listdir(tmp))
    # not a dataset
    for engine in ('h5netcdf',):
        try:
            save_ds(None, os.path.join(tmp, 'e4'), engine=engine)
        except AttributeError:
            pass
        else:
            raise AssertionError
    # joblib will happily dump anything
    save_ds({'not': 'a dataset'}, os.path.join(tmp, 'e5'), engine='joblib')
    assert load_ds(os.path.join(tmp, 'e5'), engine='joblib') == \
        {'not': 'a dataset'}
    os.remove(os.path.join(tmp, 'e5.dmp'))


def test_dataarray_and_lazy(tmp):
    # a DataArray also has attrs / variables-like interface? -> only attrs;
    # behaviour (an AttributeError after the attrs rewrite) must not change
    da = xr.DataArray([1.0, 2.0], dims='q', attrs={'a': None}, name='v')
    try:
        save_ds(da, os.path.join(tmp, 'da'), engine='h5netcdf')
    except AttributeError:
        pass
    else:
        raise AssertionError
    assert da.attrs == {'a': 'None'}
    assert not os.path.exists(os.path.join(tmp, 'da.h5'))

    # saving a lazily loaded (dask backed) complex dataset
    rng = np.random.default_rng(2)
    ds = make_ds(3, 'nan', rng)
    ref = ds.copy(deep=True)
    save_ds(ds, os.path.join(tmp, 'lz1'))
    lazy = load_ds(os.path.join(tmp, 'lz1'), chunks={'a': 1})
    lazy.attrs['flag'] = True
    save_ds(lazy, os.path.join(tmp, 'lz2'))
    assert lazy.attrs['flag'] == 'True'
    lazy.close()
    out = load_ds(os.path.join(tmp, 'lz2.h5'))
    check_same(ref, out, {'flag': 'True'})
    os.remove(os.path.join(tmp, 'lz1.h5'))
    os.remove(os.path.join(tmp, 'lz2.h5'))


def test_merge_and_harvester(tmp):
    """File naming is consistent for saving, merging, loading, deleting."""
    for engine in [e for e in ENGINES if e != 'zarr']:
        ext = _engine_extensions[engine]
        for with_ext in (False, True):
            base = os.path.join(tmp, 'mg_{}_{}'.format(engine, with_ext))
            name = base + ext if with_ext else base
            ds1 = xr.Dataset({'v': ('q', [1.0, 2.0])}, coords={'q': [1, 2]},
                             attrs={'k': None})
            ds2 = xr.Dataset({'v': ('q', [3.0 + 1j])}, coords={'q': [3]})
            save_merge_ds(ds1, name, engine=engine)
            save_merge_ds(ds2, name, engine=engine)
            assert os.path.exists(base + ext)
            out = load_ds(name, engine=engine)
            assert out['q'].values.tolist() == [1, 2, 3]
            assert out['v'].values.tolist() == [1.0, 2.0, 3.0 + 1j]
            os.remove(base + ext)

            def fn(a, b):
                return a + b * 1j, float('nan') if a == 1 else float(a)

            r = xyzpy.Runner(fn, var_names=['s', 't'])
            h = xyzpy.Harvester(r, data_name=name, engine=engine)
            h.harvest_combos({'a': [1, 2], 'b': [10, 20]})
            assert os.path.exists(base + ext)
            assert not os.path.exists(base + ext + '.tmp')
            h.harvest_combos({'a': [3], 'b': [10, 20]})
            h2 = xyzpy.Harvester(r, data_name=name, engine=engine)
            full = h2.full_ds
            assert full['a'].values.tolist() == [1, 2, 3]
            assert full['s'].sel(a=3, b=20).item() == 3 + 20j
            assert np.isnan(full['t'].sel(a=1, b=10).item())
            assert full['t'].sel(a=2, b=10).item() == 2.0
            full.close()
            h.delete_ds()
            assert not os.path.exists(base + ext)
    assert [f for f in os.listdir(tmp) if f.startswith('mg_')] == []


def main():
    tmp = tempfile.mkdtemp(prefix='c14_t1_')
    cwd = os.getcwd()
    try:
        test_auto_add_extension()
        n = test_roundtrips(tmp)
        assert n == len(ENGINES) * 5 * 4 * 2
        # the mocked writers get relative names: make sure nothing real is
        # ever written into the worktree anyway
        os.chdir(tmp)
        try:
            test_kwargs_forwarding(tmp)
        finally:
            os.chdir(cwd)
        test_errors(tmp)
        test_dataarray_and_lazy(tmp)
        test_merge_and_harvester(tmp)
        leftovers = os.listdir(tmp)
        assert leftovers == [], leftovers
    finally:
        os.chdir(cwd)
        shutil.rmtree(tmp, ignore_errors=True)
    print('PASS')


if __name__ == '__main__':
    main()
