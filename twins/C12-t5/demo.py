"""Demo / check for property C12: a crop is deleted only after its data is
safely delivered.

Run as ``cd <worktree> && /venv/bin/python /path/to/demo.py``. Prints PASS and
exits 0 if every check holds.
"""
import os
import sys

sys.path.insert(0, os.getcwd())

import io
import math
import shutil
import tempfile
import threading
import contextlib
import itertools

import numpy as np
import xarray as xr

import xyzpy as xyz
from xyzpy.gen import cropping
from xyzpy.gen.farming import XYZError

assert os.path.abspath(xyz.__file__).startswith(os.getcwd()), xyz.__file__

COMBOS = {"a": [1, 2, 3], "b": [1, 2]}
EXPECTED = ((11, 21), (12, 22), (13, 23))
NCHECKS = [0]
NOT_READY = (
    "This crop is not ready to reap yet - results are missing. You can reap "
    "only finished batches by setting ``allow_incomplete=True``, but be aware "
    "this will represent all missing batches with ``np.nan`` and thus might "
    "effect data-types."
)


def fn(a, b):
    return a + 10 * b


def fn2(a, b):
    return a + 10 * b, a - b


def check(cond, msg):
    NCHECKS[0] += 1
    if not cond:
        raise AssertionError(msg)


def quiet(f, *args, **kwargs):
    """Call ``f`` hiding any progress bars."""
    with contextlib.redirect_stderr(io.StringIO()):
        return f(*args, **kwargs)


def snapshot(directory):
    """Map of relative path -> bytes (or None for directories)."""
    snap = {}
    for root, dirs, files in os.walk(directory):
        for d in dirs:
            snap[os.path.relpath(os.path.join(root, d), directory)] = None
        for f in files:
            p = os.path.join(root, f)
            with open(p, "rb") as fh:
                snap[os.path.relpath(p, directory)] = fh.read()
    return snap


def result_file(crop, i):
    return os.path.join(crop.location, "results", cropping.RSLT_NM.format(i))


def expected_ds():
    return xr.Dataset(
        {"x": (("a", "b"), np.array(EXPECTED))},
        coords={"a": COMBOS["a"], "b": COMBOS["b"]},
    )


def data_ext(kind):
    return ".pkl" if kind == "sampler" else ".h5"


def effective_clean_up(clean_up, allow_incomplete):
    return (not allow_incomplete) if clean_up is None else bool(clean_up)


# --------------------------------------------------------------------------- #


def make_crop(kind, tmp, name, data_name=None, grow=(1, 2, 3)):
    """Sow a crop of 3 batches of 2 and grow the batches ``grow``."""
    if kind == "plain":
        crop = xyz.Crop(fn=fn, name=name, parent_dir=tmp, batchsize=2)
    elif kind == "runner":
        farmer = xyz.Runner(fn, var_names="x")
        crop = farmer.Crop(name=name, parent_dir=tmp, batchsize=2)
    elif kind == "harvester":
        farmer = xyz.Harvester(xyz.Runner(fn, var_names="x"), data_name)
        crop = farmer.Crop(name=name, parent_dir=tmp, batchsize=2)
    elif kind == "sampler":
        farmer = xyz.Sampler(xyz.Runner(fn, var_names="x"), data_name)
        crop = farmer.Crop(name=name, parent_dir=tmp, batchsize=2)
    else:
        raise ValueError(kind)

    if kind == "sampler":
        np.random.seed(7)
        quiet(crop.sow_samples, 6, combos=COMBOS)
    else:
        quiet(crop.sow_combos, COMBOS)
    if grow:
        quiet(crop.grow, tuple(grow))
    return crop


def check_full_result(kind, res, msg):
    if kind == "plain":
        check(res == EXPECTED, msg + ": wrong tuple {}".format(res))
    elif kind in ("runner", "harvester"):
        check(res.identical(expected_ds()) or res.equals(expected_ds()),
              msg + ": wrong dataset")
        check((res["x"].values == np.array(EXPECTED)).all(), msg)
    else:
        check(len(res) == 6, msg + ": wrong number of samples")
        check((res["x"] == res["a"] + 10 * res["b"]).all(), msg)


def check_partial_result(kind, res, msg):
    """Batch 2 (cases 3 & 4, i.e. a=2) is missing."""
    if kind == "plain":
        check(res[0] == (11, 21) and res[2] == (13, 23), msg)
        check(all(math.isnan(x) for x in res[1]), msg)
    elif kind in ("runner", "harvester"):
        vals = res["x"].values
        check((vals[0] == [11, 21]).all() and (vals[2] == [13, 23]).all(), msg)
        check(np.isnan(vals[1]).all(), msg)
    else:
        check(len(res) == 6, msg)
        xs = np.asarray(res["x"], dtype=float)
        check(np.isnan(xs[2:4]).all(), msg)
        ok = [0, 1, 4, 5]
        check((xs[ok] == np.asarray(res["a"] + 10 * res["b"])[ok]).all(), msg)


def matrix_complete(tmp):
    """clean_up x allow_incomplete x wait x farmer kind on a complete crop."""
    n = itertools.count()
    for kind in ("plain", "runner", "harvester", "sampler"):
        for clean_up, allow_incomplete, wait in itertools.product(
            (None, True, False), (False, True), (False, True)
        ):
            i = next(n)
            msg = "complete {} clean_up={} allow_incomplete={} wait={}".format(
                kind, clean_up, allow_incomplete, wait)
            data_name = os.path.join(
                tmp, "d{}.{}".format(i, "pkl" if kind == "sampler" else "h5"))
            crop = make_crop(kind, tmp, "m{}".format(i), data_name)
            res = quiet(crop.reap, clean_up=clean_up, wait=wait,
                        allow_incomplete=allow_incomplete)
            check_full_result(kind, res, msg)
            deleted = not os.path.exists(crop.location)
            check(deleted == effective_clean_up(clean_up, allow_incomplete),
                  msg + ": crop deleted={}".format(deleted))
            if kind in ("harvester", "sampler"):
                check(os.path.isfile(data_name), msg + ": data not saved")
                check(not os.path.exists(data_name + ".tmp"), msg)
            if kind == "harvester":
                with xr.open_dataset(data_name, engine="h5netcdf") as ds:
                    check((ds["x"].values == np.array(EXPECTED)).all(), msg)
                check(crop.farmer.last_ds is res, msg)
            if kind == "sampler":
                check(crop.farmer.last_df is res, msg)
                check(len(crop.farmer.full_df) == 6, msg)
            if kind == "runner":
                check(crop.farmer.last_ds is res, msg)
            if not deleted:
                # can reap again and clean up explicitly
                if kind in ("plain", "runner"):
                    res2 = quiet(crop.reap, clean_up=True)
                    check_full_result(kind, res2, msg + " (again)")
                    check(not os.path.exists(crop.location), msg)
                else:
                    crop.delete_all()


def matrix_incomplete(tmp):
    """Incomplete crops: refusal keeps everything, retry is exact."""
    n = itertools.count()
    for kind in ("plain", "runner", "harvester", "sampler"):
        for clean_up in (None, True, False):
            i = next(n)
            msg = "incomplete {} clean_up={}".format(kind, clean_up)
            data_name = os.path.join(
                tmp, "i{}.{}".format(i, "pkl" if kind == "sampler" else "h5"))
            crop = make_crop(kind, tmp, "i{}".format(i), data_name,
                             grow=(1, 3))
            before = snapshot(crop.location)

            # (1) not allowed: raises and nothing is touched
            try:
                quiet(crop.reap, clean_up=clean_up)
            except XYZError as e:
                check(str(e) == NOT_READY, msg + ": " + str(e))
            else:
                check(False, msg + ": should have raised")
            check(snapshot(crop.location) == before, msg + ": files changed")
            check(not os.path.exists(data_name), msg + ": data written")

            # (2) allowed: nan filled, deleted only on explicit request
            if kind in ("plain", "runner"):
                res = quiet(crop.reap, clean_up=clean_up,
                            allow_incomplete=True)
                check_partial_result(kind, res, msg + " partial")
                deleted = not os.path.exists(crop.location)
                check(deleted == (clean_up is True), msg + " partial delete")
                if deleted:
                    continue
                check(snapshot(crop.location) == before, msg)
            elif clean_up is not True:
                res = quiet(crop.reap, clean_up=clean_up, sync=False,
                            allow_incomplete=True)
                check_partial_result(kind, res, msg + " partial")
                check(snapshot(crop.location) == before, msg)
                check(not os.path.exists(data_name), msg + ": synced")
                if kind == "harvester":
                    crop.farmer._full_ds = None
                else:
                    crop.farmer._full_df = None

            # (3) finish the work and retry: exact results, default clean up
            quiet(crop.grow_missing)
            res = quiet(crop.reap, clean_up=clean_up)
            check_full_result(kind, res, msg + " retry")
            deleted = not os.path.exists(crop.location)
            check(deleted == (clean_up is not False), msg + " retry delete")
            if kind in ("harvester", "sampler"):
                check(os.path.isfile(data_name), msg)
            if not deleted:
                crop.delete_all()


def waiting_reap(tmp):
    """``wait=True`` on an incomplete crop blocks until the results appear."""
    for kind in ("plain", "harvester"):
        data_name = os.path.join(tmp, "w-{}.h5".format(kind))
        crop = make_crop(kind, tmp, "w-" + kind, data_name, grow=(1,))
        out = {}

        def target():
            try:
                out["res"] = quiet(crop.reap, wait=True)
            except BaseException as e:  # pragma: no cover
                out["err"] = e

        t = threading.Thread(target=target)
        t.start()
        t.join(0.6)
        check(t.is_alive(), "wait: should still be waiting")
        check(os.path.isdir(crop.location), "wait: crop must exist")
        cropping.grow(3, crop=crop, verbosity=0)
        t.join(0.6)
        check(t.is_alive(), "wait: should still be waiting for batch 2")
        cropping.grow(2, crop=crop, verbosity=0)
        t.join(30)
        check(not t.is_alive() and "err" not in out, "wait: {}".format(out))
        check_full_result(kind, out["res"], "wait " + kind)
        check(not os.path.exists(crop.location), "wait: not cleaned up")


def unreadable_results(tmp):
    """Failures while loading results leave the crop alone; retry is exact."""
    for kind, clean_up in itertools.product(
        ("plain", "runner", "harvester", "sampler"), (None, True)
    ):
        msg = "unreadable {} clean_up={}".format(kind, clean_up)
        data_name = os.path.join(
            tmp, "u-{}-{}{}".format(kind, clean_up, data_ext(kind)))
        crop = make_crop(kind, tmp, "u-{}-{}".format(kind, clean_up),
                         data_name)
        pristine = snapshot(crop.location)

        def attempt(exc_type, text, **kwargs):
            before = snapshot(crop.location)
            try:
                quiet(crop.reap, clean_up=clean_up, **kwargs)
            except Exception as e:
                check(type(e) is exc_type,
                      msg + ": got {!r} wanted {}".format(e, exc_type))
                check(text in str(e), msg + ": message {!r}".format(str(e)))
            else:
                check(False, msg + ": should have raised " + str(exc_type))
            check(snapshot(crop.location) == before, msg + ": files changed")
            check(not os.path.exists(data_name), msg + ": data written")

        import pickle

        for b in (2, 3):
            rf = result_file(crop, b)
            good = pristine[os.path.relpath(rf, crop.location)]

            # truncated / garbage pickle
            with open(rf, "wb") as f:
                f.write(b"garbage")
            attempt(pickle.UnpicklingError, "")
            attempt(pickle.UnpicklingError, "", wait=True)

            # a result holding no data at all
            cropping.write_to_disk((), rf)
            attempt(ValueError, "Something not right: result {} contains no "
                    "data upon read from disk.".format(rf))
            cropping.write_to_disk(None, rf)
            attempt(ValueError, "Something not right: result {} contains no "
                    "data upon read from disk.".format(rf), wait=True)

            # not a file
            os.remove(rf)
            os.mkdir(rf)
            attempt(IsADirectoryError, "")
            attempt(ValueError, "{} is not a file.".format(rf), wait=True)
            os.rmdir(rf)

            with open(rf, "wb") as f:
                f.write(good)
            check(snapshot(crop.location) == pristine, msg + ": not restored")

        res = quiet(crop.reap, clean_up=clean_up)
        check_full_result(kind, res, msg + " retry")
        check(not os.path.exists(crop.location), msg + " retry: not deleted")
        if kind in ("harvester", "sampler"):
            check(os.path.isfile(data_name), msg + " retry: no data")


def wrong_description(tmp):
    """Dataset construction fails -> crop kept, corrected reap is exact."""
    for clean_up in (None, True):
        msg = "wrong description clean_up={}".format(clean_up)
        runner = xyz.Runner(fn2, var_names=["x"])
        crop = runner.Crop(name="wd-{}".format(clean_up), parent_dir=tmp,
                           batchsize=4)
        quiet(crop.sow_combos, COMBOS)
        quiet(crop.grow_missing)
        before = snapshot(crop.location)
        for method, kws in (
            (crop.reap, {}),
            (crop.reap_runner, {"runner": runner}),
            (crop.reap_combos_to_ds, {"var_names": ["x"]}),
        ):
            try:
                quiet(method, clean_up=clean_up, **kws)
            except Exception as e:
                check(isinstance(e, (ValueError, TypeError)), msg + repr(e))
            else:
                check(False, msg + ": should have raised")
            check(snapshot(crop.location) == before, msg + ": files changed")
        check(runner.last_ds is None, msg)

        # harvester wrapping the same wrong runner: nothing saved either
        data_name = os.path.join(tmp, "wd-{}.h5".format(clean_up))
        h = xyz.Harvester(runner, data_name)
        try:
            quiet(crop.reap_harvest, h, clean_up=clean_up)
        except Exception as e:
            check(isinstance(e, (ValueError, TypeError)), msg + repr(e))
        else:
            check(False, msg + ": should have raised")
        check(snapshot(crop.location) == before, msg + ": files changed")
        check(not os.path.exists(data_name), msg)

        # corrected description
        ds = quiet(crop.reap_combos_to_ds, var_names=["x", "y"],
                   clean_up=clean_up)
        check((ds["x"].values == np.array(EXPECTED)).all(), msg)
        check((ds["y"].values == [[0, -1], [1, 0], [2, 1]]).all(), msg)
        check(not os.path.exists(crop.location), msg + ": not deleted")

    # no farmer given to the farmer specific methods
    crop = make_crop("plain", tmp, "nofarmer")
    before = snapshot(crop.location)
    for method, text in (
        (crop.reap_harvest, "Cannot reap and harvest if no Harvester is set."),
        (crop.reap_samples, "Cannot reap samples without a 'Sampler'."),
    ):
        try:
            method(None, clean_up=True)
        except ValueError as e:
            check(str(e) == text, str(e))
        else:
            check(False, "should have raised")
        check(snapshot(crop.location) == before, "no farmer: files changed")
    crop.delete_all()
    check(not os.path.exists(crop.location), "delete_all")


def harvester_conflict(tmp):
    """Merge conflict with existing data: crop and data file untouched."""
    for clean_up in (None, True):
        msg = "conflict clean_up={}".format(clean_up)
        data_name = os.path.join(tmp, "hc-{}.h5".format(clean_up))
        conflicting = expected_ds().astype(float)
        conflicting["x"][1, 1] = -999.0
        conflicting.to_netcdf(data_name, engine="h5netcdf")
        with open(data_name, "rb") as f:
            data_before = f.read()

        crop = make_crop("harvester", tmp, "hc-{}".format(clean_up), data_name)
        before = snapshot(crop.location)
        try:
            quiet(crop.reap, clean_up=clean_up)
        except xr.MergeError:
            pass
        else:
            check(False, msg + ": should have raised MergeError")
        check(snapshot(crop.location) == before, msg + ": files changed")
        with open(data_name, "rb") as f:
            check(f.read() == data_before, msg + ": data file changed")
        check(not os.path.exists(data_name + ".tmp"), msg)
        crop.farmer._full_ds.close()

        # observe the ordering of merge+save vs. deletion on the retry
        events = []
        harvester = crop.farmer
        orig_add_ds = harvester.add_ds
        orig_delete_all = crop.delete_all

        def add_ds(*args, **kwargs):
            events.append(("add_ds:start", os.path.isdir(crop.location)))
            out = orig_add_ds(*args, **kwargs)
            events.append(("add_ds:end", snapshot(crop.location) == before))
            return out

        def delete_all():
            with xr.open_dataset(data_name, engine="h5netcdf") as ds:
                saved = float(ds["x"][1, 1])
            events.append(("delete_all", saved))
            return orig_delete_all()

        harvester.add_ds = add_ds
        crop.delete_all = delete_all
        ds = quiet(crop.reap, clean_up=clean_up, overwrite=True)
        check_full_result("harvester", ds, msg + " retry")
        check(events == [("add_ds:start", True), ("add_ds:end", True),
                         ("delete_all", 22.0)], msg + " {}".format(events))
        check(not os.path.exists(crop.location), msg + ": not deleted")
        with xr.open_dataset(data_name, engine="h5netcdf") as ds:
            check((ds["x"].values == np.array(EXPECTED)).all(), msg)

    # overwrite=False keeps old value but still counts as delivered
    data_name = os.path.join(tmp, "hc-keep.h5")
    conflicting.to_netcdf(data_name, engine="h5netcdf")
    crop = make_crop("harvester", tmp, "hc-keep", data_name)
    quiet(crop.reap, overwrite=False)
    check(not os.path.exists(crop.location), "overwrite=False: not deleted")
    with xr.open_dataset(data_name, engine="h5netcdf") as ds:
        check(float(ds["x"][1, 1]) == -999.0, "overwrite=False")
        check(float(ds["x"][0, 0]) == 11.0, "overwrite=False")


def save_errors(tmp):
    """The merged data cannot be saved: crop kept; fixed -> delivered."""
    for kind, clean_up in itertools.product(
        ("harvester", "sampler"), (None, True)
    ):
        msg = "save error {} clean_up={}".format(kind, clean_up)
        missing_dir = os.path.join(tmp, "nodir-{}-{}".format(kind, clean_up))
        data_name = os.path.join(missing_dir, "data" + data_ext(kind))
        crop = make_crop(kind, tmp, "se-{}-{}".format(kind, clean_up),
                         data_name)
        before = snapshot(crop.location)
        try:
            quiet(crop.reap, clean_up=clean_up)
        except OSError:
            pass
        else:
            check(False, msg + ": should have raised")
        check(snapshot(crop.location) == before, msg + ": files changed")
        check(not os.path.exists(missing_dir), msg)

        os.mkdir(missing_dir)
        if kind == "harvester":
            crop.farmer._full_ds = None
        res = quiet(crop.reap, clean_up=clean_up)
        check_full_result(kind, res, msg + " retry")
        check(not os.path.exists(crop.location), msg + ": not deleted")
        check(os.listdir(missing_dir) == ["data" + data_ext(kind)], msg)

    # sync=False: nothing to save, clean up as documented
    for kind, clean_up in itertools.product(
        ("harvester", "sampler"), (None, True, False)
    ):
        data_name = os.path.join(
            tmp, "ns-{}-{}{}".format(kind, clean_up, data_ext(kind)))
        crop = make_crop(kind, tmp, "ns-{}-{}".format(kind, clean_up),
                         data_name)
        res = quiet(crop.reap, clean_up=clean_up, sync=False)
        check_full_result(kind, res, "sync=False")
        check(not os.path.exists(data_name), "sync=False wrote data")
        check(os.path.exists(crop.location) == (clean_up is False),
              "sync=False clean_up={}".format(clean_up))


def reaper_direct(tmp):
    """Drive the low level ``Reaper`` directly."""
    Reaper = cropping.Reaper
    crop = make_crop("plain", tmp, "rd", grow=(1, 3))
    before = snapshot(crop.location)

    # default stand-in for the missing batch, sized like the sown batch
    sentinel = object()
    with Reaper(crop, 3, default_result=sentinel) as r:
        got = [r(a=0, b=0) for _ in range(6)]
    check(got == [11, 21, sentinel, sentinel, 13, 23], "reaper default")

    # ``None`` is a valid default
    with Reaper(crop, 3, default_result=None) as r:
        got = [r() for _ in range(6)]
    check(got == [11, 21, None, None, 13, 23], "reaper None default")

    # no default -> missing file error, lazily, at the missing batch
    r = Reaper(crop, 3)
    check([r(), r()] == [11, 21], "reaper lazy")
    try:
        r()
    except FileNotFoundError as e:
        check(e.filename == result_file(crop, 2), "reaper missing file")
    else:
        check(False, "reaper: should have raised")
    # the stream of results is finished after an error
    check(r.__exit__(None, None, None) is None, "reaper exit after error")

    # leaving early is an error
    try:
        with Reaper(crop, 3, default_result=1.0) as r:
            r()
    except XYZError as e:
        check(str(e) == "Not all results reaped!", str(e))
    else:
        check(False, "reaper: should have raised")

    # fewer batches than on disk is fine, bad ``num_batches`` is eager
    with Reaper(crop, 1) as r:
        check((r(), r()) == (11, 21), "reaper 1 batch")
    with Reaper(crop, 0) as r:
        pass
    try:
        Reaper(crop, None)
    except TypeError:
        pass
    else:
        check(False, "reaper: should have raised TypeError")

    # waiting for something that is not a file
    os.mkdir(result_file(crop, 2))
    with Reaper(crop, 3, wait=True, default_result=5.0) as r:
        check((r(), r()) == (11, 21), "reaper wait")
        try:
            r()
        except ValueError as e:
            check(str(e) == "{} is not a file.".format(result_file(crop, 2)),
                  str(e))
        else:
            check(False, "reaper: should have raised")
    # ... but without waiting a default takes its place
    with Reaper(crop, 3, default_result=5.0) as r:
        got = [r() for _ in range(6)]
    check(got == [11, 21, 5.0, 5.0, 13, 23], "reaper dir default")
    os.rmdir(result_file(crop, 2))

    check(snapshot(crop.location) == before, "reaper: files changed")

    # the helper functions
    check(cropping.calc_clean_up_default_res(crop, None, False)
          == (True, cropping._NO_DEFAULT), "calc 1")
    check(cropping.calc_clean_up_default_res(crop, False, False)
          == (False, cropping._NO_DEFAULT), "calc 2")
    cu, dr = cropping.calc_clean_up_default_res(crop, None, True)
    check(cu is False and math.isnan(dr), "calc 3")
    cu, dr = cropping.calc_clean_up_default_res(crop, True, True)
    check(cu is True and math.isnan(dr), "calc 4")
    check(cropping.check_ready_to_reap(crop, True, False) is None, "ready 1")
    check(cropping.check_ready_to_reap(crop, False, True) is None, "ready 2")
    try:
        cropping.check_ready_to_reap(crop, False, False)
    except XYZError:
        pass
    else:
        check(False, "check_ready_to_reap should raise")

    # nothing grown at all: cannot infer a stand-in result
    crop2 = make_crop("plain", tmp, "rd2", grow=())
    before2 = snapshot(crop2.location)
    for clean_up in (None, True, False):
        try:
            quiet(crop2.reap, allow_incomplete=True, clean_up=clean_up)
        except XYZError as e:
            check("at least one finished result" in str(e), str(e))
        else:
            check(False, "should have raised")
        check(snapshot(crop2.location) == before2, "rd2: files changed")


def main():
    tmp = tempfile.mkdtemp(prefix="xyz-c12-demo-")
    try:
        matrix_complete(tmp)
        matrix_incomplete(tmp)
        waiting_reap(tmp)
        unreadable_results(tmp)
        wrong_description(tmp)
        harvester_conflict(tmp)
        save_errors(tmp)
        reaper_direct(tmp)
    finally:
        shutil.rmtree(tmp, ignore_errors=True)
    print("PASS ({} checks)".format(NCHECKS[0]))


if __name__ == "__main__":
    main()
