"""Demo for C06 twin 2: the sow / reload side of a farmer-attached Crop.

Run as ``cd <worktree> && /venv/bin/python /path/to/demo.py``.

Checks what sowing writes to disk (settings incl. the function-less pickled
farmer, the function file, the batch files and how the cases -- with the
runner's constants and resources merged in -- are divided among them), how a
crop and its farmer are reloaded by name (here and in another process, with
the function re-attached), and that sow / grow / reap through all of that
reproduces a direct run / harvest / sample.
"""
import os
import sys

sys.path.insert(0, os.getcwd())

import glob
import pickle
import shutil
import subprocess
import tempfile
import warnings

import numpy as np
import pandas as pd
import xarray as xr

import xyzpy
from xyzpy import Runner, Harvester, Sampler
from xyzpy.gen import cropping
from xyzpy.gen.cropping import Crop, Sower, XYZError

assert os.path.dirname(os.path.dirname(os.path.abspath(xyzpy.__file__))) == (
    os.path.abspath(os.getcwd())
), xyzpy.__file__

warnings.simplefilter("ignore")


def fn(a, b, c=1, d=0, r=0):
    return a + 10 * b + 100 * c + 1000 * d + r, np.array([a, b, c]) * (1.0 + r)


def fn2(a, b, c=1, d=0, r=0):
    return a + 10 * b + 100 * c + 1000 * d + r, float(a * b) / (1 + r)


def make_runner():
    return Runner(
        fn,
        fn_args=("a", "b"),
        var_names=["s", "v"],
        var_dims={"v": ["t"]},
        var_coords={"t": [10, 20, 30]},
        constants={"c": 2, "d": 3},
        resources={"r": 0.5, "d": 9},
        attrs={"note": "hello"},
    )


def make_scalar_runner():
    return Runner(
        fn2,
        fn_args=("a", "b"),
        var_names=["s", "q"],
        constants={"c": 2},
        resources={"r": 1},
    )


def ds_same(x, y):
    assert isinstance(x, xr.Dataset) and isinstance(y, xr.Dataset)
    assert x.identical(y), "\n{}\n!=\n{}".format(x, y)
    assert x.attrs == y.attrs and list(x.attrs) == list(y.attrs)
    for k in x.variables:
        assert x[k].dtype == y[k].dtype, k


def df_same(x, y):
    pd.testing.assert_frame_equal(x, y, check_exact=True)


def raises(exc, call, match=None):
    try:
        call()
    except exc as e:
        assert type(e) is exc, type(e)
        if match is not None:
            assert match in str(e), str(e)
        return str(e)
    raise AssertionError("did not raise {}".format(exc))


def load(path):
    with open(path, "rb") as f:
        return pickle.load(f)


def listing(crop):
    return sorted(
        os.path.relpath(os.path.join(d, f), crop.location)
        for d, _, fs in os.walk(crop.location)
        for f in fs
    )


# deliberately not in sorted order: sowing sorts the combos by name
COMBOS = {"b": [5, 4], "a": [1, 2, 3]}
# what is compared against a direct run is given in sorted order
SORTED_COMBOS = {"a": [1, 2, 3], "b": [5, 4]}


def check_files_written(tmp):
    r = make_runner()
    crop = r.Crop(name="f1", parent_dir=tmp, num_batches=4)
    assert crop.location == os.path.join(tmp, ".xyz-f1")
    assert not crop.is_prepared()
    crop.sow_combos(COMBOS, constants={"c": 7, "e": 1}, verbosity=0)

    # exactly these files, no temporary files left behind
    assert listing(crop) == [
        "batches/xyz-batch-1.jbdmp",
        "batches/xyz-batch-2.jbdmp",
        "batches/xyz-batch-3.jbdmp",
        "batches/xyz-batch-4.jbdmp",
        "xyz-function.clpkl",
        "xyz-settings.jbdmp",
    ], listing(crop)
    assert os.path.isdir(os.path.join(crop.location, "results"))

    # the settings
    info = load(os.path.join(crop.location, "xyz-settings.jbdmp"))
    assert list(info) == [
        "combos",
        "cases",
        "fn_args",
        "constants",
        "batchsize",
        "num_batches",
        "_batch_remainder",
        "shuffle",
        "farmer",
    ], list(info)
    assert info["combos"] == [("a", [1, 2, 3]), ("b", [5, 4])]
    assert info["cases"] == ()
    assert info["fn_args"] is None
    assert info["constants"] == {"c": 7, "e": 1}
    assert list(info["constants"]) == ["c", "e"]
    assert (info["batchsize"], info["num_batches"]) == (1, 4)
    assert info["_batch_remainder"] == 2
    assert info["shuffle"] is False
    assert isinstance(info["farmer"], bytes)
    stored = cropping.from_pickle(info["farmer"])
    assert type(stored) is Runner and stored.fn is None
    assert stored._constants == {"c": 2, "d": 3}
    assert stored._resources == {"r": 0.5, "d": 9}
    assert stored._var_names == r._var_names
    assert stored._var_dims == r._var_dims
    assert stored._attrs == {"note": "hello"}
    assert stored._fn_args == ("a", "b")
    # the live farmer was not stripped of its function
    assert r.fn is fn and crop.fn is fn and crop.farmer is r

    # the function
    stored_fn = cropping.from_pickle(
        load(os.path.join(crop.location, "xyz-function.clpkl"))
    )
    assert stored_fn(1, 2)[0] == fn(1, 2)[0]

    # the batches: remainder spread over the first batches, kwargs carry
    # resources, then constants, with sow-time constants taking precedence
    batches = [
        load(os.path.join(crop.location, "batches", "xyz-batch-%d.jbdmp" % i))
        for i in (1, 2, 3, 4)
    ]
    assert [len(b) for b in batches] == [2, 2, 1, 1]
    flat = [kw for b in batches for kw in b]
    assert [(kw["a"], kw["b"]) for kw in flat] == [
        (a, b) for a in (1, 2, 3) for b in (5, 4)
    ]
    for kw in flat:
        assert isinstance(kw, dict)
        assert {k: kw[k] for k in "rdce"} == {"r": 0.5, "d": 3, "c": 7, "e": 1}
        assert [k for k in kw if k in "rdce"] == ["r", "d", "c", "e"], list(kw)

    # Crop.parse_constants itself
    assert crop.parse_constants() == {"r": 0.5, "d": 3, "c": 2}
    assert list(crop.parse_constants()) == ["r", "d", "c"]
    got = crop.parse_constants({"z": 0, "r": 8})
    assert got == {"r": 8, "d": 3, "c": 2, "z": 0}
    assert list(got) == ["r", "d", "c", "z"]
    assert list(crop.parse_constants([("d", 1), ("q", 2)]).items()) == [
        ("r", 0.5),
        ("d", 1),
        ("c", 2),
        ("q", 2),
    ]
    assert r._constants == {"c": 2, "d": 3}
    assert r._resources == {"r": 0.5, "d": 9}
    bare = Crop(fn=fn, name="bare", parent_dir=tmp)
    given = {"x": 1}
    assert bare.parse_constants(given) is given
    assert bare.parse_constants() == {}

    # fn raising for the unknown constant 'e' aside, resow in place with a
    # different division: the old settings are replaced, results untouched
    crop.sow_combos(COMBOS, batchsize=3, num_batches=2, verbosity=0)
    assert listing(crop)[:2] == [
        "batches/xyz-batch-1.jbdmp",
        "batches/xyz-batch-2.jbdmp",
    ]
    info = load(os.path.join(crop.location, "xyz-settings.jbdmp"))
    assert info["constants"] == {}
    assert (info["batchsize"], info["num_batches"]) == (3, 2)
    assert [
        len(load(os.path.join(crop.location, "batches", cropping.BTCH_NM.format(i))))
        for i in (1, 2)
    ] == [4, 2]  # the remainder of the first sow (2) is still in force
    assert info["_batch_remainder"] == 2
    crop.delete_all()

    # both given and never divided: remainder unknown -> the sower's own
    # comparison fails (after the settings were written)
    crop = make_runner().Crop(name="f2", parent_dir=tmp, batchsize=3, num_batches=2)
    raises(TypeError, lambda: crop.sow_combos(COMBOS, verbosity=0))
    # ... and the sower flushes the single case it had taken on its way out
    assert listing(crop) == [
        "batches/xyz-batch-1.jbdmp",
        "xyz-function.clpkl",
        "xyz-settings.jbdmp",
    ], listing(crop)
    b1 = load(os.path.join(crop.location, "batches", "xyz-batch-1.jbdmp"))
    assert b1 == [{"a": 1, "b": 5, "r": 0.5, "d": 3, "c": 2}], b1
    assert list(b1[0]) == ["a", "b", "r", "d", "c"]
    crop.delete_all()

    # no farmer: farmer entry is None; save_fn=False: no function file
    crop = Crop(fn=fn, name="f3", parent_dir=tmp, save_fn=False, batchsize=4)
    crop.sow_combos(COMBOS, constants={"c": 1}, shuffle=3, verbosity=0)
    info = load(os.path.join(crop.location, "xyz-settings.jbdmp"))
    assert info["farmer"] is None and info["shuffle"] == 3
    assert listing(crop) == [
        "batches/xyz-batch-1.jbdmp",
        "batches/xyz-batch-2.jbdmp",
        "xyz-settings.jbdmp",
    ]
    b1 = load(os.path.join(crop.location, "batches", "xyz-batch-1.jbdmp"))
    assert len(b1) == 4 and list(b1[0]) == ["a", "b", "c"]
    crop.delete_all()

    # the Sower on its own
    crop = Crop(fn=fn, name="f4", parent_dir=tmp, batchsize=2)
    crop.choose_batch_settings(combos=[("a", [1, 2, 3, 4, 5])])
    crop.ensure_dirs_exists()
    with Sower(crop) as s:
        for i in range(5):
            s(a=i)
            assert s._batch_counter == (i + 1) // 2
    assert s._batch_counter == 3 and s._batch_cases == [] and s._counter == 0
    assert load(os.path.join(crop.location, "batches", "xyz-batch-3.jbdmp")) == [
        {"a": 4}
    ]
    crop.delete_all()


def check_reload(tmp):
    r = make_runner()
    crop = r.Crop(name="l1", parent_dir=tmp, batchsize=4)
    crop.sow_combos(COMBOS, verbosity=0)

    # by name: farmer unpickled, function re-attached from disk
    c2 = Crop(name="l1", parent_dir=tmp)
    assert (c2.batchsize, c2.num_batches, c2._batch_remainder) == (4, 2, 0)
    assert type(c2.farmer) is Runner and c2.farmer is not r
    assert c2.fn is not None and c2.farmer.fn is c2.fn and c2.runner is c2.farmer
    assert c2.fn(1, 2)[0] == fn(1, 2)[0]
    assert c2.save_fn is True

    # a crop that has its own farmer keeps it (and its function)
    r3 = make_runner()
    c3 = r3.Crop(name="l1", parent_dir=tmp)
    assert c3.farmer is r3 and c3.fn is fn
    assert (c3.batchsize, c3.num_batches) == (4, 2)
    # ... unless told to take all from disk: but then the function clashes
    c3._fn = None
    msg = raises(XYZError, c3._sync_info_from_disk)
    assert msg.startswith("Trying to load this Crop's function, <function fn")
    assert "from disk but its farmer already has a function set: " in msg
    assert msg.endswith("{}.".format(fn)), msg
    assert c3.farmer is r3

    c4 = make_runner().Crop(name="l1", parent_dir=tmp)
    c4._fn = None
    c4.farmer.fn = None
    c4._sync_info_from_disk(only_missing=False)
    assert c4.farmer is not None and c4.farmer.fn is c4.fn is not None

    # explicit load_function without a farmer
    c5 = Crop(name="l1", parent_dir=tmp, autoload=False)
    assert c5.farmer is None and c5.fn is None and c5.batchsize is None
    c5.load_function()
    assert c5.fn(1, 2)[0] == fn(1, 2)[0] and c5.farmer is None

    # missing settings key order of failure: removing the function file
    os.remove(os.path.join(crop.location, "xyz-function.clpkl"))
    raises(FileNotFoundError, lambda: Crop(name="l1", parent_dir=tmp))
    crop.delete_all()
    raises(XYZError, Crop(name="l1", parent_dir=tmp).load_info, "Settings can't")

    # grow + reap through reloaded crops give the direct result
    direct = make_runner().run_combos(SORTED_COMBOS, constants={"d": 1}, verbosity=0)
    crop = make_runner().Crop(name="l2", parent_dir=tmp, num_batches=4)
    crop.sow_combos(SORTED_COMBOS, constants={"d": 1}, shuffle=True, verbosity=0)
    Crop(name="l2", parent_dir=tmp).grow((1, 2), verbosity=0)
    Crop(name="l2", parent_dir=tmp).grow_missing(verbosity=0)
    c = Crop(name="l2", parent_dir=tmp)
    out = c.reap()
    ds_same(out, direct)
    assert c.farmer.last_ds is out
    assert out.attrs == {"note": "hello", "c": 2, "d": 1}


CHILD = r"""
import os, sys, pickle
sys.path.insert(0, os.getcwd())
import warnings
warnings.simplefilter("ignore")
import xyzpy
from xyzpy.gen.cropping import Crop, grow
mode, name, parent, out = sys.argv[1:5]
crop = Crop(name=name, parent_dir=parent)
assert crop.farmer is not None and crop.farmer.fn is crop.fn is not None
if mode == "grow":
    for i in crop.missing_results():
        grow(i, crop=crop, verbosity=0)
elif mode == "growcwd":
    os.chdir(crop.location)
    for i in crop.missing_results():
        grow(i, verbosity=0)
else:
    res = crop.reap()
    with open(out, "wb") as f:
        pickle.dump((type(crop.farmer).__name__, res), f)
"""


def child(mode, name, parent, out):
    subprocess.run(
        [sys.executable, "-c", CHILD, mode, name, parent, out],
        check=True,
        cwd=os.getcwd(),
        stderr=subprocess.DEVNULL,
    )


def check_other_process(tmp):
    out = os.path.join(tmp, "child.pkl")

    # Runner, cases + sub-combos, fn_args taken from the runner
    cases = [(7, 1), (8, 2), (9, 3)]
    direct = make_runner().run_cases(cases, verbosity=0)
    crop = make_runner().Crop(name="p1", parent_dir=tmp, batchsize=2)
    crop.sow_cases(None, cases, verbosity=0)
    info = crop.load_info()
    assert info["fn_args"] == ("a", "b")
    assert [dict(c) for c in info["cases"]] == [
        {"a": 7, "b": 1}, {"a": 8, "b": 2}, {"a": 9, "b": 3}
    ]
    b2 = load(os.path.join(crop.location, "batches", "xyz-batch-2.jbdmp"))
    assert b2 == [{"a": 9, "b": 3, "r": 0.5, "d": 3, "c": 2}]
    assert list(b2[0]) == ["a", "b", "r", "d", "c"]
    child("growcwd", "p1", tmp, out)
    child("reap", "p1", tmp, out)
    kind, res = load(out)
    assert kind == "Runner"
    ds_same(res, direct)
    assert not os.path.exists(crop.location)

    # Harvester
    f1 = os.path.join(tmp, "pd.h5")
    f2 = os.path.join(tmp, "pc.h5")
    h1 = Harvester(make_runner(), data_name=f1)
    h1.harvest_combos({"a": [1], "b": [1, 2]}, verbosity=0)
    h1.harvest_combos(SORTED_COMBOS, constants={"c": 4}, verbosity=0, overwrite=True)
    h1._full_ds.close()
    h2 = Harvester(make_runner(), data_name=f2)
    for i, (combos, consts) in enumerate(
        [({"a": [1], "b": [1, 2]}, None), (SORTED_COMBOS, {"c": 4})]
    ):
        crop = h2.Crop(name="p2", parent_dir=tmp, num_batches=2)
        crop.sow_combos(combos, constants=consts, verbosity=0)
        stored = cropping.from_pickle(crop.load_info()["farmer"])
        assert type(stored) is Harvester and stored.fn is None
        assert stored.data_name == f2 and stored._full_ds is None
        assert h2.fn is fn
        child("grow", "p2", tmp, out)
        if i == 0:
            child("reap", "p2", tmp, out)
            kind, res = load(out)
            assert kind == "Harvester"
        else:
            res = Crop(name="p2", parent_dir=tmp).reap(overwrite=True)
        assert not os.path.exists(crop.location)
    ds_same(res, h1.last_ds)
    a, b = xyzpy.load_ds(f2), xyzpy.load_ds(f1)
    ds_same(a, b)
    a.close()
    b.close()

    # Sampler
    spec = {"a": [1, 2, 3], "b": lambda: int(np.random.randint(50))}
    f1 = os.path.join(tmp, "pd.pkl")
    f2 = os.path.join(tmp, "pc.pkl")
    s1 = Sampler(make_scalar_runner(), f1, spec)
    s2 = Sampler(make_scalar_runner(), f2, spec)
    for i in range(2):
        np.random.seed(3 + i)
        d = s1.sample_combos(5, verbosity=0)
        np.random.seed(3 + i)
        crop = s2.Crop(name="p3", parent_dir=tmp, batchsize=2)
        crop.sow_samples(5, verbosity=0)
        info = crop.load_info()
        assert info["fn_args"] == ("a", "b") and len(info["cases"]) == 5
        assert type(cropping.from_pickle(info["farmer"])) is Sampler
        assert len(glob.glob(os.path.join(crop.location, "batches", "*"))) == 3
        child("grow", "p3", tmp, out)
        child("reap", "p3", tmp, out)
        kind, res = load(out)
        assert kind == "Sampler"
        df_same(res, d)
        df_same(xyzpy.load_df(f2), xyzpy.load_df(f1))
    assert len(xyzpy.load_df(f2)) == 10


def main():
    cwd_before = sorted(os.listdir("."))
    tmp = tempfile.mkdtemp(prefix="c06-t2-")
    try:
        check_files_written(tmp)
        check_reload(tmp)
        check_other_process(tmp)
    finally:
        shutil.rmtree(tmp, ignore_errors=True)
    assert sorted(os.listdir(".")) == cwd_before
    print("PASS")


if __name__ == "__main__":
    main()
