"""Demo / check for property C07 (batches partition the work exactly).

Run as ``cd <worktree> && /venv/bin/python /path/to/demo.py``.
Prints PASS and exits 0 when every check holds.
"""
import sys
import os

sys.path.insert(0, os.getcwd())

import glob
import itertools
import math
import pickle
import shutil
import tempfile

import xyzpy
from xyzpy.gen import cropping
from xyzpy.gen.cropping import Crop, Sower

assert os.path.dirname(os.path.dirname(os.path.abspath(xyzpy.__file__))) == \
    os.path.abspath(os.getcwd()), xyzpy.__file__


def fn(a, b=0, c=0, r=None):
    return a + b + c


def freeze(kws):
    return tuple(sorted(kws.items()))


def read_batches(crop):
    """Return {batch_id: list_of_kwargs} straight from the files on disk."""
    out = {}
    bdir = os.path.join(crop.location, "batches")
    for fname in os.listdir(bdir):
        assert fname.startswith("xyz-batch-") and fname.endswith(".jbdmp"), \
            fname  # no stray / temporary files left behind
        bid = int(fname[len("xyz-batch-"):-len(".jbdmp")])
        with open(os.path.join(bdir, fname), "rb") as f:
            out[bid] = pickle.load(f)
    return out


def direct_settings(combos=None, cases=None, constants=None, shuffle=False):
    """The keyword arguments a direct (non batched) run passes, in order."""
    seen = []

    def rec(**kws):
        seen.append(kws)
        return 0

    xyzpy.gen.combo_runner.combo_runner_core(
        rec, combos=combos, cases=cases, constants=constants or {},
        shuffle=shuffle, verbosity=0, flat=True,
    )
    return seen


def check_crop(crop, expected, mode, req, tmpdir):
    """mode is 'batchsize' or 'num_batches', req the requested value."""
    n = len(expected)
    batches = read_batches(crop)
    nb = len(batches)

    # ids 1..B, no gaps, none empty
    assert sorted(batches) == list(range(1, nb + 1)), sorted(batches)
    sizes = [len(batches[i]) for i in range(1, nb + 1)]
    assert all(s >= 1 for s in sizes), sizes

    # concatenating the batches in id order gives exactly the direct run
    flat = [kws for i in range(1, nb + 1) for kws in batches[i]]
    assert flat == expected, (flat, expected)
    # ... with the keyword arguments in the same order too
    assert [list(k) for k in flat] == [list(k) for k in expected]
    assert len(set(map(freeze, flat))) == n

    if mode == "batchsize":
        assert nb == math.ceil(n / req), (n, req, nb)
        assert max(sizes) <= req
        # all full but the last
        assert sizes[:-1] == [req] * (nb - 1)
        assert crop.batchsize == req
        assert crop._batch_remainder == 0
    else:
        assert nb == min(req, n), (n, req, nb)
        assert max(sizes) - min(sizes) <= 1
        # larger batches come first
        assert sizes == sorted(sizes, reverse=True)
        q, r = divmod(n, nb)
        assert sizes == [q + 1] * r + [q] * (nb - r)
        assert crop.batchsize == q
        assert crop._batch_remainder == r

    assert crop.num_batches == nb
    assert crop.num_sown_batches == nb
    assert crop.num_results == 0
    assert crop.missing_results() == tuple(range(1, nb + 1))

    # and reloaded from disk
    crop2 = Crop(name=crop.name, parent_dir=tmpdir)
    assert (crop2.batchsize, crop2.num_batches, crop2._batch_remainder) == \
        (crop.batchsize, crop.num_batches, crop._batch_remainder)
    assert crop2.num_sown_batches == nb
    assert repr(crop2) == repr(crop)
    info = crop2.load_info()
    assert info["batchsize"] == crop.batchsize
    assert info["num_batches"] == nb
    assert info["_batch_remainder"] == crop._batch_remainder
    return crop2


def grid_for(n):
    """Some grids (as combos) with exactly n points."""
    grids = [{"a": list(range(n))}]
    for p in (2, 3, 4):
        if n % p == 0 and n > p:
            grids.append({"b": list(range(p)), "a": list(range(n // p))})
    return grids


counter = itertools.count()


def run_sweep(tmpdir, nmax):
    nchecked = 0
    for n in range(1, nmax + 1):
        shuffles = (False, True, 7) if n <= 12 else ((False, 3)[n % 2],)
        requests = [("batchsize", s) for s in range(1, n + 2)]
        requests += [("num_batches", k) for k in range(1, n + 3)]
        for (mode, req), shuffle in itertools.product(requests, shuffles):
            variant = next(counter) % 6
            name = "c{}".format(next(counter))
            opts = {mode: req}

            if variant in (0, 1):
                # plain grid, options given to the Crop
                combos = grid_for(n)[variant % len(grid_for(n))]
                consts = {"c": 10} if variant else None
                crop = Crop(fn=fn, name=name, parent_dir=tmpdir, **opts)
                crop.sow_combos(combos, constants=consts, shuffle=shuffle,
                                verbosity=0)
                pc = sorted(xyzpy.gen.prepare.parse_combos(combos))
                expected = direct_settings(
                    combos=pc, constants=consts, shuffle=shuffle)
            elif variant == 2:
                # grid, options given at sow time
                combos = grid_for(n)[-1]
                crop = Crop(fn=fn, name=name, parent_dir=tmpdir)
                crop.sow_combos(combos, shuffle=shuffle, verbosity=0, **opts)
                pc = sorted(xyzpy.gen.prepare.parse_combos(combos))
                expected = direct_settings(combos=pc, shuffle=shuffle)
            elif variant == 3:
                # case list (shuffle is a crop level option here)
                cases = [(i, 2 * i) for i in range(n)]
                crop = Crop(fn=fn, name=name, parent_dir=tmpdir,
                            shuffle=shuffle, **opts)
                crop.sow_cases(("a", "b"), cases, constants={"c": 1},
                               verbosity=0)
                expected = direct_settings(
                    cases=[{"a": i, "b": 2 * i} for i in range(n)],
                    constants={"c": 1}, shuffle=shuffle)
            elif variant == 4:
                # farmer provided constants and resources + sown constants
                runner = xyzpy.Runner(fn, var_names="out",
                                      constants={"b": 5},
                                      resources={"r": "res"})
                crop = runner.Crop(name=name, parent_dir=tmpdir, **opts)
                crop.sow_combos({"a": range(n)}, constants={"c": 2},
                                shuffle=shuffle, verbosity=0)
                expected = direct_settings(
                    combos=(("a", tuple(range(n))),),
                    constants={"r": "res", "b": 5, "c": 2}, shuffle=shuffle)
            else:
                # farmer + cases mixed with combos when n is even
                runner = xyzpy.Runner(fn, var_names="out", fn_args=("a", "b"),
                                      constants={"c": 3},
                                      resources={"r": None})
                crop = runner.Crop(name=name, parent_dir=tmpdir,
                                   shuffle=shuffle)
                if n % 2 == 0:
                    cases = [(i,) for i in range(n // 2)]
                    combos = (("b", (0, 1)),)
                    crop.sow_cases(("a",), cases, combos=combos, verbosity=0,
                                   **opts)
                    expected = direct_settings(
                        cases=[{"a": i} for i in range(n // 2)],
                        combos=combos, constants={"r": None, "c": 3},
                        shuffle=shuffle)
                else:
                    cases = [(i, -i) for i in range(n)]
                    crop.sow_cases(None, cases, verbosity=0, **opts)
                    expected = direct_settings(
                        cases=[{"a": i, "b": -i} for i in range(n)],
                        constants={"r": None, "c": 3}, shuffle=shuffle)

            assert len(expected) == n
            check_crop(crop, expected, mode, req, tmpdir)
            nchecked += 1
            shutil.rmtree(crop.location)
    return nchecked


def raises(exc, f, *args, **kwargs):
    try:
        f(*args, **kwargs)
    except exc as e:
        return e
    raise AssertionError("{} not raised".format(exc))


def check_edges(tmpdir):
    combos = {"a": range(7)}
    expected = direct_settings(combos=(("a", tuple(range(7))),))

    # default is batchsize=1
    crop = Crop(fn=fn, name="default", parent_dir=tmpdir)
    assert (crop.batchsize, crop.num_batches, crop._batch_remainder) == \
        (None, None, None)
    crop.sow_combos(combos, verbosity=0)
    check_crop(crop, expected, "batchsize", 1, tmpdir)

    # bad values: type and range checks, and what is left on the crop
    for opts, exc, msg, after in [
        ({"batchsize": 0}, ValueError, "`batchsize` must be >= 1.",
         (0, None, None)),
        ({"batchsize": -3}, ValueError, "`batchsize` must be >= 1.",
         (-3, None, None)),
        ({"batchsize": 2.0}, TypeError, "`batchsize` must be an integer.",
         (2.0, None, None)),
        ({"batchsize": "2"}, TypeError, "`batchsize` must be an integer.",
         ("2", None, None)),
        ({"num_batches": 0}, ValueError, "`num_batches` must be >= 1.",
         (None, 0, None)),
        ({"num_batches": -1}, ValueError, "`num_batches` must be >= 1.",
         (None, -1, None)),
        ({"num_batches": 2.5}, TypeError, "`num_batches` must be an integer.",
         (None, 2.5, None)),
        ({"num_batches": 3.0}, TypeError, "`num_batches` must be an integer.",
         (None, 3.0, None)),
        ({"batchsize": 2, "num_batches": 2}, ValueError, "cannot both",
         (2, 2, None)),
        ({"batchsize": 2, "num_batches": 5}, ValueError, "cannot both",
         (2, 5, None)),
    ]:
        for how in ("init", "sow"):
            nm = "bad-{}".format(next(counter))
            if how == "init":
                crop = Crop(fn=fn, name=nm, parent_dir=tmpdir, **opts)
                e = raises(exc, crop.sow_combos, combos, verbosity=0)
            else:
                crop = Crop(fn=fn, name=nm, parent_dir=tmpdir)
                e = raises(exc, crop.sow_combos, combos, verbosity=0, **opts)
            assert msg in str(e), (opts, str(e))
            assert (crop.batchsize, crop.num_batches,
                    crop._batch_remainder) == after, opts
            # nothing was written
            assert not os.path.exists(crop.location)

    # a too large float num_batches is capped by ``min`` first -> int n
    crop = Crop(fn=fn, name="bigfloat", parent_dir=tmpdir, num_batches=1e9)
    crop.sow_combos(combos, verbosity=0)
    check_crop(crop, expected, "num_batches", 10**9, tmpdir)
    # un-orderable num_batches fails inside min()
    crop = Crop(fn=fn, name="strnb", parent_dir=tmpdir, num_batches="3")
    e = raises(TypeError, crop.sow_combos, combos, verbosity=0)
    assert "must be an integer" not in str(e)
    assert crop.num_batches == "3" and crop.batchsize is None

    # both given and consistent on a fresh crop: accepted by
    # choose_batch_settings, but no remainder is known so the Sower fails on
    # the first setting (which is still flushed as a partial batch)
    crop = Crop(fn=fn, name="both", parent_dir=tmpdir, batchsize=2,
                num_batches=4)
    raises(TypeError, crop.sow_combos, combos, verbosity=0)
    both_state = (crop.batchsize, crop.num_batches, crop._batch_remainder)
    assert both_state == (2, 4, None)
    both_batches = read_batches(crop)
    assert both_batches == {1: [{"a": 0}]}

    # re-sowing a reloaded crop: settings (incl. remainder) come from disk
    crop = Crop(fn=fn, name="resow", parent_dir=tmpdir, num_batches=3)
    crop.sow_combos(combos, verbosity=0)
    crop = check_crop(crop, expected, "num_batches", 3, tmpdir)
    assert (crop.batchsize, crop.num_batches, crop._batch_remainder) == \
        (2, 3, 1)
    crop.sow_combos(combos, verbosity=0)  # same size -> consistent
    check_crop(crop, expected, "num_batches", 3, tmpdir)
    # a different total number of settings is rejected
    e = raises(ValueError, crop.sow_combos, {"a": range(12)}, verbosity=0)
    assert "cannot both" in str(e)
    e = raises(ValueError, crop.sow_combos, {"a": range(4)}, verbosity=0)
    assert "cannot both" in str(e)
    # the old batches are untouched by the failed attempts
    check_crop(crop, expected, "num_batches", 3, tmpdir)
    # n=8: 2*3+1 = 7 < 8 rejected, n=6: 6 <= 7 < 8 accepted
    raises(ValueError, crop.sow_combos, {"a": range(8)}, verbosity=0)
    crop.sow_combos({"a": range(6)}, verbosity=0)
    got = read_batches(crop)
    assert [len(got[i]) for i in sorted(got)] == [3, 2, 1], got

    # choose_batch_settings on its own, incl. empty / missing inputs
    for kwargs, n in [
        ({}, 1),
        ({"combos": ()}, 1),
        ({"cases": ()}, 1),
        ({"combos": (("a", (1, 2, 3)), ("b", (1, 2)))}, 6),
        ({"cases": ({"a": 1},) * 5}, 5),
        ({"combos": (("b", (1, 2)),), "cases": ({"a": 1},) * 5}, 10),
        ({"combos": (("b", ()),), "cases": ({"a": 1},) * 5}, 0),
    ]:
        for bs in (None, 1, 3, 4, 11):
            c = Crop(name="cbs", parent_dir=tmpdir, batchsize=bs)
            c.choose_batch_settings(**kwargs)
            ebs = 1 if bs is None else bs
            assert (c.batchsize, c.num_batches, c._batch_remainder) == \
                (ebs, math.ceil(n / ebs), 0), (kwargs, bs)
            assert type(c.num_batches) is int
        for k in (1, 3, 4, 11):
            c = Crop(name="cbs", parent_dir=tmpdir, num_batches=k)
            if n == 0:
                e = raises(ValueError, c.choose_batch_settings, **kwargs)
                assert "`num_batches` must be >= 1." in str(e)
                assert (c.batchsize, c.num_batches) == (None, 0)
                continue
            c.choose_batch_settings(**kwargs)
            kk = min(k, n)
            assert (c.batchsize, c.num_batches, c._batch_remainder) == \
                (n // kk, kk, n % kk), (kwargs, k)
        if n:
            # second call: both now set, consistent thanks to the remainder
            before = (c.batchsize, c.num_batches, c._batch_remainder)
            assert c.choose_batch_settings(**kwargs) is None
            assert before == (c.batchsize, c.num_batches, c._batch_remainder)
    raises(TypeError, Crop(name="cbs", parent_dir=tmpdir)
           .choose_batch_settings, ("a",))  # keyword only

    # the Sower on its own: files appear exactly when a batch fills up
    for bs, rem, n, sizes in [
        (2, 0, 5, [2, 2, 1]),
        (2, 1, 5, [3, 2]),
        (1, 2, 5, [2, 2, 1]),
        (3, 0, 6, [3, 3]),
        (0, 3, 3, [1, 1, 1]),
        (4, 0, 0, []),
    ]:
        c = Crop(name="sower-{}".format(next(counter)), parent_dir=tmpdir)
        c.batchsize, c._batch_remainder = bs, rem
        c.ensure_dirs_exists()
        sower = Sower(c)
        trace = []
        with sower as s:
            assert s is sower
            for i in range(n):
                assert s(x=i, y=-i) is None
                trace.append((len(read_batches(c)), s._counter,
                              s._batch_counter, len(s._batch_cases)))
        got = read_batches(c)
        assert [len(got[i]) for i in sorted(got)] == sizes, (bs, rem, got)
        assert sorted(got) == list(range(1, len(sizes) + 1))
        assert [k for i in sorted(got) for k in got[i]] == \
            [{"x": i, "y": -i} for i in range(n)]
        assert (sower._counter, sower._batch_counter, sower._batch_cases) \
            == (0, len(sizes), [])
        # expected trace
        etrace, done, cur = [], 0, 0
        for i in range(n):
            cur += 1
            if cur == bs + (done < rem):
                done, cur = done + 1, 0
            etrace.append((done, cur, done, cur))
        assert trace == etrace, (trace, etrace)
    # without a remainder set the sower can't decide
    c = Crop(name="sower-none", parent_dir=tmpdir)
    c.batchsize = 2
    c.ensure_dirs_exists()
    sower = Sower(c)
    raises(TypeError, sower, x=1)
    assert sower._batch_cases == [{"x": 1}] and sower._counter == 1
    # an error while sowing still flushes the partial batch
    c.batchsize, c._batch_remainder = 3, 0
    try:
        with Sower(c) as s:
            s(x=1)
            raise KeyError("boom")
    except KeyError:
        pass
    assert read_batches(c) == {1: [{"x": 1}]}

    # sow_samples goes through sow_cases
    sampler = xyzpy.Sampler(xyzpy.Runner(fn, var_names="out"),
                            default_combos={"a": [1, 2, 3], "b": [4, 5]})
    crop = sampler.Crop(name="samples", parent_dir=tmpdir, num_batches=4)
    crop.sow_samples(10, verbosity=0)
    got = read_batches(crop)
    assert [len(got[i]) for i in sorted(got)] == [3, 3, 2, 2]
    assert (crop.batchsize, crop.num_batches, crop._batch_remainder) == \
        (2, 4, 2)

    # full cycle still gives the right answer
    runner = xyzpy.Runner(fn, var_names="out", constants={"c": 100})
    crop = runner.Crop(name="cycle", parent_dir=tmpdir, num_batches=4)
    crop.sow_combos({"a": range(5), "b": range(2)}, shuffle=3, verbosity=0)
    assert crop.num_sown_batches == 4
    crop.grow_missing(verbosity=0)
    ds = crop.reap()
    for a in range(5):
        for b in range(2):
            assert int(ds["out"].sel(a=a, b=b)) == a + b + 100
    return both_state, both_batches


def main():
    nmax = int(os.environ.get("C07_DEMO_NMAX", "48"))
    tmpdir = tempfile.mkdtemp(prefix="c07-demo-")
    try:
        nchecked = run_sweep(tmpdir, nmax)
        state = check_edges(tmpdir)
        # no temporary files anywhere
        assert not glob.glob(os.path.join(tmpdir, "**", "*.tmp"),
                             recursive=True)
    finally:
        shutil.rmtree(tmpdir, ignore_errors=True)
    print("checked {} sown crops; both-given state: {}".format(
        nchecked, state[0]))
    print("PASS")


if __name__ == "__main__":
    main()
