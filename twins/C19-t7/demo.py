"""C19 / t7 demo: estimate_from_repeats and the RunningStatistics it reports.

Run as ``cd <worktree> && /venv/bin/python /path/to/demo.py``.
"""
import os
import sys

sys.path.insert(0, os.getcwd())

import contextlib
import io
import itertools
import shutil
import tempfile

import numpy as np

import xyzpy
import xyzpy.utils as xu
from xyzpy import (
    RunningStatistics,
    estimate_from_repeats,
    format_number_with_error,
)

assert os.path.dirname(os.path.abspath(xyzpy.__file__)) == os.path.join(
    os.getcwd(), "xyzpy"
), xyzpy.__file__

CHECKS = [0]


def check(cond, msg):
    CHECKS[0] += 1
    if not cond:
        raise AssertionError(msg)


class Ref:
    """Independent copy of the documented recurrence (bit exact)."""

    def __init__(self):
        self.count = 0
        self.mean = 0.0
        self.M2 = 0.0

    def update(self, x):
        self.count += 1
        delta = x - self.mean
        self.mean += delta / self.count
        self.M2 += delta * (x - self.mean)

    @property
    def err(self):
        return ((self.M2 / self.count) ** 0.5) / self.count**0.5


def same_state(rs, ref, what):
    check(type(rs) is RunningStatistics, what + ": type")
    check(rs.count == ref.count, f"{what}: count {rs.count} != {ref.count}")
    check(repr(rs.mean) == repr(ref.mean), f"{what}: mean")
    check(repr(rs.M2) == repr(ref.M2), f"{what}: M2")


def expected_run(values, rtol, tol_scale, min_samples, max_samples):
    """How many of ``values`` should be drawn, from the specification:
    stop after sample i (0-based) once i > min_samples and the error on the
    mean is below rtol * |mean| + rtol * tol_scale, or i >= max_samples - 1.
    """
    ref = Ref()
    for i, x in enumerate(values):
        ref.update(x)
        if i > min_samples and ref.err < rtol * abs(ref.mean) + (
            tol_scale * rtol
        ):
            break
        if i >= max_samples - 1:
            break
    else:
        raise AssertionError("value stream too short for this scenario")
    return ref


class Source:
    """A generator function with a call log."""

    def __init__(self, values, events=None, fail_at=None, exc=None):
        self.values = list(values)
        self.calls = []
        self.events = events
        self.fail_at = fail_at
        self.exc = exc

    def __call__(self, *args, **kwargs):
        k = len(self.calls)
        self.calls.append((args, kwargs))
        if self.events is not None:
            self.events.append("fn")
        if self.fail_at is not None and k == self.fail_at:
            raise self.exc
        return self.values[k]


@contextlib.contextmanager
def captured():
    out, err = io.StringIO(), io.StringIO()
    with contextlib.redirect_stdout(out), contextlib.redirect_stderr(err):
        yield out, err


def streams(rng):
    n = 700
    yield "constant", [3.25] * n
    yield "zero", [0.0] * n
    yield "ramp", [float(k % 7) for k in range(n)]
    yield "alternating", [1e9 + (-1) ** k * 1e-3 for k in range(n)]
    yield "noisy", [float(v) for v in 5.0 + rng.standard_normal(n)]
    yield "noisy-offset", [
        float(v) for v in 1e9 + 1e-3 * rng.standard_normal(n)
    ]
    yield "noisy-zero-mean", [float(v) for v in rng.standard_normal(n)]
    yield "negative", [float(v) for v in -40.0 + 3 * rng.standard_normal(n)]


def grid(rng):
    for (name, values), rtol, tol_scale, min_samples, max_samples in (
        itertools.product(
            list(streams(rng)),
            (0.0, 1e-3, 0.02, 0.5),
            (0.0, 1.0, 50.0),
            (0, 1, 5, 40),
            (1, 2, 6, 7, 41, 42, 600),
        )
    ):
        what = (
            f"{name} rtol={rtol} tol_scale={tol_scale} "
            f"min={min_samples} max={max_samples}"
        )
        want = expected_run(values, rtol, tol_scale, min_samples, max_samples)
        src = Source(values)
        with captured() as (out, err):
            rs, xs = estimate_from_repeats(
                src,
                rtol=rtol,
                tol_scale=tol_scale,
                min_samples=min_samples,
                max_samples=max_samples,
                get="samples",
            )
        check(out.getvalue() == "" and err.getvalue() == "", what + " quiet")
        # never exceeds the limit, stops exactly where it should
        check(rs.count <= max_samples, what + ": exceeded max_samples")
        check(len(src.calls) == rs.count, what + ": calls != count")
        check(rs.count == want.count, f"{what}: {rs.count} != {want.count}")
        # statistics of exactly the samples drawn
        check(xs == values[: rs.count], what + ": samples")
        same_state(rs, want, what)
        arr = np.array(xs)
        scale = max(1.0, abs(arr).max())
        check(abs(rs.mean - arr.mean()) <= 1e-9 * scale, what + ": mean")
        check(abs(rs.var - arr.var()) <= 1e-9 * scale, what + ": var")
        check(abs(rs.std - arr.std()) <= 1e-9 * scale, what + ": std")
        check(
            abs(rs.err - arr.std() / len(xs) ** 0.5) <= 1e-9 * scale,
            what + ": err",
        )
        # stopped early only if converged
        if rs.count < max_samples:
            check(rs.count - 1 > min_samples, what + ": before min_samples")
            check(rs.converged(rtol, tol_scale * rtol), what + ": early stop")
        check(all(c == ((), {}) for c in src.calls), what + ": call args")


def return_forms(rng):
    values = [float(v) for v in 2.0 + 0.1 * rng.standard_normal(300)]
    want = expected_run(values, 0.02, 1.0, 5, 1000000)

    rs = estimate_from_repeats(Source(values))
    same_state(rs, want, "defaults")
    rs = estimate_from_repeats(Source(values), get="stats")
    same_state(rs, want, "get=stats")
    for other in ("anything", None, 3, ["samples"]):
        rs = estimate_from_repeats(Source(values), get=other)
        same_state(rs, want, f"get={other!r}")
    m = estimate_from_repeats(Source(values), get="mean")
    check(type(m) is float and repr(m) == repr(want.mean), "get=mean")
    got = estimate_from_repeats(Source(values), get="samples")
    check(type(got) is tuple and len(got) == 2, "get=samples is a pair")
    check(type(got[1]) is list and got[1] == values[: want.count], "samples")
    same_state(got[0], want, "get=samples")

    # positional and keyword arguments go to the function, every call
    src = Source(values)
    rs = estimate_from_repeats(src, 10, "b", rtol=0.5, n=3, flag=True)
    check(rs.count == len(src.calls) and rs.count >= 7, "args count")
    check(
        all(c == ((10, "b"), {"n": 3, "flag": True}) for c in src.calls),
        "fn_args / fn_kwargs",
    )
    # two runs do not share state
    a = estimate_from_repeats(Source(values), max_samples=3)
    b = estimate_from_repeats(Source(values), max_samples=4)
    check((a.count, b.count) == (3, 4) and a is not b, "fresh statistics")

    # numpy scalars and ints as samples
    src = Source([np.float64(v) for v in values])
    rs = estimate_from_repeats(src)
    check(rs.count == want.count and float(rs.mean) == want.mean, "np.float64")
    rs, xs = estimate_from_repeats(
        Source([1, 2, 3, 4] * 50), max_samples=9, rtol=0.0, get="samples"
    )
    check(rs.count == 9 and xs == [1, 2, 3, 4, 1, 2, 3, 4, 1], "ints")
    check(abs(rs.mean - np.mean(xs)) < 1e-12, "int mean")


def lazy_corners():
    vals = [1.0, 2.0, 4.0, 8.0, 16.0, 32.0, 64.0, 128.0, 256.0, 512.0] * 3
    # the absolute tolerance is only formed when convergence is tested
    rs = estimate_from_repeats(
        Source(vals), tol_scale=None, min_samples=5, max_samples=6
    )
    check(rs.count == 6, "tol_scale unused below min_samples")
    src = Source(vals)
    try:
        estimate_from_repeats(src, tol_scale=None, min_samples=5, max_samples=8)
    except TypeError:
        check(len(src.calls) == 7, f"tol_scale=None after {len(src.calls)}")
    else:
        check(False, "tol_scale=None accepted")
    # rtol likewise
    rs = estimate_from_repeats(
        Source(vals), rtol=None, min_samples=3, max_samples=4
    )
    check(rs.count == 4, "rtol unused below min_samples")
    # the limit is looked at after every sample
    for bad in (None, "7"):
        src = Source(vals)
        try:
            estimate_from_repeats(src, max_samples=bad)
        except TypeError:
            check(len(src.calls) == 1, "max_samples type error after 1 call")
        else:
            check(False, "bad max_samples accepted")
    src = Source(vals)
    try:
        estimate_from_repeats(src, min_samples=None, max_samples=3)
    except TypeError:
        check(len(src.calls) == 1, "min_samples type error after 1 call")
    else:
        check(False, "bad min_samples accepted")
    # bad verbosity: nothing is drawn
    src = Source(vals)
    try:
        estimate_from_repeats(src, verbosity=None)
    except TypeError:
        check(len(src.calls) == 0, "verbosity type error before sampling")
    else:
        check(False, "bad verbosity accepted")
    # float limits
    rs = estimate_from_repeats(Source(vals), rtol=0.0, max_samples=4.5)
    check(rs.count == 5, f"float max_samples {rs.count}")
    rs = estimate_from_repeats(Source(vals), rtol=10.0, min_samples=2.5)
    check(rs.count == 4, f"float min_samples {rs.count}")


class FakeBar:
    """Stands in for the tqdm bar; logs what is done to it and when."""

    def __init__(self, it, events):
        self.it = iter(it)
        self.events = events

    def __iter__(self):
        return self

    def __next__(self):
        self.events.append("next")
        return next(self.it)

    def set_description(self, text):
        self.events.append(("desc", text))

    def close(self):
        self.events.append("close")


@contextlib.contextmanager
def fake_progbar(events):
    real = xu.progbar

    def progbar(it=None, **kwargs):
        events.append("progbar")
        check(kwargs == {}, "progbar kwargs")
        return FakeBar(it, events)

    xu.progbar = progbar
    try:
        yield
    finally:
        xu.progbar = real


def verbosity_and_order(rng):
    values = [float(v) for v in 7.0 + rng.standard_normal(400)]
    want = expected_run(values, 0.02, 1.0, 5, 1000000)
    k = want.count

    # verbosity 0: no bar is made at all
    events = []
    with fake_progbar(events), captured() as (out, err):
        rs = estimate_from_repeats(Source(values, events), verbosity=0)
    check(events == ["fn"] * k, "verbosity 0 events")
    check(out.getvalue() == "" and err.getvalue() == "", "verbosity 0 quiet")

    # verbosity 1: bar made first, closed last, then the summary printed
    events = []
    with fake_progbar(events), captured() as (out, err):
        rs = estimate_from_repeats(Source(values, events), verbosity=1)
    check(
        events == ["progbar"] + ["next", "fn"] * k + ["close"],
        "verbosity 1 events",
    )
    same_state(rs, want, "verbosity 1")
    check(out.getvalue() == repr(rs) + "\n", "verbosity 1 summary")
    check(err.getvalue() == "", "fake bar is silent")

    # verbosity 2: description after each update, showing the running stats
    for verbosity in (2, 3, 2.5):
        events = []
        with fake_progbar(events), captured() as (out, err):
            rs, xs = estimate_from_repeats(
                Source(values, events), verbosity=verbosity, get="samples"
            )
        ref = Ref()
        expect = ["progbar"]
        for x in values[:k]:
            ref.update(x)
            expect += [
                "next",
                "fn",
                (
                    "desc",
                    f"{ref.count}: "
                    f"{format_number_with_error(ref.mean, ref.err)}",
                ),
            ]
        expect += ["close"]
        check(events == expect, f"verbosity {verbosity} events")
        check(out.getvalue() == repr(rs) + "\n", "verbosity 2 summary")
        check(xs == values[:k], "verbosity 2 samples")

    # the real bar: written to stderr, summary to stdout
    for verbosity in (1, 2):
        with captured() as (out, err):
            rs = estimate_from_repeats(Source(values), verbosity=verbosity)
        same_state(rs, want, "real bar")
        check(out.getvalue() == repr(rs) + "\n", "real bar summary")
        text = err.getvalue()
        check("it/s" in text or "it [" in text, f"bar output {text!r}")
        label = f"{rs.count}: {format_number_with_error(rs.mean, rs.err)}"
        check((label in text) == (verbosity == 2), f"description {text!r}")

    # keyboard interrupt from the function: a clean stop, statistics of the
    # samples completed so far
    for verbosity, get in itertools.product((0, 1, 2), ("stats", "samples")):
        events = []
        src = Source(values, events, fail_at=4, exc=KeyboardInterrupt())
        with fake_progbar(events), captured() as (out, err):
            got = estimate_from_repeats(
                src, rtol=0.0, verbosity=verbosity, get=get
            )
        rs = got[0] if get == "samples" else got
        ref = Ref()
        for x in values[:4]:
            ref.update(x)
        same_state(rs, ref, "interrupted")
        check(len(src.calls) == 5, "interrupted calls")
        if get == "samples":
            check(got[1] == values[:4], "interrupted samples")
        if verbosity:
            check(events[0] == "progbar" and events[-1] == "close", "closed")
            check(events.count("close") == 1, "closed once")
            check(events[-2] == "fn", "closed right after the interrupt")
            check(out.getvalue() == repr(rs) + "\n", "interrupted summary")
        else:
            check(events == ["fn"] * 5, "interrupted quiet")
            check(out.getvalue() == "", "interrupted quiet")

    # interrupted before anything was drawn
    src = Source(values, fail_at=0, exc=KeyboardInterrupt())
    with captured() as (out, err):
        rs = estimate_from_repeats(src, verbosity=1)
    check(rs.count == 0 and rs.mean == 0.0 and rs.M2 == 0.0, "empty run")
    check(
        out.getvalue() == "RunningStatistics(mean=None, count=0)\n",
        "empty summary",
    )
    check(estimate_from_repeats(
        Source(values, fail_at=0, exc=KeyboardInterrupt()), get="samples"
    )[1] == [], "empty samples")

    # any other exception propagates, after the bar is closed, no summary
    for verbosity in (0, 1, 2):
        events = []
        src = Source(values, events, fail_at=3, exc=ValueError("boom"))
        with fake_progbar(events), captured() as (out, err):
            try:
                estimate_from_repeats(src, verbosity=verbosity)
            except ValueError as e:
                check(e is src.exc, "same exception object")
            else:
                check(False, "exception swallowed")
        check(out.getvalue() == "", "no summary after an error")
        check(len(src.calls) == 4, "calls before the error")
        check(events.count("close") == (1 if verbosity else 0), "closed")
        if verbosity:
            check(events[-1] == "close", "closed last")


def running_statistics(rng):
    # the object the estimator reports: empty state, repr, convergence test
    rs = RunningStatistics()
    check((rs.count, rs.mean, rs.M2) == (0, 0.0, 0.0), "init")
    check(
        all(v == np.inf for v in (rs.var, rs.std, rs.err, rs.rel_err)), "inf"
    )
    check(repr(rs) == "RunningStatistics(mean=None, count=0)", "empty repr")
    check(str(rs) == repr(rs), "str")
    check(rs.converged(1.0, 1e300) is False, "empty never converged")

    for length, offset, spread in itertools.product(
        (1, 2, 3, 50, 500), (0.0, -17.0, 1e9), (1e-3, 1.0, 1e3)
    ):
        data = [float(v) for v in offset + spread * rng.standard_normal(length)]
        scale = abs(offset) + spread
        for order in (data, [data[i] for i in rng.permutation(length)]):
            for chunk in (1, 7, length):
                rs = RunningStatistics()
                ref = Ref()
                for p in range(0, length, chunk):
                    part = order[p : p + chunk]
                    if chunk == 1:
                        ret = rs.update(part[0])
                    else:
                        ret = rs.update_from_it(iter(part))
                    check(ret is None, "returns None")
                    for x in part:
                        ref.update(x)
                what = f"rs n={length} off={offset} spr={spread} chunk={chunk}"
                same_state(rs, ref, what)
                arr = np.array(data)
                tol = 1e-9 * scale
                check(abs(rs.mean - arr.mean()) <= tol, what + " mean")
                check(abs(rs.var - arr.var()) <= tol * spread, what + " var")
                check(abs(rs.std - arr.std()) <= tol, what + " std")
                check(
                    abs(rs.err - arr.std() / length**0.5) <= tol,
                    what + " err",
                )
                check(
                    repr(rs.rel_err) == repr(rs.err / abs(rs.mean)),
                    what + " rel_err",
                )
                check(
                    repr(rs)
                    == "RunningStatistics(mean="
                    + format_number_with_error(rs.mean, rs.err)
                    + f", count={length})",
                    what + " repr",
                )
                for rtol, atol in ((0.0, 0.0), (1e-3, 0.0), (0.0, 1e-2), (1, 1)):
                    check(
                        rs.converged(rtol, atol)
                        == (rs.err < rtol * abs(rs.mean) + atol),
                        what + " converged",
                    )
    rs = RunningStatistics()
    rs.update_from_it([1.1, 1.4, 1.2])
    rs.update_from_it([1.5, 1.3, 1.6])
    check(repr(rs) == "RunningStatistics(mean=1.350(70), count=6)", repr(rs))
    check(rs.converged(0.0, 0.0) is False, "strict inequality")
    rs = RunningStatistics()
    rs.update_from_it([2.0, 2.0])
    check(rs.err == 0.0 and rs.converged(0.0, 0.0) is False, "0 < 0")
    check(rs.converged(0.0, 1e-300) is True, "0 < tiny")
    check(repr(rs) == "RunningStatistics(mean=2.0(00), count=2)", repr(rs))


def main():
    tmp = tempfile.mkdtemp(prefix="c19_t7_")
    cwd = os.getcwd()
    try:
        os.chdir(tmp)
        rng = np.random.default_rng(190007)
        running_statistics(rng)
        grid(rng)
        return_forms(rng)
        lazy_corners()
        verbosity_and_order(rng)
        check(os.listdir(tmp) == [], "nothing written")
    finally:
        os.chdir(cwd)
        shutil.rmtree(tmp, ignore_errors=True)
    print(f"{CHECKS[0]} checks")
    print("PASS")


if __name__ == "__main__":
    main()
