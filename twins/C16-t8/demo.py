"""Demo for C16 (twin t8): generated cluster scripts and the grow CLI grow
exactly the intended batches.

Run as:  cd <worktree> && /venv/bin/python /path/to/demo.py
Prints PASS and exits 0 if every check holds.
"""
import os
import re
import sys

sys.path.insert(0, os.getcwd())

import shutil
import subprocess
import tempfile
import warnings
from concurrent.futures import ThreadPoolExecutor

import xyzpy
from xyzpy import Crop, combo_runner
from xyzpy.gen.cropping import BTCH_NM, RSLT_NM, read_from_disk

assert os.path.dirname(os.path.dirname(os.path.abspath(xyzpy.__file__))) \
    == os.path.abspath(os.getcwd()), xyzpy.__file__

PY = sys.executable
COMBOS = [("a", [1, 2, 3, 4]), ("b", [5, 6])]  # 8 cases
FAILURES = []

TASK_VAR = {
    "sge": "SGE_TASK_ID",
    "pbs": "PBS_ARRAY_INDEX",
    "slurm": "SLURM_ARRAY_TASK_ID",
}
ARRAY_RE = {
    "sge": r"^#\$ -t (\d+)-(\d+)$",
    "pbs": r"^#PBS -J (\d+)-(\d+)$",
    "slurm": r"^#SBATCH --array=(\d+)-(\d+)$",
}
OPTION_PREFIX = {"sge": "#$ -l ", "pbs": "#PBS -l ", "slurm": "#SBATCH --"}


def fn(a, b):
    # pickled by value: record every evaluation so repeats can be seen
    import os

    with open(os.environ["XYZ_DEMO_LOG"], "a") as f:
        f.write("{},{}\n".format(a, b))
    return 10 * a + b, a / (b + 1)


def check(cond, msg):
    if not cond:
        FAILURES.append(msg)
    return cond


def base_env(root, log):
    return {
        "PATH": os.environ.get("PATH", "/usr/bin:/bin"),
        "HOME": root,
        "PYTHONPATH": os.getcwd(),
        "XYZ_DEMO_LOG": log,
    }


def run_bash(path, env):
    p = subprocess.run(
        ["bash", path], env=env, capture_output=True, text=True, timeout=600
    )
    return p.returncode, p.stdout, p.stderr


def read_log(log):
    if not os.path.exists(log):
        return []
    with open(log) as f:
        return sorted(
            tuple(int(x) for x in line.split(",")) for line in f if line.strip()
        )


def result_ids(crop):
    out = set()
    for i in range(1, crop.num_batches + 1):
        if os.path.isfile(
            os.path.join(crop.location, "results", RSLT_NM.format(i))
        ):
            out.add(i)
    return out


def cases_of(crop, ids):
    out = []
    for i in ids:
        for c in read_from_disk(
            os.path.join(crop.location, "batches", BTCH_NM.format(i))
        ):
            out.append((c["a"], c["b"]))
    return sorted(out)


def embedded_program(script, env):
    """The python program the shell would hand to the launcher."""
    body = script.split("read -r -d '' SCRIPT << EOM\n", 1)[1]
    body = body.split("\nEOM\n", 1)[0]
    for k, v in env.items():
        body = body.replace("$" + k, v)
    return body


def scenario(tag, scheduler, mode, nb, pre_grown, batch_ids, options,
             expect_header=()):
    """Sow a crop of ``nb`` batches, grow ``pre_grown`` in process, generate
    the script, run it the way the scheduler would, and check exactly the
    intended batches were grown, each case once; then finish with the CLI
    and reap.
    """
    where = "[{} {} {} nb={} pre={} ids={} opts={}]".format(
        tag, scheduler, mode, nb, pre_grown, batch_ids, options
    )
    root = tempfile.mkdtemp(prefix="c16demo")
    try:
        log = os.path.join(root, "calls.log")
        os.environ["XYZ_DEMO_LOG"] = log
        pdir = os.path.join(root, "crops")
        os.makedirs(pdir)
        crop = Crop(fn=fn, name="demo", parent_dir=pdir, num_batches=nb)
        crop.sow_combos(COMBOS, verbosity=0)
        check(crop.num_batches == nb, where + " sow made wrong batches")
        if pre_grown:
            crop.grow(tuple(pre_grown), verbosity=0)
        check(result_ids(crop) == set(pre_grown), where + " pre-grow wrong")
        if os.path.exists(log):
            os.remove(log)

        if batch_ids is None:
            intended = sorted(set(range(1, nb + 1)) - set(pre_grown))
        else:
            intended = list(batch_ids)

        with warnings.catch_warnings():
            warnings.simplefilter("ignore")
            script = crop.gen_cluster_script(
                scheduler=scheduler.upper() if tag == "upper" else scheduler,
                batch_ids=batch_ids,
                mode=mode,
                launcher=PY,
                conda_env=False,
                output_directory=os.path.join(root, "out"),
                **options,
            )

        # ---- the header ------------------------------------------------ #
        lines = script.split("\n")
        check(lines[0] == "#!/bin/bash -l", where + " bad shebang")
        for h in expect_header:
            check(h in lines, where + " header lacks line {!r}".format(h))
        arr = [
            re.match(ARRAY_RE[scheduler], ln)
            for ln in lines
            if re.match(ARRAY_RE[scheduler], ln)
        ]
        for s2, rx in ARRAY_RE.items():
            if s2 != scheduler:
                check(
                    not any(re.match(rx, ln) for ln in lines),
                    where + " header of another scheduler present",
                )
        if mode == "single":
            check(not arr, where + " single mode has an array header")
            tasks = [None]
        elif scheduler == "pbs" and len(intended) == 1:
            # PBS can't run arrays of size one: plain job, no index variable
            check(not arr, where + " PBS array of size 1 requested")
            check("PBS_ARRAY_INDEX" not in script,
                  where + " PBS index used without an array")
            tasks = [None]
        else:
            if not check(len(arr) == 1, where + " no unique array header"):
                return
            lo, hi = int(arr[0].group(1)), int(arr[0].group(2))
            check((lo, hi) == (1, len(intended)),
                  where + " array range {}-{} for {} tasks".format(
                      lo, hi, len(intended)))
            tasks = list(range(lo, hi + 1))

        # ---- validity -------------------------------------------------- #
        spath = os.path.join(root, "job.sh")
        with open(spath, "w") as f:
            f.write(script)
        p = subprocess.run(["bash", "-n", spath], capture_output=True)
        check(p.returncode == 0, where + " not a valid shell script")
        for t in tasks:
            env = {} if t is None else {TASK_VAR[scheduler]: str(t)}
            try:
                compile(embedded_program(script, env), "<embedded>", "exec")
            except SyntaxError as e:
                check(False, where + " embedded python invalid: {}".format(e))

        # ---- run it like the scheduler would --------------------------- #
        def run_task(t):
            env = base_env(root, log)
            if t is not None:
                env[TASK_VAR[scheduler]] = str(t)
            return run_bash(spath, env)

        with ThreadPoolExecutor(4) as pool:
            outs = list(pool.map(run_task, tasks))
        for t, (rc, so, se) in zip(tasks, outs):
            ok = (
                rc == 0
                and "XYZPY script starting..." in so
                and "XYZPY script finished" in so
                and "Traceback" not in se
            )
            check(ok, where + " task {} failed: rc={} {}".format(
                t, rc, se.strip()[-300:]))

        grown = result_ids(crop)
        check(
            grown == set(pre_grown) | set(intended),
            where + " result files {} but intended {} (+ pre-grown {})".format(
                sorted(grown), intended, sorted(pre_grown)),
        )
        calls = read_log(log)
        check(
            calls == cases_of(crop, intended),
            where + " cases evaluated {} but wanted {}".format(
                calls, cases_of(crop, intended)),
        )

        # ---- the command line grower finishes the rest ----------------- #
        missing = sorted(set(range(1, nb + 1)) - grown)
        check(list(crop.missing_results()) == missing,
              where + " missing_results wrong")
        if missing:
            os.remove(log) if os.path.exists(log) else None
            p = subprocess.run(
                [PY, "-m", "xyzpy.gen.xyzpy_grow_cli", "demo",
                 "--parent-dir", pdir, "--verbosity", "0"],
                env=base_env(root, log), capture_output=True, text=True,
                cwd=root, timeout=600,
            )
            check(p.returncode == 0,
                  where + " grow cli failed: " + p.stderr.strip()[-300:])
            check(read_log(log) == cases_of(crop, missing),
                  where + " grow cli evaluated {} but wanted {}".format(
                      read_log(log), cases_of(crop, missing)))

        # ---- reap ------------------------------------------------------ #
        check(crop.is_ready_to_reap(), where + " crop not ready to reap")
        if crop.is_ready_to_reap():
            os.environ["XYZ_DEMO_LOG"] = os.devnull
            expected = combo_runner(fn, COMBOS, verbosity=0)
            got = Crop(name="demo", parent_dir=pdir).reap(clean_up=False)
            check(got == expected, where + " reaped results differ")
    finally:
        shutil.rmtree(root, ignore_errors=True)


def header_lines(scheduler, **kw):
    pre = OPTION_PREFIX[scheduler]
    return tuple(
        pre + k if (v is None or v is True) else "{}{}={}".format(pre, k, v)
        for k, v in kw.items()
    )


def main():
    flags = {"gpu": 1, "requeue": None, "exclusive": True, "qos": "long"}
    for s in ("sge", "pbs", "slurm"):
        hl = header_lines(s, **flags)
        # ---- array mode ---- #
        scenario("a1", s, "array", 4, (), None, {})
        scenario("a2", s, "array", 5, (2, 5), None, dict(flags),
                 expect_header=hl)
        scenario("a3", s, "array", 4, (1, 2, 3), None, {"hours": 1,
                                                         "minutes": 30})
        scenario("a4", s, "array", 4, (), (3,), {"time": 2})
        scenario("a5", s, "array", 8, (1,), [6, 2, 7], {"gigabytes": 4})
        scenario("a6", s, "array", 3, (), range(1, 4), {"mem": 8})
        scenario("a7", s, "array", 1, (), None, {"time": "0:10:00"})
        scenario("a8", s, "array", 2, (), (2,),
                 {"num_workers": 2, "num_procs": 2})
        # ---- single mode ---- #
        scenario("s1", s, "single", 4, (), None, {})
        scenario("s2", s, "single", 5, (1, 4), None, dict(flags),
                 expect_header=hl)
        scenario("s3", s, "single", 5, (1,), (4, 2), {"seconds": 30})
        scenario("s4", s, "single", 3, (), (3,), {"num_workers": 2})
        scenario("s5", s, "single", 1, (), None, {"num_nodes": 1})
    scenario("upper", "slurm", "array", 2, (), None, {"mem_per_cpu": 2},
             expect_header=("#SBATCH --mem-per-cpu=2G",))
    scenario("upper", "pbs", "array", 3, (1, 3), None, {"ngpus": 1},
             expect_header=("#PBS -l ngpus=1",))

    if FAILURES:
        print("FAIL: {} check(s) failed".format(len(FAILURES)))
        for m in FAILURES[:20]:
            print("  -", m)
        return 1
    print("PASS")
    return 0


if __name__ == "__main__":
    sys.exit(main())
