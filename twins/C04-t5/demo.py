"""Demo for twin t2 (C04): grow() helpers + Reaper loading as methods.

Run as:  cd <worktree> && /venv/bin/python /path/to/demo.py
"""
import os
import sys

sys.path.insert(0, os.getcwd())

import contextlib
import glob
import io
import itertools
import logging
import math
import pickle
import random
import shutil
import subprocess
import tempfile
import threading
import time

import numpy as np

import xyzpy
from xyzpy.gen.cropping import Crop, Reaper, XYZError, grow, _NO_DEFAULT

WORKTREE = os.getcwd()
assert os.path.dirname(os.path.dirname(os.path.abspath(xyzpy.__file__))) == \
    WORKTREE, xyzpy.__file__


def fn(a, b, c=0):
    return 100 * a + 10 * b + c


def fn_arr(a, b):
    return np.array([a + b, a * b], dtype=float)


def read(fname):
    with open(fname, "rb") as f:
        return pickle.load(f)


def write(obj, fname):
    with open(fname, "wb") as f:
        pickle.dump(obj, f)


def rfile(crop, i):
    return os.path.join(crop.location, "results",
                        "xyz-result-{}.jbdmp".format(i))


def bfile(crop, i):
    return os.path.join(crop.location, "batches",
                        "xyz-batch-{}.jbdmp".format(i))


def model_sow_order(settings, shuffle):
    if not shuffle:
        return list(range(len(settings)))
    random.seed(int(shuffle))
    es = list(enumerate(settings))
    random.shuffle(es)
    return [i for i, _ in es]


def model_sizes(n, batchsize=None, num_batches=None):
    if num_batches is None:
        b = 1 if batchsize is None else batchsize
        return [b] * (n // b) + ([n % b] if n % b else [])
    k = min(n, num_batches)
    q, r = divmod(n, k)
    return [q + 1] * r + [q] * (k - r)


def nested_equal(x, y):
    """Equality of nested tuples where nan == nan."""
    if isinstance(x, tuple) or isinstance(y, tuple):
        return (isinstance(x, tuple) and isinstance(y, tuple)
                and len(x) == len(y)
                and all(nested_equal(p, q) for p, q in zip(x, y)))
    if isinstance(x, float) and isinstance(y, float) and x != x:
        return y != y
    return type(x) is type(y) and x == y


GRID = {"a": [1, 2, 3], "b": [1, 2, 3, 4]}       # n = 12
NAMES = ["a", "b"]
SETTINGS = [dict(zip(NAMES, v))
            for v in itertools.product(GRID["a"], GRID["b"])]
DIRECT = xyzpy.combo_runner(fn, GRID, verbosity=0)


def partitions_of(ids, k, rng):
    """Split the shuffled ids into k groups (some possibly empty)."""
    ids = list(ids)
    rng.shuffle(ids)
    cuts = sorted(rng.randint(0, len(ids)) for _ in range(k - 1))
    return [ids[i:j] for i, j in zip([0] + cuts, cuts + [len(ids)])]


# ---------------------------------------------------------------- growing --

def check_result_files(crop, sizes, order, shuffle_used):
    """Every result file holds, in order, fn of the settings of its batch."""
    names = sorted(os.listdir(os.path.join(crop.location, "results")))
    assert names == sorted("xyz-result-{}.jbdmp".format(i + 1)
                           for i in range(len(sizes))), names
    pos = 0
    for i, size in enumerate(sizes):
        res = read(rfile(crop, i + 1))
        assert type(res) is tuple and len(res) == size
        want = tuple(fn(**SETTINGS[j]) for j in order[pos:pos + size])
        assert res == want, (i, res, want)
        pos += size
    assert sorted(os.listdir(crop.location)) == [
        "batches", "results", "xyz-function.clpkl", "xyz-settings.jbdmp"]


def run_grow_ways(tmp):
    n = len(SETTINGS)
    configs = [({}, False), ({"batchsize": 5}, True), ({"num_batches": 5}, 3),
               ({"num_batches": 14}, False), ({"batchsize": 13}, 11),
               ({"batchsize": 1}, True), ({"num_batches": 1}, 2),
               ({"num_batches": 7}, True)]
    ways = ["method-groups", "function-crop", "function-cwd", "function-fn",
            "missing", "workers", "mixed", "method-int"]
    k = 0
    for (opts, shuffle), way in zip(configs, ways):
        k += 1
        rng = random.Random(k)
        name = "grow{}".format(k)
        crop = Crop(fn=fn, name=name, parent_dir=tmp, **opts)
        crop.sow_combos(GRID, shuffle=shuffle, verbosity=0)
        sizes = model_sizes(n, **opts)
        order = model_sow_order(SETTINGS, shuffle)
        nb = len(sizes)
        assert crop.num_batches == nb
        ids = list(range(1, nb + 1))

        fresh = Crop(name=name, parent_dir=tmp)
        if way == "method-groups":
            for group in partitions_of(ids, 3, rng):
                Crop(name=name, parent_dir=tmp).grow(group, verbosity=0)
        elif way == "function-crop":
            rng.shuffle(ids)
            for i in ids + ids[:2]:
                with contextlib.redirect_stdout(io.StringIO()) as out:
                    grow(i, crop=fresh, verbosity=1)
                assert out.getvalue() == (
                    "xyzpy: loaded batch {} of {}.\n"
                    "xyzpy: success - batch {} completed.\n"
                ).format(i, name, i), out.getvalue()
        elif way == "function-cwd":
            rng.shuffle(ids)
            here = os.getcwd()
            os.chdir(fresh.location)
            try:
                for i in ids:
                    with contextlib.redirect_stdout(io.StringIO()) as out:
                        grow(i, verbosity=2)
                    assert out.getvalue() == (
                        "xyzpy: loaded batch {} of {}.\n"
                        "xyzpy: success - batch {} completed.\n"
                    ).format(i, name, i), out.getvalue()
            finally:
                os.chdir(here)
        elif way == "function-fn":
            calls = []

            def spy(**kws):
                calls.append(kws)
                return fn(**kws)

            pos = 0
            for i in ids:
                del calls[:]
                grow(i, crop=fresh, fn=spy, verbosity=0)
                # called once per setting of the batch, in the sown order
                assert calls == [SETTINGS[j]
                                 for j in order[pos:pos + sizes[i - 1]]]
                pos += sizes[i - 1]
        elif way == "missing":
            fresh.grow(ids[::2], verbosity=0)
            fresh2 = Crop(name=name, parent_dir=tmp)
            assert fresh2.missing_results() == tuple(ids[1::2])
            fresh2.grow_missing(verbosity=0)
            assert fresh2.missing_results() == ()
            fresh2.grow_missing(verbosity=0)  # nothing left - fine
        elif way == "workers":
            half = ids[: nb // 2]
            for i in half:
                grow(i, crop=fresh, num_workers=2, verbosity=0)
            fresh.grow(ids[nb // 2:], num_workers=2, verbosity=0)
        elif way == "mixed":
            groups = partitions_of(ids, 4, rng)
            fresh.grow(groups[0], verbosity=0)
            for i in groups[1]:
                grow(i, crop=Crop(name=name, parent_dir=tmp), verbosity=0)
            Crop(name=name, parent_dir=tmp).grow(groups[2] + groups[0],
                                                  verbosity=0)
            Crop(name=name, parent_dir=tmp).grow_missing(verbosity=0)
        elif way == "method-int":
            for i in reversed(ids):
                fresh.grow(i, verbosity=0)

        check_result_files(fresh, sizes, order, shuffle)
        reaper = Crop(name=name, parent_dir=tmp)
        assert reaper.is_ready_to_reap()
        got = reaper.reap()
        assert got == DIRECT, (way, opts, shuffle, got)
        assert not os.path.exists(reaper.location)


# ------------------------------------------------------ separate processes --

STEP = r'''
import os, sys
sys.path.insert(0, os.getcwd())
import xyzpy
step, name, parent = sys.argv[1:4]
if step == "sow":
    def fn(a, b, c=0):
        return 100 * a + 10 * b + c
    crop = xyzpy.Crop(fn=fn, name=name, parent_dir=parent, num_batches=5,
                      shuffle=4)
    crop.sow_combos({"a": [1, 2, 3], "b": [1, 2, 3, 4]}, shuffle=None,
                    verbosity=0)
elif step == "grow":
    crop = xyzpy.Crop(name=name, parent_dir=parent)
    crop.grow([int(i) for i in sys.argv[4:]], verbosity=0)
elif step == "growfn":
    from xyzpy.gen.cropping import grow
    os.chdir(os.path.join(parent, ".xyz-" + name))
    for i in sys.argv[4:]:
        grow(int(i), verbosity=0)
elif step == "missing":
    xyzpy.Crop(name=name, parent_dir=parent).grow_missing(verbosity=0)
elif step == "reap":
    import pickle
    res = xyzpy.Crop(name=name, parent_dir=parent).reap()
    with open(os.path.join(parent, name + ".out"), "wb") as f:
        pickle.dump(res, f)
'''


def run_fresh_processes(tmp):
    script = os.path.join(tmp, "step.py")
    with open(script, "w") as f:
        f.write(STEP)

    def step(*args):
        subprocess.run([sys.executable, script] + [str(a) for a in args],
                       check=True, cwd=WORKTREE, stdout=subprocess.DEVNULL,
                       stderr=subprocess.DEVNULL)

    step("sow", "procs", tmp)
    crop = Crop(name="procs", parent_dir=tmp)
    assert crop.num_batches == 5 and crop.missing_results() == (1, 2, 3, 4, 5)
    assert crop.load_info()["shuffle"] == 4
    step("grow", "procs", tmp, 4, 2)
    assert Crop(name="procs", parent_dir=tmp).missing_results() == (1, 3, 5)
    step("growfn", "procs", tmp, 5, 4)
    assert Crop(name="procs", parent_dir=tmp).missing_results() == (1, 3)
    step("missing", "procs", tmp)
    check_result_files(crop, [3, 3, 2, 2, 2], model_sow_order(SETTINGS, 4), 4)
    step("reap", "procs", tmp)
    assert read(os.path.join(tmp, "procs.out")) == DIRECT
    assert not os.path.exists(crop.location)


# ---------------------------------------------------------- partial reaps --

def run_incomplete(tmp):
    n = len(SETTINGS)
    flat_direct = [fn(**s) for s in SETTINGS]
    k = 0
    for opts, shuffle, grown in [
        ({"batchsize": 5}, False, [2]),
        ({"num_batches": 5}, True, [1, 4]),
        ({"num_batches": 5}, 6, [5]),
        ({"batchsize": 1}, 2, [3, 12, 7]),
        ({"batchsize": 7}, True, [1, 2]),
    ]:
        k += 1
        name = "part{}".format(k)
        crop = Crop(fn=fn, name=name, parent_dir=tmp, shuffle=shuffle, **opts)
        crop.sow_combos(GRID, shuffle=None, verbosity=0)
        sizes = model_sizes(n, **opts)
        order = model_sow_order(SETTINGS, shuffle)

        # not ready -> refuse
        for c in (crop, Crop(name=name, parent_dir=tmp)):
            try:
                c.reap()
            except XYZError as e:
                assert str(e).startswith(
                    "This crop is not ready to reap yet - results are "
                    "missing.")
            else:
                raise AssertionError
        # nothing to infer a stand-in from yet
        try:
            crop.reap(allow_incomplete=True)
        except XYZError as e:
            assert str(e) == ("To infer an all-nan result requires at least "
                              "one finished result.")
        else:
            raise AssertionError

        Crop(name=name, parent_dir=tmp).grow(grown, verbosity=0)

        # model: positions whose batch is grown keep their value
        want = [float("nan")] * n
        pos = 0
        for i, size in enumerate(sizes):
            if (i + 1) in grown:
                for j in order[pos:pos + size]:
                    want[j] = flat_direct[j]
            pos += size
        want = tuple(tuple(want[r * 4:(r + 1) * 4]) for r in range(3))

        part = Crop(name=name, parent_dir=tmp).reap(allow_incomplete=True)
        assert nested_equal(part, want), (opts, shuffle, grown, part, want)
        # and it did not clean up, nor create anything
        assert os.path.isdir(crop.location)
        assert sorted(os.listdir(os.path.join(crop.location, "results"))) == \
            sorted("xyz-result-{}.jbdmp".format(i) for i in grown)

        if len(grown) == len(sizes):
            assert part == DIRECT
        Crop(name=name, parent_dir=tmp).grow_missing(verbosity=0)
        full = Crop(name=name, parent_dir=tmp).reap(allow_incomplete=True,
                                                     clean_up=True)
        assert full == DIRECT
        assert not os.path.exists(crop.location)

    # array valued results through a Runner -> dataset with nan blocks
    runner = xyzpy.Runner(fn_arr, var_names="x", var_dims=["t"],
                          var_coords={"t": [0, 1]})
    direct_ds = runner.run_combos(GRID, verbosity=0)
    crop = runner.Crop(name="partds", parent_dir=tmp, batchsize=4)
    crop.sow_combos(GRID, verbosity=0)
    crop.grow([1, 3], verbosity=0)
    ds = Crop(name="partds", parent_dir=tmp).reap(allow_incomplete=True)
    assert ds["x"].dims == direct_ds["x"].dims
    assert ds["x"].sel(a=[1, 3]).equals(direct_ds["x"].sel(a=[1, 3]))
    assert bool(ds["x"].sel(a=2).isnull().all())
    Crop(name="partds", parent_dir=tmp).grow_missing(verbosity=0)
    ds = Crop(name="partds", parent_dir=tmp).reap()
    assert ds.identical(direct_ds)


def run_wait(tmp):
    crop = Crop(fn=fn, name="waiting", parent_dir=tmp, num_batches=4)
    crop.sow_combos(GRID, shuffle=5, verbosity=0)
    crop.grow([3], verbosity=0)

    def later():
        c = Crop(name="waiting", parent_dir=tmp)
        for i in (4, 1, 2):
            time.sleep(0.3)
            grow(i, crop=c, verbosity=0)

    t = threading.Thread(target=later)
    t0 = time.time()
    t.start()
    try:
        res = Crop(name="waiting", parent_dir=tmp).reap(wait=True)
    finally:
        t.join()
    assert res == DIRECT
    assert time.time() - t0 >= 0.8
    assert not os.path.exists(crop.location)

    # wait=True and allow_incomplete=True: waiting wins, no stand-ins used
    crop = Crop(fn=fn, name="waiting2", parent_dir=tmp, num_batches=3)
    crop.sow_combos(GRID, verbosity=0)
    crop.grow([1, 3], verbosity=0)
    t = threading.Thread(
        target=lambda: (time.sleep(0.5), grow(2, crop=crop, verbosity=0)))
    t.start()
    try:
        res = crop.reap(wait=True, allow_incomplete=True)
    finally:
        t.join()
    assert res == DIRECT
    assert os.path.isdir(crop.location)   # allow_incomplete -> no clean up
    crop.delete_all()

    # something that is not a file in the place of a result
    crop = Crop(fn=fn, name="waiting3", parent_dir=tmp, num_batches=3)
    crop.sow_combos(GRID, verbosity=0)
    crop.grow([1, 3], verbosity=0)
    os.mkdir(rfile(crop, 2))
    try:
        crop.reap(wait=True)
    except ValueError as e:
        assert str(e) == "{} is not a file.".format(rfile(crop, 2)), str(e)
    else:
        raise AssertionError
    assert os.path.isdir(crop.location)
    os.rmdir(rfile(crop, 2))
    crop.grow_missing(verbosity=0)
    assert crop.reap() == DIRECT


# ------------------------------------------------------- the Reaper itself --

def run_reaper_direct(tmp):
    crop = Crop(fn=fn, name="reaper", parent_dir=tmp, num_batches=5)
    crop.sow_combos(GRID, verbosity=0)      # sizes 3 3 2 2 2
    crop.grow([1, 2, 4], verbosity=0)
    flat = [fn(**s) for s in SETTINGS]

    # creating the Reaper reads nothing: results are loaded lazily
    os.rename(rfile(crop, 1), rfile(crop, 1) + ".away")
    reaper = Reaper(crop, num_batches=5, default_result="X")
    os.rename(rfile(crop, 1) + ".away", rfile(crop, 1))
    with reaper as r:
        assert r is reaper and r.crop is crop
        got = []
        for i in range(12):
            if i == 6:
                # batch 3 is only looked at when the 7th value is asked for
                crop.grow([3], verbosity=0)
            got.append(r(anything=i))
    assert got == flat[:10] + ["X", "X"], got

    # ``None`` is a legitimate stand-in
    with Reaper(crop, num_batches=5, default_result=None) as r:
        got = [r() for _ in range(12)]
    assert got == flat[:10] + [None, None]

    # no default: a missing result is an error when reached
    with Reaper(crop, num_batches=4) as r:
        got = [r() for _ in range(10)]
    assert got == flat[:10]
    try:
        with Reaper(crop, num_batches=5, default_result=_NO_DEFAULT) as r:
            for _ in range(12):
                r()
    except FileNotFoundError as e:
        assert e.filename == rfile(crop, 5)
    else:
        raise AssertionError

    # not everything reaped
    try:
        with Reaper(crop, num_batches=4) as r:
            for _ in range(8):
                r()
    except XYZError as e:
        assert str(e) == "Not all results reaped!"
    else:
        raise AssertionError
    # exactly everything reaped, one more -> StopIteration
    with Reaper(crop, num_batches=2) as r:
        for _ in range(6):
            r()
        try:
            r()
        except StopIteration:
            pass
        else:
            raise AssertionError

    # empty / None results are refused, with or without a default
    good = read(rfile(crop, 2))
    for bad in ((), None, []):
        write(bad, rfile(crop, 2))
        for kws in ({}, {"default_result": 1.0}, {"wait": True}):
            try:
                with Reaper(crop, num_batches=4, **kws) as r:
                    for _ in range(4):
                        r()
            except ValueError as e:
                assert str(e) == (
                    "Something not right: result {} contains "
                    "no data upon read from disk.".format(rfile(crop, 2)))
            else:
                raise AssertionError
    write(good, rfile(crop, 2))

    # stand-in for a batch whose batch file is empty / missing
    batch5 = read(bfile(crop, 5))
    write([], bfile(crop, 5))
    try:
        with Reaper(crop, num_batches=5, default_result=0.0) as r:
            for _ in range(11):
                r()
    except ValueError as e:
        assert str(e) == (
            "Something not right: result {} contains "
            "no data upon read from disk.".format(rfile(crop, 5)))
    else:
        raise AssertionError
    os.remove(bfile(crop, 5))
    try:
        with Reaper(crop, num_batches=5, default_result=0.0) as r:
            for _ in range(11):
                r()
    except FileNotFoundError as e:
        assert e.filename == bfile(crop, 5)
    else:
        raise AssertionError
    write(batch5, bfile(crop, 5))

    # a two digit batch number is parsed properly for the stand-in size
    crop2 = Crop(fn=fn, name="reaper2", parent_dir=tmp, batchsize=1)
    crop2.sow_combos(GRID, verbosity=0)
    crop2.grow([1], verbosity=0)
    write([{"a": 3, "b": 3}] * 3, bfile(crop2, 11))
    with Reaper(crop2, num_batches=12, default_result=-1) as r:
        got = [r() for _ in range(14)]
    assert got == [flat[0]] + [-1] * 13

    crop.grow_missing(verbosity=0)
    assert crop.reap() == DIRECT
    crop2.delete_all()


# ------------------------------------------------------- grow corner cases --

def run_grow_corners(tmp):
    crop = Crop(fn=fn, name="corners", parent_dir=tmp, batchsize=5)
    crop.sow_combos(GRID, verbosity=0)

    # not inside a crop folder and no crop given
    here = os.getcwd()
    os.chdir(tmp)
    try:
        try:
            grow(1, verbosity=0)
        except XYZError as e:
            assert str(e) == (
                "`grow` should be run in a "
                '"{crop_parent}/.xyz-{crop_name}" folder, else '
                "`crop_parent` and `crop_name` (or `fn`) should be "
                "specified."), str(e)
        else:
            raise AssertionError
        # ... also when the function is handed over
        try:
            grow(1, fn=fn, verbosity=0)
        except XYZError:
            pass
        else:
            raise AssertionError
    finally:
        os.chdir(here)
    assert os.listdir(os.path.join(crop.location, "results")) == []

    # unknown batch
    try:
        grow(4, crop=crop, verbosity=0)
    except FileNotFoundError as e:
        assert e.filename == bfile(crop, 4)
    else:
        raise AssertionError

    # an empty batch file
    batch2 = read(bfile(crop, 2))
    write([], bfile(crop, 2))
    try:
        grow(2, crop=crop, verbosity=0)
    except ValueError as e:
        assert str(e) == (
            "Something has gone wrong with the loading of "
            "batch xyz-batch-2.jbdmp for the crop at {}.".format(
                crop.location)), str(e)
    else:
        raise AssertionError
    os.chdir(crop.location)
    try:
        try:
            grow(2, verbosity=0)
        except AttributeError:
            pass            # (the message wants ``crop.location``)
        else:
            raise AssertionError
    finally:
        os.chdir(here)
    write(batch2, bfile(crop, 2))
    assert os.listdir(os.path.join(crop.location, "results")) == []

    # the function failing part way: nothing is written
    calls = []

    def flaky(**kws):
        calls.append(kws)
        if len(calls) == 3:
            raise RuntimeError("boom")
        return fn(**kws)

    try:
        grow(1, crop=crop, fn=flaky, verbosity=0)
    except RuntimeError as e:
        assert str(e) == "boom"
    else:
        raise AssertionError
    assert len(calls) == 3
    assert os.listdir(os.path.join(crop.location, "results")) == []

    # the result only appears once the whole batch has been computed
    seen = []

    def watcher(**kws):
        seen.append(os.path.exists(rfile(crop, 1)))
        return fn(**kws)

    grow(1, crop=crop, fn=watcher, verbosity=0)
    assert seen == [False] * 5 and os.path.isfile(rfile(crop, 1))
    del seen[:]
    grow(1, crop=crop, fn=watcher, num_workers=None, verbosity=0)
    assert seen == [True] * 5
    assert read(rfile(crop, 1)) == tuple(fn(**s) for s in SETTINGS[:5])

    # the pool version submits everything up front
    class FakeFuture:
        def __init__(self, log, f, kws):
            self.log, self.f, self.kws = log, f, kws

        def result(self):
            self.log.append(("result", self.kws))
            return self.f(**self.kws)

    class FakeExecutor:
        def __init__(self):
            self.log = []

        def submit(self, f, **kws):
            self.log.append(("submit", kws))
            return FakeFuture(self.log, f, kws)

    import xyzpy.gen.cropping as cropping
    fake = FakeExecutor()
    asked = []
    orig = cropping.get_reusable_executor

    def fake_get(*args, **kwargs):
        asked.append((args, kwargs))
        return fake

    cropping.get_reusable_executor = fake_get
    try:
        grow(2, crop=crop, fn=fn, num_workers=3, verbosity=0)
    finally:
        cropping.get_reusable_executor = orig
    assert asked == [((), {"max_workers": 3})]
    assert fake.log == [("submit", s) for s in SETTINGS[5:10]] + \
        [("result", s) for s in SETTINGS[5:10]]
    assert read(rfile(crop, 2)) == tuple(fn(**s) for s in SETTINGS[5:10])

    # mpi ranks: only rank 0 writes
    saved = {k: os.environ.pop(k, None)
             for k in ("OMPI_COMM_WORLD_RANK", "PMI_RANK")}
    try:
        for env, check_mpi, writes, rank in [
            ({"OMPI_COMM_WORLD_RANK": "1"}, True, False, 1),
            ({"PMI_RANK": "2"}, True, False, 2),
            ({"OMPI_COMM_WORLD_RANK": "0", "PMI_RANK": "3"}, True, True, 0),
            ({"OMPI_COMM_WORLD_RANK": "3", "PMI_RANK": "0"}, True, False, 3),
            ({"PMI_RANK": "0"}, True, True, 0),
            ({"OMPI_COMM_WORLD_RANK": "1", "PMI_RANK": "1"}, False, True,
             None),
        ]:
            os.environ.update(env)
            try:
                with contextlib.redirect_stdout(io.StringIO()) as out:
                    grow(3, crop=crop, check_mpi=check_mpi, verbosity=1)
            finally:
                for key in env:
                    del os.environ[key]
            want = "xyzpy: loaded batch 3 of corners.\n"
            if rank is not None:
                want += "xyzpy: detected mpi rank {}.\n".format(rank)
            want += "xyzpy: success - batch 3 completed.\n"
            assert out.getvalue() == want, (out.getvalue(), want)
            assert os.path.exists(rfile(crop, 3)) == writes, env
            if writes:
                assert read(rfile(crop, 3)) == tuple(
                    fn(**s) for s in SETTINGS[10:])
                os.remove(rfile(crop, 3))
        os.environ["PMI_RANK"] = "zero"
        try:
            grow(3, crop=crop, verbosity=0)
        except ValueError:
            pass
        else:
            raise AssertionError
        finally:
            del os.environ["PMI_RANK"]
    finally:
        for key, val in saved.items():
            if val is not None:
                os.environ[key] = val

    # debugging flag
    root = logging.getLogger()
    level = root.level
    try:
        root.setLevel(logging.WARNING)
        grow(3, crop=crop, debugging=True, verbosity=0)
        assert root.level == logging.DEBUG
    finally:
        root.setLevel(level)

    assert sorted(os.listdir(crop.location)) == [
        "batches", "results", "xyz-function.clpkl", "xyz-settings.jbdmp"]
    assert Crop(name="corners", parent_dir=tmp).reap() == DIRECT


def main():
    tmp = tempfile.mkdtemp(prefix="c04-t2-")
    cwd = os.getcwd()
    try:
        # (growing / reaping show progress bars on stderr - keep it quiet)
        with contextlib.redirect_stderr(io.StringIO()):
            run_reaper_direct(tmp)
            run_grow_corners(tmp)
            run_grow_ways(tmp)
            run_incomplete(tmp)
            run_wait(tmp)
            run_fresh_processes(tmp)
    finally:
        os.chdir(cwd)
        shutil.rmtree(tmp, ignore_errors=True)
    assert not glob.glob(os.path.join(cwd, ".xyz-*"))
    print("PASS")


if __name__ == "__main__":
    main()
