"""Demo / regression check for property C03 (labelled outputs name every
number correctly), run as::

    cd <worktree> && /venv/bin/python /path/to/demo.py

Prints PASS and exits 0 if every check holds.
"""
import os
import sys

sys.path.insert(0, os.getcwd())

import itertools
import warnings
from concurrent.futures import ThreadPoolExecutor

import numpy as np
import xarray as xr

import xyzpy
from xyzpy.gen.combo_runner import (
    combo_runner_core,
    combo_runner_to_ds,
    combo_runner_to_df,
    results_to_ds,
    results_to_df,
)
from xyzpy.gen.case_runner import case_runner_to_ds, case_runner_to_df
from xyzpy.gen.prepare import parse_var_dims, parse_var_names

assert os.path.dirname(os.path.dirname(os.path.abspath(xyzpy.__file__))) == \
    os.getcwd(), xyzpy.__file__

FOCUS = "results_to_df"  # which function this copy of the demo stresses most

NCHECK = [0]


def check(cond, msg=""):
    NCHECK[0] += 1
    if not cond:
        print("FAIL:", msg)
        sys.exit(1)


# ------------------------------------------------------------------------- #
# functions under sweep                                                     #
# ------------------------------------------------------------------------- #

TS = [0.0, 0.5, 1.0, 1.5]
WS = [10, 20, 30]


def f1(a, b):
    return 100 * a + b


def f2(a, b):
    return 100 * a + b, a - b


def f3(a, b):
    return 100 * a + b, a - b, float(a * b) / 7


def f_arr(a, b, t):
    # scalar, 1-d array (dim 't' given by constant t)
    return a + b, [a * ti + b for ti in t]


def f_arr2(a, b, t, w):
    # 1-d, 2-d, scalar
    return (
        np.array([a * ti + b for ti in t]),
        np.array([[a * ti + b * wi for wi in w] for ti in t]),
        a - b,
    )


def f_arr_vc(a, b):
    # internal dims given by var_coords (not supplied to fn)
    return (
        [a * ti + b for ti in TS],
        [[a * ti + b * wi for wi in WS] for ti in TS],
    )


def f_res(a, b, big, c=7):
    # uses a resource and a constant
    return a + b + c + len(big), a * c


def f_ds(a, b):
    return xr.Dataset({
        "s": a + b,
        "v": ("t", [a * ti + b for ti in TS]),
    }, coords={"t": TS})


def f_da(a, b):
    return xr.DataArray([a * ti + b for ti in TS], dims=["t"],
                        coords={"t": TS}, name="v")


def f_dict(a, b):
    return {"s": a + b, "d": a - b}


def f_str(a, b):
    return f"{a}-{b}", a > b


# ------------------------------------------------------------------------- #
# execution options                                                         #
# ------------------------------------------------------------------------- #

THREADS = ThreadPoolExecutor(2)

EXEC_OPTS = [
    {},
    {"shuffle": True},
    {"shuffle": 7},
    {"executor": THREADS},
    {"executor": THREADS, "shuffle": 3},
    {"parallel": True, "num_workers": 2},
    {"parallel": 2, "shuffle": 11},
]
QUICK_OPTS = EXEC_OPTS[:5]


def same(x, y):
    x = np.asarray(x)
    y = np.asarray(y)
    if x.shape != y.shape:
        return False
    if x.dtype.kind in "fc" or y.dtype.kind in "fc":
        return bool(np.array_equal(x, y, equal_nan=True))
    return bool(np.array_equal(x, y))


def check_grid_ds(ds, fn, combos, var_names, var_dims, extra_kws,
                  internal_coords):
    """Full check of a Dataset built from a grid sweep."""
    args = list(combos)
    for arg in args:
        check(arg in ds.dims, f"{arg} not a dim")
        check(list(ds[arg].values) == list(combos[arg]),
              f"coord {arg}: {ds[arg].values} vs {combos[arg]}")
    for name in var_names:
        check(ds[name].dims == tuple(args) + tuple(var_dims[name]),
              f"dims of {name}: {ds[name].dims}")
    for d, vals in internal_coords.items():
        check(d in ds.coords and same(ds[d].values, vals), f"coord {d}")
    for point in itertools.product(*combos.values()):
        kws = dict(zip(args, point))
        expected = fn(**kws, **extra_kws)
        if len(var_names) == 1:
            expected = (expected,)
        sub = ds.sel(kws)
        for name, exp in zip(var_names, expected):
            check(same(sub[name].values, exp),
                  f"{name} at {kws}: {sub[name].values} vs {exp}")


# ------------------------------------------------------------------------- #
# A. grids -> Dataset, 1-3 scalar outputs, order of coordinates kept         #
# ------------------------------------------------------------------------- #

GRIDS = [
    {"a": [3, 1, 2], "b": [20, 10]},
    {"b": [5], "a": [2, -1]},
    {"a": (4, 2, 9, 1), "b": range(3)},
]

for combos in GRIDS:
    cl = {k: list(v) for k, v in combos.items()}
    for opts in QUICK_OPTS:
        ds = combo_runner_to_ds(f1, combos, "x", verbosity=0, **opts)
        check_grid_ds(ds, f1, cl, ["x"], {"x": ()}, {}, {})
        ds = combo_runner_to_ds(f1, combos, ["x"], verbosity=0, **opts)
        check_grid_ds(ds, f1, cl, ["x"], {"x": ()}, {}, {})
        ds = combo_runner_to_ds(f2, combos, ["x", "y"], verbosity=0, **opts)
        check_grid_ds(ds, f2, cl, ["x", "y"], {"x": (), "y": ()}, {}, {})
        ds = combo_runner_to_ds(f3, combos, ("x", "y", "z"), verbosity=0,
                                **opts)
        check_grid_ds(ds, f3, cl, ["x", "y", "z"],
                      {"x": (), "y": (), "z": ()}, {}, {})
        check(ds.attrs == {}, "no attrs expected")

# combos given as tuple-of-pairs, and as a single pair
ds = combo_runner_to_ds(f1, (("a", [3, 1]), ("b", [2, 8, 4])), "x",
                        verbosity=0)
check_grid_ds(ds, f1, {"a": [3, 1], "b": [2, 8, 4]}, ["x"], {"x": ()}, {}, {})
ds = combo_runner_to_ds(f1, ("a", [3, 1]), "x", constants={"b": 5},
                        verbosity=0)
check_grid_ds(ds, f1, {"a": [3, 1]}, ["x"], {"x": ()}, {"b": 5}, {})
check(ds.attrs == {"b": 5}, "constant b should be an attribute")

# string / bool outputs
ds = combo_runner_to_ds(f_str, {"a": [2, 1], "b": [1, 3]}, ["s", "gt"],
                        verbosity=0, shuffle=2)
check_grid_ds(ds, f_str, {"a": [2, 1], "b": [1, 3]}, ["s", "gt"],
              {"s": (), "gt": ()}, {}, {})

# ------------------------------------------------------------------------- #
# B. array outputs and every spelling of var_dims / var_coords              #
# ------------------------------------------------------------------------- #

combos = {"a": [2, 1], "b": [0, 5, 3]}

# single array output, var_dims as str / dict / list
def f_one(a, b, t):
    return [a * ti + b for ti in t]


for vd in ["t", {"v": "t"}, {"v": ["t"]}, {"v": ("t",)}, [("t",)], ["t"],
           [("v", "t")], [("v", ["t"])]]:
    for vn in ["v", ["v"], ("v",)]:
        ds = combo_runner_to_ds(f_one, combos, vn, var_dims=vd,
                                constants={"t": TS}, verbosity=0)
        check_grid_ds(ds, f_one, combos, ["v"], {"v": ("t",)}, {"t": TS},
                      {"t": TS})
        check("t" not in ds.attrs, "dimension constant must not be an attr")

# scalar + 1-d, constants name the dimension
for vd in [{"v": "t"}, {"v": ["t"]}, {"s": (), "v": ("t",)}, [("v", "t")],
           {("v",): "t"}, (("v", ("t",)),), [("s", ()), ("v", ["t"])]]:
    for opts in QUICK_OPTS[:3]:
        ds = combo_runner_to_ds(f_arr, combos, ["s", "v"], var_dims=vd,
                                constants={"t": TS}, attrs={"note": "hi"},
                                verbosity=0, **opts)
        check_grid_ds(ds, f_arr, combos, ["s", "v"],
                      {"s": (), "v": ("t",)}, {"t": TS}, {"t": TS})
        check(dict(ds.attrs) == {"note": "hi"}, f"attrs {ds.attrs}")

# 1-d + 2-d + scalar, constants name both dims, plus a non-dim constant
for vd in [
    {"p": "t", "q": ["t", "w"]},
    {"p": ("t",), "q": ("t", "w"), "r": ()},
    ["t", ["t", "w"], []],
    (("t",), ("t", "w"), ()),
    [("p", "t"), ("q", ("t", "w"))],
]:
    ds = combo_runner_to_ds(f_arr2, combos, ["p", "q", "r"], var_dims=vd,
                            constants={"t": TS, "w": WS}, verbosity=0,
                            attrs={"who": "me", "n": 3}, shuffle=5)
    check_grid_ds(ds, f_arr2, combos, ["p", "q", "r"],
                  {"p": ("t",), "q": ("t", "w"), "r": ()},
                  {"t": TS, "w": WS}, {"t": TS, "w": WS})
    check(dict(ds.attrs) == {"who": "me", "n": 3}, f"attrs {ds.attrs}")

# shared dims for several outputs via tuple key; var_coords spelled as
# dict / list of pairs
def f_pq(a, b):
    return ([a * ti + b for ti in TS], [a - ti * b for ti in TS])


for vc in [{"t": TS}, [("t", TS)], (("t", np.array(TS)),)]:
    ds = combo_runner_to_ds(f_pq, combos, ["p", "q"],
                            var_dims={("p", "q"): "t"}, var_coords=vc,
                            verbosity=0)
    check_grid_ds(ds, f_pq, combos, ["p", "q"],
                  {"p": ("t",), "q": ("t",)}, {}, {"t": TS})

# internal dims through var_coords only (fn does not take them)
for vc in [{"t": TS, "w": WS}, [("t", TS), ("w", WS)]]:
    ds = combo_runner_to_ds(f_arr_vc, combos, ["p", "q"],
                            var_dims={"p": "t", "q": ["t", "w"]},
                            var_coords=vc, constants=None, verbosity=0,
                            executor=THREADS)
    check_grid_ds(ds, f_arr_vc, combos, ["p", "q"],
                  {"p": ("t",), "q": ("t", "w")}, {}, {"t": TS, "w": WS})

# ------------------------------------------------------------------------- #
# C. constants (dim -> coord, else attr), resources never, attrs kept       #
# ------------------------------------------------------------------------- #

BIG = list(range(5))
for opts in EXEC_OPTS:
    ds = combo_runner_to_ds(f_res, combos, ["x", "y"], constants={"c": 4},
                            resources={"big": BIG}, attrs={"tag": "T"},
                            verbosity=0, **opts)
    check_grid_ds(ds, f_res, combos, ["x", "y"], {"x": (), "y": ()},
                  {"c": 4, "big": BIG}, {})
    check(dict(ds.attrs) == {"tag": "T", "c": 4}, f"attrs {ds.attrs}")
    check("big" not in ds.attrs and "big" not in ds.coords
          and "big" not in ds.data_vars and "big" not in ds.dims,
          "resource recorded")
    check("c" not in ds.coords, "non-dim constant must not be a coord")

# a constant that cannot be stored as an attr... is still stored by xarray
# in memory, just check several constant types
ds = combo_runner_to_ds(f_res, combos, ["x", "y"],
                        constants=[("c", 2)], resources=[("big", "abc")],
                        verbosity=0)
check(dict(ds.attrs) == {"c": 2}, "constants as list of pairs")
check_grid_ds(ds, f_res, combos, ["x", "y"], {"x": (), "y": ()},
              {"c": 2, "big": "abc"}, {})

# attrs and constants with the same key: constant wins (set afterwards)
ds = combo_runner_to_ds(f_res, combos, ["x", "y"], constants={"c": 2},
                        resources={"big": ()}, attrs={"c": "old", "k": 1},
                        verbosity=0)
check(dict(ds.attrs) == {"c": 2, "k": 1}, f"attrs {ds.attrs}")

# ------------------------------------------------------------------------- #
# D. var_names=None: fn returns Dataset / DataArray / dict                  #
# ------------------------------------------------------------------------- #

for opts in QUICK_OPTS:
    ds = combo_runner_to_ds(f_ds, combos, None, verbosity=0,
                            attrs={"z": 1}, **opts)
    check(set(ds.data_vars) == {"s", "v"}, "data vars of ds output")
    check_grid_ds(ds, lambda a, b: (a + b, [a * ti + b for ti in TS]),
                  combos, ["s", "v"], {"s": (), "v": ("t",)}, {}, {"t": TS})
    check(dict(ds.attrs) == {"z": 1}, "attrs on xobj output")

    da = combo_runner_to_ds(f_da, combos, None, verbosity=0, **opts)
    check(da.dims[:2] == ("a", "b") and da.dims[2:] == ("t",), "da dims")
    for a, b in itertools.product(*combos.values()):
        check(same(da.sel(a=a, b=b).values, f_da(a, b).values), "da values")
    check(list(da["a"].values) == combos["a"], "da coord a")
    check(list(da["b"].values) == combos["b"], "da coord b")

    ds = combo_runner_to_ds(f_dict, combos, None, verbosity=0,
                            constants=None, **opts)
    check_grid_ds(ds, lambda a, b: (a + b, a - b), combos, ["s", "d"],
                  {"s": (), "d": ()}, {}, {})

# constants with xobj output: attribute unless a dimension
def f_ds_c(a, b, c):
    return xr.Dataset({"s": a + b + c})


ds = combo_runner_to_ds(f_ds_c, combos, None, constants={"c": 9},
                        verbosity=0)
check(dict(ds.attrs) == {"c": 9}, "xobj constant attr")
check_grid_ds(ds, lambda a, b: a + b + 9, combos, ["s"], {"s": ()}, {}, {})

# ------------------------------------------------------------------------- #
# E. cases -> Dataset: sorted union coordinates, nan where not run          #
# ------------------------------------------------------------------------- #

CASES = [(3, 20), (1, 10), (2, 20), (3, 5)]


def check_cases_ds(ds, fn, fn_args, cases, var_names, var_dims, extra_kws,
                   sub_combos=None):
    sub_combos = sub_combos or {}
    for i, arg in enumerate(fn_args):
        union = sorted({c[i] for c in cases})
        check(list(ds[arg].values) == union, f"union coord {arg}")
    for arg, vals in sub_combos.items():
        check(list(ds[arg].values) == list(vals), f"combo coord {arg}")
    all_args = tuple(fn_args) + tuple(sub_combos)
    for name in var_names:
        check(ds[name].dims == all_args + tuple(var_dims[name]),
              f"dims {name}: {ds[name].dims}")
    ran = set(cases)
    for point in itertools.product(*(ds[a].values.tolist() for a in fn_args)):
        for sub in itertools.product(*sub_combos.values()):
            kws = dict(zip(all_args, point + sub))
            s = ds.sel(kws)
            if point in ran:
                exp = fn(**kws, **extra_kws)
                if len(var_names) == 1:
                    exp = (exp,)
                for name, e in zip(var_names, exp):
                    check(same(s[name].values, e), f"{name} at {kws}")
            else:
                for name in var_names:
                    check(bool(s[name].isnull().all()),
                          f"{name} should be nan at {kws}")


for opts in QUICK_OPTS:
    ds = case_runner_to_ds(f1, ("a", "b"), CASES, "x", verbosity=0, **opts)
    check_cases_ds(ds, f1, ("a", "b"), CASES, ["x"], {"x": ()}, {})
    ds = case_runner_to_ds(f3, None, CASES, ["x", "y", "z"], verbosity=0,
                           **opts)
    check_cases_ds(ds, f3, ("a", "b"), CASES, ["x", "y", "z"],
                   {"x": (), "y": (), "z": ()}, {})
    # cases as dicts
    dict_cases = [{"a": a, "b": b} for a, b in CASES]
    ds = case_runner_to_ds(f2, None, dict_cases, ["x", "y"], verbosity=0,
                           attrs={"k": "v"}, **opts)
    check_cases_ds(ds, f2, ("a", "b"), CASES, ["x", "y"],
                   {"x": (), "y": ()}, {})
    check(dict(ds.attrs) == {"k": "v"}, "attrs with cases")
    # array outputs with cases, dimension constant + attribute constant
    ds = case_runner_to_ds(f_arr, ["a", "b"], CASES, ["s", "v"],
                           var_dims={"v": "t"}, constants={"t": TS},
                           verbosity=0, **opts)
    check_cases_ds(ds, f_arr, ("a", "b"), CASES, ["s", "v"],
                   {"s": (), "v": ("t",)}, {"t": TS})
    check(same(ds["t"].values, TS) and "t" not in ds.attrs, "t coord")

# cases on one arg + combos on the other, via both entry points
cases_a = [(3,), (1,)]
for opts in QUICK_OPTS[:3]:
    ds = case_runner_to_ds(f2, "a", [3, 1], ["x", "y"],
                           combos={"b": [9, 4]}, verbosity=0, **opts)
    check_cases_ds(ds, f2, ("a",), cases_a, ["x", "y"], {"x": (), "y": ()},
                   {}, {"b": [9, 4]})
    ds = combo_runner_to_ds(f2, {"b": [9, 4]}, ["x", "y"],
                            cases=[{"a": 3}, {"a": 1}], verbosity=0, **opts)
    check_cases_ds(ds, f2, ("a",), cases_a, ["x", "y"], {"x": (), "y": ()},
                   {}, {"b": [9, 4]})

# xobj outputs with cases
ds = case_runner_to_ds(f_ds, None, CASES, None, verbosity=0)
check_cases_ds(ds, lambda a, b: (a + b, [a * ti + b for ti in TS]),
               ("a", "b"), CASES, ["s", "v"], {"s": (), "v": ("t",)}, {})

# ------------------------------------------------------------------------- #
# F. DataFrame form: one row per setting, paired with own outputs           #
# ------------------------------------------------------------------------- #


def check_df(df, fn, settings, var_names, extra_kws, recorded, absent):
    check(len(df) == len(settings), f"{len(df)} rows vs {len(settings)}")
    for i, kws in enumerate(settings):
        row = df.iloc[i]
        for k, v in kws.items():
            check(row[k] == v, f"row {i} arg {k}: {row[k]} vs {v}")
        exp = fn(**kws, **extra_kws)
        if len(var_names) == 1:
            exp = (exp,)
        for name, e in zip(var_names, exp):
            check(row[name] == e, f"row {i} {name}: {row[name]} vs {e}")
        for k, v in recorded.items():
            check(row[k] == v, f"row {i} recorded {k}")
    for k in absent:
        check(k not in df.columns, f"{k} must not be recorded")
    expected_cols = (list(settings[0]) + [k for k in recorded
                                          if k not in settings[0]]
                     + list(var_names))
    check(list(df.columns) == expected_cols,
          f"columns {list(df.columns)} vs {expected_cols}")


grid_settings = [dict(zip(combos, p))
                 for p in itertools.product(*combos.values())]
case_settings = [dict(zip(("a", "b"), c)) for c in CASES]

for opts in EXEC_OPTS:
    df = combo_runner_to_df(f1, combos, "x", verbosity=0, **opts)
    check_df(df, f1, grid_settings, ["x"], {}, {}, [])
    df = combo_runner_to_df(f1, combos, ["x"], verbosity=0, **opts)
    check_df(df, f1, grid_settings, ["x"], {}, {}, [])
    df = combo_runner_to_df(f3, combos, ["x", "y", "z"], verbosity=0, **opts)
    check_df(df, f3, grid_settings, ["x", "y", "z"], {}, {}, [])
    df = combo_runner_to_ds(f_res, combos, ["x", "y"], constants={"c": 4},
                            resources={"big": BIG}, attrs={"tag": "T"},
                            to_df=True, verbosity=0, **opts)
    check_df(df, f_res, grid_settings, ["x", "y"], {"c": 4, "big": BIG},
             {"c": 4, "tag": "T"}, ["big"])
    df = case_runner_to_df(f2, ("a", "b"), CASES, ["x", "y"], verbosity=0,
                           **opts)
    check_df(df, f2, case_settings, ["x", "y"], {}, {}, [])
    df = case_runner_to_df(f_res, ("a", "b"), CASES, ["x", "y"],
                           constants={"c": 1}, resources={"big": "xy"},
                           verbosity=0, **opts)
    check_df(df, f_res, case_settings, ["x", "y"], {"c": 1, "big": "xy"},
             {"c": 1}, ["big"])
    df = case_runner_to_df(f_str, None, CASES, ["s", "gt"], verbosity=0,
                           **opts)
    check_df(df, f_str, case_settings, ["s", "gt"], {}, {}, [])

# to_df refuses dataset-like specifications
for bad in [
    dict(var_names=None),
    dict(var_names=["x"], var_dims={"x": "t"}),
    dict(var_names=["x"], var_coords={"t": TS}),
]:
    try:
        combo_runner_to_df(f1, combos, verbosity=0, **bad)
    except ValueError:
        check(True)
    else:
        check(False, f"to_df should refuse {bad}")

# direct use of results_to_df: scalar and tuple results, attrs, resources
settings = [{"a": 1, "r": "R"}, {"a": 2, "r": "R"}, {"a": 3, "r": "R"}]
df = results_to_df([10, 20, 30], [dict(s) for s in settings], {"m": 0},
                   {"r": "R", "unused": 1}, ("x",))
check(list(df.columns) == ["a", "m", "x"], f"{list(df.columns)}")
check(df.values.tolist() == [[1, 0, 10], [2, 0, 20], [3, 0, 30]], "df vals")
df = results_to_df([(10, 1), (20, 2), (30, 3)], [dict(s) for s in settings],
                   None, {}, ("x", "y"))
check(list(df.columns) == ["a", "r", "x", "y"], f"{list(df.columns)}")
check(df.values.tolist() == [[1, "R", 10, 1], [2, "R", 20, 2],
                             [3, "R", 30, 3]], "df vals 2")
df = results_to_df([np.float64(1.5), np.array(2.5)],
                   [{"a": 1}, {"a": 2}], {}, (), ["x"])
check(df.values.tolist() == [[1, 1.5], [2, 2.5]], "0-d results")

# ------------------------------------------------------------------------- #
# G. direct use of results_to_ds and combo_runner_core                      #
# ------------------------------------------------------------------------- #

pc = (("a", [2, 1]), ("b", [0, 5, 3]))
res = combo_runner_core(f_arr2, pc, {"t": TS, "w": WS}, split=True,
                        verbosity=0)
with warnings.catch_warnings():
    warnings.simplefilter("error")
    ds = results_to_ds(
        res, pc, ("p", "q", "r"),
        {"p": ("t",), "q": ("t", "w"), "r": ()}, {},
        constants={"t": TS, "w": WS, "k": "const"}, attrs={"x": 1},
    )
check_grid_ds(ds, f_arr2, dict(pc), ["p", "q", "r"],
              {"p": ("t",), "q": ("t", "w"), "r": ()}, {"t": TS, "w": WS},
              {"t": TS, "w": WS})
check(dict(ds.attrs) == {"x": 1, "k": "const"}, "direct attrs")
check(list(ds.data_vars) == ["p", "q", "r"], "data var order")
check(list(ds.coords) == ["a", "b", "t", "w"], f"coords {list(ds.coords)}")

# var_coords overriding / supplementing combos coords; no constants, no attrs
res = combo_runner_core(f_arr_vc, pc, {}, split=True, verbosity=0)
ds = results_to_ds(res, pc, ("p", "q"), {"p": ("t",), "q": ("t", "w")},
                   {"t": TS, "w": WS})
check(list(ds.coords) == ["a", "b", "t", "w"], "coords order")
check(ds.attrs == {}, "no attrs")
check_grid_ds(ds, f_arr_vc, dict(pc), ["p", "q"],
              {"p": ("t",), "q": ("t", "w")}, {}, {"t": TS, "w": WS})

# single variable (results wrapped), constants -> attr
res = combo_runner_core(f1, pc, {}, verbosity=0)
ds = results_to_ds(res, pc, ("x",), {"x": ()}, {}, constants={"c": 1})
check_grid_ds(ds, f1, dict(pc), ["x"], {"x": ()}, {}, {})
check(dict(ds.attrs) == {"c": 1}, "single var attrs")

# wrong number of results
try:
    results_to_ds(combo_runner_core(f2, pc, {}, split=True, verbosity=0),
                  pc, ("x", "y", "z"), {"x": (), "y": (), "z": ()}, {})
except ValueError as e:
    check("Wrong number of results (2)" in str(e), str(e))
else:
    check(False, "expected ValueError")

# a constant which can't be set as an attribute only warns
class BadAttrs(dict):
    def __setitem__(self, k, v):
        if k == "bad":
            raise RuntimeError("nope")
        super().__setitem__(k, v)


_orig_attrs = xr.Dataset.attrs
try:
    store = {}

    def _get(self):
        return store.setdefault(id(self), BadAttrs())

    def _set(self, value):
        store[id(self)] = BadAttrs(value)

    xr.Dataset.attrs = property(_get, _set)
    with warnings.catch_warnings(record=True) as w:
        warnings.simplefilter("always")
        ds = results_to_ds(res, pc, ("x",), {"x": ()}, {},
                           constants={"bad": 1, "good": 2},
                           attrs={"first": 0})
        attrs_seen = dict(ds.attrs)
    msgs = [str(x.message) for x in w
            if "Failed to add constant" in str(x.message)]
finally:
    xr.Dataset.attrs = _orig_attrs
check(msgs == ["Failed to add constant bad=1 to dataset attrs: nope"],
      f"warning {msgs}")
check(attrs_seen == {"first": 0, "good": 2}, f"{attrs_seen}")

# combo_runner_core: nested / flat / split / info, with and without cases
nested = combo_runner_core(f2, pc, {}, verbosity=0)
check(nested == tuple(tuple(f2(a, b) for b in pc[1][1]) for a in pc[0][1]),
      "nested")
for sh in [False, True, 9]:
    info = {}
    sp = combo_runner_core(f2, pc, {}, split=True, verbosity=0, shuffle=sh,
                           info=info)
    check(sp == tuple(tuple(tuple(f2(a, b)[i] for b in pc[1][1])
                            for a in pc[0][1]) for i in range(2)), "split")
    check(info == {"fn_args": ("a", "b"),
                   "all_combo_values": ([2, 1], [0, 5, 3])}, f"info {info}")
    info = {}
    fl = combo_runner_core(f2, pc, {"z": 1} and {}, flat=True, verbosity=0,
                           shuffle=sh, info=info)
    check(fl == tuple(f2(a, b) for a in pc[0][1] for b in pc[1][1]), "flat")
    check(info == {"settings": [{"a": a, "b": b} for a in pc[0][1]
                                for b in pc[1][1]]}, "flat info")
    fls = combo_runner_core(f2, pc, {}, flat=True, split=True, verbosity=0,
                            shuffle=sh)
    check(fls == tuple(tuple(f2(a, b)[i] for a in pc[0][1]
                             for b in pc[1][1]) for i in range(2)),
          "flat split")
    info = {}
    cs = combo_runner_core(f1, (), {}, cases=[{"a": 3, "b": 1},
                                              {"a": 1, "b": 2}],
                           verbosity=0, shuffle=sh, info=info)
    check(info == {"fn_args": ("a", "b"),
                   "all_combo_values": ([1, 3], [1, 2])}, f"case info {info}")
    check(same(np.array(cs, dtype=float),
               [[np.nan, f1(1, 2)], [f1(3, 1), np.nan]]), f"case nested {cs}")
    cs2 = combo_runner_core(f2, (("b", [7, 6]),), {},
                            cases=[{"a": 3}, {"a": 1}], split=True,
                            verbosity=0, shuffle=sh)
    check(cs2 == (((107, 106), (307, 306)), ((-6, -5), (-4, -3))),
          f"case+combo split {cs2}")

# ------------------------------------------------------------------------- #
# H. Runner.run_combos / run_cases and label()                              #
# ------------------------------------------------------------------------- #

r = xyzpy.Runner(f_arr2, ["p", "q", "r"], var_dims={"p": "t", "q": ["t", "w"]},
                 constants={"t": TS}, attrs={"made": "runner"})
for opts in QUICK_OPTS[:3]:
    ds = r.run_combos(combos, constants={"w": WS}, verbosity=0, **opts)
    check_grid_ds(ds, f_arr2, combos, ["p", "q", "r"],
                  {"p": ("t",), "q": ("t", "w"), "r": ()},
                  {"t": TS, "w": WS}, {"t": TS, "w": WS})
    check(dict(ds.attrs) == {"made": "runner"}, "runner attrs")
    check(r.last_ds is ds, "last_ds")
    ds = r.run_cases(CASES, constants={"w": WS}, verbosity=0, **opts)
    check_cases_ds(ds, f_arr2, ("a", "b"), CASES, ["p", "q", "r"],
                   {"p": ("t",), "q": ("t", "w"), "r": ()},
                   {"t": TS, "w": WS})
    check(same(ds["w"].values, WS), "w coord in cases")


@xyzpy.label(var_names=["x", "y"], constants={"c": 3}, resources={"big": BIG},
             attrs={"lab": True})
def labelled(a, b, big, c):
    return f_res(a, b, big, c)


check(labelled(1, 2, big=BIG, c=3) == f_res(1, 2, BIG, 3), "label callable")
ds = labelled.run_combos(combos, verbosity=0, shuffle=4)
check_grid_ds(ds, f_res, combos, ["x", "y"], {"x": (), "y": ()},
              {"c": 3, "big": BIG}, {})
check(dict(ds.attrs) == {"lab": True, "c": 3}, f"label attrs {ds.attrs}")
ds = labelled.run_cases([{"a": a, "b": b} for a, b in CASES], verbosity=0)
check_cases_ds(ds, f_res, ("a", "b"), CASES, ["x", "y"], {"x": (), "y": ()},
               {"c": 3, "big": BIG})
df = labelled.run_combos(combos, verbosity=0, to_df=True, shuffle=True)
check_df(df, f_res, grid_settings, ["x", "y"], {"c": 3, "big": BIG},
         {"c": 3, "lab": True}, ["big"])
df = labelled.run_cases(CASES, verbosity=0, to_df=True, executor=THREADS)
check_df(df, f_res, case_settings, ["x", "y"], {"c": 3, "big": BIG},
         {"c": 3, "lab": True}, ["big"])


@xyzpy.label(var_names=None)
def labelled_ds(a, b):
    return f_ds(a, b)


ds = labelled_ds.run_combos(combos, verbosity=0)
check_grid_ds(ds, lambda a, b: (a + b, [a * ti + b for ti in TS]),
              combos, ["s", "v"], {"s": (), "v": ("t",)}, {}, {"t": TS})

# ------------------------------------------------------------------------- #
# I. spelling parsers                                                       #
# ------------------------------------------------------------------------- #

check(parse_var_names(None) == (None,), "names None")
check(parse_var_names("x") == ("x",), "names str")
check(parse_var_names(["x", "y"]) == ("x", "y"), "names list")
vn = ("x", "y", "z")
check(parse_var_dims(None, vn) == {"x": (), "y": (), "z": ()}, "dims None")
check(parse_var_dims({"y": "t"}, vn) == {"x": (), "y": ("t",), "z": ()}, "d1")
check(parse_var_dims({("x", "z"): ["t", "w"]}, vn)
      == {"x": ("t", "w"), "y": (), "z": ("t", "w")}, "d2")
check(parse_var_dims(["t", (), ["t", "w"]], vn)
      == {"x": ("t",), "y": (), "z": ("t", "w")}, "d3")
check(parse_var_dims([("z", "t")], vn) == {"x": (), "y": (), "z": ("t",)},
      "d4")
check(parse_var_dims("t", ("x",)) == {"x": ("t",)}, "d5")
check(parse_var_dims(None, None) == {}, "d6")
for bad_vd, bad_vn in [("t", vn), (["t", "w"], vn), ({"nope": "t"}, vn),
                       ({("x", "nope"): "t"}, vn), ("t", None)]:
    try:
        parse_var_dims(bad_vd, bad_vn)
    except ValueError:
        check(True)
    else:
        check(False, f"expected ValueError for {bad_vd}")

# ------------------------------------------------------------------------- #
# J. extra stress of the DataFrame labelling                                #
# ------------------------------------------------------------------------- #

import pandas as pd


def rows_of(df):
    return [
        {k: (v.item() if hasattr(v, "item") else v) for k, v in r.items()}
        for r in df.to_dict("records")
    ]


# many shuffle seeds, every executor: row i <-> setting i <-> own outputs
big_combos = {"a": [5, 3, 8, 1], "b": [2, 9, 4], "c": [0, 1]}


def f_abc(a, b, c):
    return a * 100 + b * 10 + c, f"{a}{b}{c}", a * b > c + 10


big_settings = [dict(zip(big_combos, p))
                for p in itertools.product(*big_combos.values())]
for seed in [False, True, 2, 3, 5, 8, 13, 21]:
    for ex in [{}, {"executor": THREADS}]:
        df = combo_runner_to_df(f_abc, big_combos, ["n", "s", "t"],
                                shuffle=seed, verbosity=0, **ex)
        check_df(df, f_abc, big_settings, ["n", "s", "t"], {}, {}, [])
        check(rows_of(df) == [
            {**kws, **dict(zip(["n", "s", "t"], f_abc(**kws)))}
            for kws in big_settings
        ], "records")
df = combo_runner_to_df(f_abc, big_combos, ["n", "s", "t"], shuffle=4,
                        parallel=True, num_workers=2, verbosity=0)
check_df(df, f_abc, big_settings, ["n", "s", "t"], {}, {}, [])

# cases + sub-combos in DataFrame form
sub_settings = [{"a": a, "b": b, "c": c} for a, b in CASES for c in [1, 0]]
for seed in [False, True, 6]:
    df = case_runner_to_df(f_abc, ("a", "b"), CASES, ["n", "s", "t"],
                           combos={"c": [1, 0]}, shuffle=seed, verbosity=0)
    check_df(df, f_abc, sub_settings, ["n", "s", "t"], {}, {}, [])
    df = combo_runner_to_df(f_abc, {"c": [1, 0]}, ["n", "s", "t"],
                            cases=[{"a": a, "b": b} for a, b in CASES],
                            shuffle=seed, verbosity=0)
    check_df(df, f_abc, sub_settings, ["n", "s", "t"], {}, {}, [])

# direct: kinds of per-call result
def direct(results, var_names, attrs=None, resources=()):
    sets = [{"a": i, "res": "R"} for i in range(len(results))]
    return results_to_df(results, sets, attrs, resources, var_names)


df = direct([[1, 2], [3, 4]], ["x", "y"])                   # lists
check(rows_of(df) == [{"a": 0, "res": "R", "x": 1, "y": 2},
                      {"a": 1, "res": "R", "x": 3, "y": 4}], "lists")
df = direct([np.array([1, 2]), np.array([3, 4])], ("x", "y"))   # arrays
check(rows_of(df) == [{"a": 0, "res": "R", "x": 1, "y": 2},
                      {"a": 1, "res": "R", "x": 3, "y": 4}], "arrays")
df = direct([(i for i in (1, 2)), (i for i in (3, 4))], ("x", "y"))
check(rows_of(df) == [{"a": 0, "res": "R", "x": 1, "y": 2},
                      {"a": 1, "res": "R", "x": 3, "y": 4}], "generators")
df = direct([7, 8.5, True], ("x",), resources={"res": 0})    # bare scalars
check(df.to_dict("records") == [{"a": 0, "x": 7}, {"a": 1, "x": 8.5},
                                {"a": 2, "x": True}], "scalars")
df = direct([(7,), (8,)], ["x"], attrs={"k": "v", "a": -1},
            resources=["res", "missing"])                   # attrs override
check(rows_of(df) == [{"a": -1, "k": "v", "x": 7},
                      {"a": -1, "k": "v", "x": 8}], "attrs override")
check(list(df.columns) == ["a", "k", "x"], "column order")
df = direct([(1, 2), (3, 4)], ["a", "y"])          # output named like an arg
check(rows_of(df) == [{"a": 1, "res": "R", "y": 2},
                      {"a": 3, "res": "R", "y": 4}], "output overrides arg")
df = direct([], ["x"])
check(len(df) == 0, "empty")
check(isinstance(df, pd.DataFrame), "type")

# a failing row propagates the error
class Boom:
    def __iter__(self):
        raise KeyError("boom")


try:
    direct([(1,), Boom()], ["x"])
except KeyError:
    check(True)
else:
    check(False, "expected KeyError")

THREADS.shutdown()
print(f"{NCHECK[0]} checks on {FOCUS}")
print("PASS")
