"""Demo for C02 / refactoring 2 (_unflatten loop and process_results tail).

Checks, against an independent reference model, that sparse cases (optionally
crossed with sub-grids) call the function exactly once per requested setting,
never for anything else, and that the nested / dataset output spans the union
of case values with all-missing placeholders elsewhere.
"""
import os
import sys

sys.path.insert(0, os.getcwd())

import itertools
import math
import random

import numpy as np

import xyzpy
from xyzpy.gen.combo_runner import (
    combo_runner_core, _unflatten, nan_like_result,
)

assert os.path.abspath(xyzpy.__file__).startswith(os.getcwd()), xyzpy.__file__

ARGS = ("a", "b", "c", "d")
DOMAIN = {
    "a": [1, 2, 3, 4],
    "b": [10, 20, 30],
    "c": ["x", "y", "z"],
    "d": [0.5, 1.5, 2.5],
}
CALLS = []


def code(kws):
    # unique number for each setting
    return (
        DOMAIN["a"].index(kws.get("a", 1)) * 1000
        + DOMAIN["b"].index(kws.get("b", 10)) * 100
        + DOMAIN["c"].index(kws.get("c", "x")) * 10
        + DOMAIN["d"].index(kws.get("d", 0.5))
    )


def make_fn(kind, argnames):
    def fn(**kws):
        assert set(kws) == set(argnames) | {"k"}, kws
        assert kws["k"] == 7
        rec = {k: v for k, v in kws.items() if k != "k"}
        CALLS.append(tuple(sorted(rec.items())))
        n = code(rec)
        if kind == "number":
            return float(n)
        if kind == "bool":
            return n % 2 == 0
        if kind == "str":
            return "s%d" % n
        if kind == "tuple":
            return float(n), [n, n + 1, n + 2]
        if kind == "nested":
            return ([[n, n + 1], [n + 2, n + 3], [n + 4, n + 5]],)
        raise AssertionError(kind)

    return fn


def expected_value(kind, rec):
    n = code(rec)
    return {
        "number": float(n),
        "bool": n % 2 == 0,
        "str": "s%d" % n,
    }[kind]


def is_missing(x):
    if x is None:
        return True
    try:
        return bool(np.all(np.isnan(np.asarray(x, dtype=float))))
    except (TypeError, ValueError):
        return False


def index_nested(nested, idx):
    for i in idx:
        nested = nested[i]
    return nested


def random_problem(rng):
    ncase = rng.randint(1, 4)
    order = list(ARGS)
    rng.shuffle(order)
    case_args = tuple(order[:ncase])
    rest = order[ncase:]
    combo_args = tuple(a for a in rest if rng.random() < 0.6)
    all_cases = list(itertools.product(*(DOMAIN[a] for a in case_args)))
    rng.shuffle(all_cases)
    cases = all_cases[: rng.randint(1, min(5, len(all_cases)))]
    combos = {}
    for a in combo_args:
        vals = list(DOMAIN[a])
        rng.shuffle(vals)
        combos[a] = vals[: rng.randint(1, len(vals))]
    return case_args, cases, combos


def expected_settings(case_args, cases, combos):
    out = []
    for c in cases:
        for p in itertools.product(*combos.values()):
            kws = dict(zip(case_args, c))
            kws.update(zip(combos.keys(), p))
            out.append(kws)
    return out


def check_nested(kind, case_args, cases, combos, shuffle, dict_spelling):
    del CALLS[:]
    fn_args = case_args + tuple(combos)
    fn = make_fn(kind, fn_args)
    if dict_spelling:
        cs = [dict(zip(case_args, c)) for c in cases]
        res = xyzpy.combo_runner(
            fn, combos=combos or None, cases=cs, constants={"k": 7},
            shuffle=shuffle, verbosity=0,
            split=(kind == "tuple"),
        )
    else:
        info = {}
        cs = xyzpy.gen.prepare.parse_cases(cases, case_args)
        res = combo_runner_core(
            fn, xyzpy.gen.prepare.parse_combos(combos), {"k": 7}, cases=cs,
            shuffle=shuffle, verbosity=0, info=info,
            split=(kind == "tuple"),
        )
        assert info["fn_args"] == fn_args
        assert tuple(map(list, info["all_combo_values"])) == tuple(
            [sorted({c[i] for c in cases}) for i in range(len(case_args))]
            + [list(v) for v in combos.values()]
        )

    exp = expected_settings(case_args, cases, combos)
    # exactly once each, never anything else
    assert sorted(CALLS) == sorted(tuple(sorted(e.items())) for e in exp), (
        CALLS, exp)
    assert len(set(CALLS)) == len(CALLS)

    # union coordinates
    coords = [sorted({c[i] for c in cases}) for i in range(len(case_args))]
    coords += [list(v) for v in combos.values()]
    requested = {tuple(e[a] for a in fn_args) for e in exp}

    def shape_of(x):
        return np.asarray(x, dtype=object if kind in ("bool", "str")
                          else float).shape

    for idx in itertools.product(*(range(len(c)) for c in coords)):
        loc = tuple(c[i] for c, i in zip(coords, idx))
        rec = dict(zip(fn_args, loc))
        if kind == "tuple":
            v0 = index_nested(res[0], idx)
            v1 = index_nested(res[1], idx)
            if loc in requested:
                n = code(rec)
                assert v0 == float(n) and list(v1) == [n, n + 1, n + 2]
            else:
                assert is_missing(v0) and np.shape(v0) == ()
                assert is_missing(v1) and np.shape(v1) == (3,)
        elif kind == "nested":
            v = index_nested(res, idx)
            if loc in requested:
                n = code(rec)
                assert v == ([[n, n + 1], [n + 2, n + 3], [n + 4, n + 5]],)
            else:
                assert isinstance(v, tuple) and len(v) == 1
                assert is_missing(v[0]) and np.shape(v[0]) == (3, 2)
        else:
            v = index_nested(res, idx)
            if loc in requested:
                assert v == expected_value(kind, rec), (v, rec)
                assert type(v) is type(expected_value(kind, rec))
            else:
                if kind in ("bool", "str"):
                    assert v is None
                else:
                    assert isinstance(v, float) and math.isnan(v)
    # the nested structure has exactly the union shape
    top = res[0] if kind == "tuple" else res
    for depth, c in enumerate(coords):
        assert isinstance(top, tuple) and len(top) == len(c)
        top = top[0]


def check_flat(kind, case_args, cases, combos, shuffle):
    del CALLS[:]
    fn_args = case_args + tuple(combos)
    fn = make_fn(kind, fn_args)
    res = xyzpy.case_runner(
        fn, case_args, cases, combos=combos or None, constants={"k": 7},
        shuffle=shuffle, verbosity=0,
    )
    exp = expected_settings(case_args, cases, combos)
    assert sorted(CALLS) == sorted(tuple(sorted(e.items())) for e in exp)
    assert len(res) == len(exp)
    # results are in the requested (cases outer, grid inner) order
    for r, e in zip(res, exp):
        n = code(e)
        if kind in ("number", "bool", "str"):
            assert r == expected_value(kind, e)
        elif kind == "tuple":
            assert r == (float(n), [n, n + 1, n + 2])


def check_ds(kind, case_args, cases, combos, shuffle):
    del CALLS[:]
    fn_args = case_args + tuple(combos)
    base = make_fn("number", fn_args)

    if kind == "dict":
        def fn(**kws):
            n = base(**kws)
            return {"u": n, "w": ("t", [n, n + 1.0])}
        var_names = None
        var_dims = None
    elif kind == "tuple":
        def fn(**kws):
            n = base(**kws)
            return n, [n, n + 1.0]
        var_names = ("u", "w")
        var_dims = {"w": "t"}
    else:
        def fn(**kws):
            return base(**kws)
        var_names = "u"
        var_dims = None

    ds = xyzpy.case_runner_to_ds(
        fn, case_args, cases, var_names=var_names, var_dims=var_dims,
        var_coords={"t": [0, 1]} if kind == "tuple" else None,
        combos=combos or None, constants={"k": 7},
        shuffle=shuffle, verbosity=0,
    )
    exp = expected_settings(case_args, cases, combos)
    assert sorted(CALLS) == sorted(tuple(sorted(e.items())) for e in exp)
    requested = {tuple(e[a] for a in fn_args) for e in exp}
    for i, a in enumerate(case_args):
        assert list(ds[a].values) == sorted({c[i] for c in cases})
    for a, v in combos.items():
        assert list(ds[a].values) == list(v)
    coords = [list(ds[a].values) for a in fn_args]
    for loc in itertools.product(*coords):
        rec = dict(zip(fn_args, loc))
        u = ds["u"].sel(rec).values
        if loc in requested:
            assert float(u) == float(code(rec))
        else:
            assert np.isnan(u)
        if kind in ("dict", "tuple"):
            w = ds["w"].sel(rec).values
            assert w.shape == (2,)
            if loc in requested:
                assert list(w) == [code(rec), code(rec) + 1.0]
            else:
                assert np.all(np.isnan(w))


def check_rejected():
    del CALLS[:]
    fn = make_fn("number", ("a", "b"))
    for cases, combos in [
        ([{"a": 1, "b": 10}], {"b": [10, 20]}),
        ([{"a": 1}], {"a": [1, 2], "b": [10]}),
        ([{"b": 10, "a": 1}, {"b": 20, "a": 2}], {"a": [3]}),
    ]:
        for runner in (
            lambda: xyzpy.combo_runner(
                fn, combos=combos, cases=cases, constants={"k": 7},
                verbosity=0),
            lambda: xyzpy.combo_runner_to_ds(
                fn, combos, "u", cases=cases, constants={"k": 7},
                verbosity=0),
            lambda: xyzpy.case_runner(
                fn, None, cases, combos=combos, constants={"k": 7},
                verbosity=0),
        ):
            try:
                runner()
            except ValueError as e:
                assert "both" in str(e)
            else:
                raise AssertionError("overlap not rejected")
    assert CALLS == []


def check_misc():
    # unsortable union of case values -> still a union, any order
    del CALLS[:]
    info = {}
    res = combo_runner_core(
        lambda a, b: (CALLS.append((a, b)), a)[1],
        (("b", [1, 2]),), {},
        cases=({"a": "p"}, {"a": 3}, {"a": None}),
        verbosity=0, info=info,
    )
    assert info["fn_args"] == ("a", "b")
    u = info["all_combo_values"][0]
    assert isinstance(u, list) and len(u) == 3 and set(u) == {"p", 3, None}
    assert info["all_combo_values"][1] == [1, 2]
    assert res == tuple((v, v) for v in u)
    assert sorted(map(repr, CALLS)) == sorted(
        repr((v, b)) for v in ("p", 3, None) for b in (1, 2))

    # no cases at all: full grid, constants passed, flat info has settings
    del CALLS[:]
    info = {}
    res = combo_runner_core(
        lambda a, b, k: (CALLS.append((a, b)), a * b + k)[1],
        (("a", [1, 2]), ("b", [3, 4, 5])), {"k": 1}, flat=True,
        verbosity=0, info=info,
    )
    assert res == (4, 5, 6, 7, 9, 11)
    assert info["settings"] == [
        {"a": a, "b": b, "k": 1} for a in (1, 2) for b in (3, 4, 5)]
    assert CALLS == [(a, b) for a in (1, 2) for b in (3, 4, 5)]

    # constants override nothing silently: same key in constants wins as before
    res = xyzpy.combo_runner(
        lambda a, b: (a, b), cases=[{"a": 1}, {"a": 2}], constants={"b": 9},
        verbosity=0)
    assert res == ((1, 9), (2, 9))

    # a cases key order different between dicts
    del CALLS[:]
    res = xyzpy.combo_runner(
        lambda a, b: (CALLS.append((a, b)), 10 * a + b)[1],
        cases=[{"a": 1, "b": 2}, {"b": 1, "a": 2}], verbosity=0)
    assert CALLS == [(1, 2), (2, 1)]
    assert math.isnan(res[0][0]) and res[0][1] == 12
    assert res[1][0] == 21 and math.isnan(res[1][1])


def ref_unflatten(store, values, fill, prefix=()):
    """Independent recursive reference for ``_unflatten``."""
    if len(prefix) == len(values):
        return store.get(prefix, fill)
    return tuple(
        ref_unflatten(store, values, fill, prefix + (v,))
        for v in values[len(prefix)]
    )


def same(x, y):
    if isinstance(x, tuple) and isinstance(y, tuple):
        return len(x) == len(y) and all(same(a, b) for a, b in zip(x, y))
    if isinstance(x, np.ndarray) or isinstance(y, np.ndarray):
        return (np.shape(x) == np.shape(y)
                and np.array_equal(x, y, equal_nan=True))
    if isinstance(x, float) and isinstance(y, float):
        return x == y or (math.isnan(x) and math.isnan(y))
    return type(x) is type(y) and x == y


def check_unflatten_direct(rng):
    sentinel = object()
    for trial in range(300):
        ndim = rng.randint(0, 4)
        values = tuple(
            rng.sample(range(10), rng.randint(0 if trial % 7 == 0 else 1, 4))
            for _ in range(ndim)
        )
        if trial % 2:
            values = tuple(values)
        else:
            values = tuple(tuple(v) for v in values)
        locs = list(itertools.product(*values))
        rng.shuffle(locs)
        if ndim == 0 or trial % 3 == 0:
            keep = locs
        else:
            keep = locs[: rng.randint(0, len(locs))]
        store = {loc: ("r",) + loc for loc in keep}
        fill = rng.choice(
            [None, float("nan"), sentinel, nan_like_result((1.0, [1, 2]))])
        expect = ref_unflatten(dict(store), values, fill)
        vals_before = tuple(list(v) for v in values)
        got = _unflatten(store, values, fill)
        assert same(got, expect) or got == expect, (values, got, expect)
        # the store is consumed and the coordinate values are untouched
        assert store == {}
        assert tuple(list(v) for v in values) == vals_before
    # default fill is None, zero dimensional case returns the bare result
    assert _unflatten({(): 5}, ()) == 5
    assert _unflatten({(1,): "a"}, ([1, 2],)) == ("a", None)
    assert _unflatten({}, ([1, 2], [])) == ((), ())
    # entries that are not on the grid are simply left behind / ignored
    st = {(1, 1): "a", (9, 9): "z"}
    assert _unflatten(st, ((1, 2), (1,)), 0) == (("a",), (0,))


def check_placeholder():
    # placeholder is shaped like the *first* result, shared everywhere
    out = xyzpy.combo_runner(
        lambda a, b: (a, [a, b], [[a, b, 0]], "s", True),
        cases=[{"a": 1, "b": 2}, {"a": 2, "b": 1}], verbosity=0)
    miss = out[0][0]
    assert out[1][1] is miss
    assert [np.shape(m) for m in miss] == [(), (2,), (1, 3), (), ()]
    assert all(np.all(np.isnan(m)) for m in miss)
    assert out[0][1] == (1, [1, 2], [[1, 2, 0]], "s", True)
    assert out[1][0] == (2, [2, 1], [[2, 1, 0]], "s", True)
    # split: each output gets its own placeholder kind
    o = xyzpy.combo_runner(
        lambda a, b: (a + 0.5, "s%d" % b, a > b, [a, b]),
        cases=[{"a": 1, "b": 2}, {"a": 2, "b": 1}], split=True,
        verbosity=0)
    assert math.isnan(o[0][0][0]) and o[0][0][1] == 1.5 and o[0][1][0] == 2.5
    assert o[1] == ((None, "s2"), ("s1", None))
    assert o[2] == ((None, False), (True, None))
    assert o[3][0][1] == [1, 2] and o[3][1][0] == [2, 1]
    assert np.shape(o[3][0][0]) == (2,) and np.all(np.isnan(o[3][0][0]))
    # no cases -> nothing is missing, no placeholder needed even if empty
    assert xyzpy.combo_runner(
        lambda a, b: a * b, {"a": [1, 2], "b": [3]}, verbosity=0
    ) == ((3,), (6,))
    assert xyzpy.combo_runner(
        lambda a, b: a * b, {"a": [1, 2], "b": []}, verbosity=0
    ) == ((), ())
    assert xyzpy.combo_runner(lambda: 3, verbosity=0) == 3
    # dict / Dataset results -> float NaN dataset placeholder
    o = xyzpy.combo_runner(
        lambda a, b: {"u": a, "w": ("t", [a, b])},
        cases=[{"a": 1, "b": 2}, {"a": 2, "b": 1}], verbosity=0)
    m = o[0][0]
    assert m is o[1][1]
    assert set(m.data_vars) == {"u", "w"} and m["w"].shape == (2,)
    assert bool(m["u"].isnull()) and bool(m["w"].isnull().all())
    assert o[0][1] == {"u": 1, "w": ("t", [1, 2])}


def main():
    rng = random.Random(4321)
    check_unflatten_direct(rng)
    check_placeholder()
    n = 0
    for trial in range(60):
        case_args, cases, combos = random_problem(rng)
        for kind in ("number", "bool", "str", "tuple", "nested"):
            shuffle = rng.choice([False, True, 3])
            check_nested(kind, case_args, cases, combos, shuffle,
                         dict_spelling=rng.random() < 0.5)
            n += 1
        check_flat(rng.choice(["number", "bool", "str", "tuple"]),
                   case_args, cases, combos, rng.choice([False, True, 5]))
        if trial % 3 == 0:
            check_ds(rng.choice(["number", "tuple", "dict"]),
                     case_args, cases, combos, rng.choice([False, 2]))
    check_rejected()
    check_misc()
    print("checked", n, "nested problems")
    print("PASS")


if __name__ == "__main__":
    main()
