"""Demo for C16 twin t7: the command-line grower, the progress bookkeeping
(``Crop.calc_progress`` / ``Crop.is_ready_to_reap``) and the time / header
option handling of ``gen_cluster_script``.

Run as ``cd <worktree> && /venv/bin/python /path/to/demo.py``.
"""
import os
import sys

sys.path.insert(0, os.getcwd())

import contextlib
import io
import logging
import re
import shutil
import subprocess
import tempfile
from concurrent.futures import ThreadPoolExecutor

import xyzpy
from xyzpy.gen import cropping
from xyzpy.gen.cropping import read_from_disk, write_to_disk

HERE = os.getcwd()
assert os.path.dirname(os.path.dirname(os.path.abspath(xyzpy.__file__))) == (
    os.path.abspath(HERE)
), xyzpy.__file__

CHECKS = [0]


def check(cond, msg):
    CHECKS[0] += 1
    if not cond:
        raise AssertionError(msg)


# ------------------------------ crop helpers ------------------------------ #

def make_fn(log):
    def fn(a, b):
        with open(log, "a") as f:
            f.write("{},{}\n".format(a, b))
        return a * 100 + b

    return fn


def make_other_fn(log):
    def other(a, b):
        with open(log, "a") as f:
            f.write("{},{}\n".format(a, b))
        return -(a * 100 + b)

    return other


def make_crop(tdir, n_a, n_b, batchsize, name="demo"):
    log = os.path.join(tdir, "calls.log")
    combos = [("a", list(range(1, n_a + 1))), ("b", list(range(n_b)))]
    crop = xyzpy.Crop(
        fn=make_fn(log), name=name, parent_dir=tdir, batchsize=batchsize
    )
    crop.sow_combos(combos)
    expected = tuple(
        tuple(a * 100 + b for b in combos[1][1]) for a in combos[0][1]
    )
    return crop, log, expected


def batch_cases(crop, i):
    f = os.path.join(crop.location, "batches", cropping.BTCH_NM.format(i))
    return read_from_disk(f)


def result_ids(crop):
    d = os.path.join(crop.location, "results")
    found = []
    for f in os.listdir(d):
        m = re.fullmatch(cropping.RSLT_NM.format(r"(\d+)"), f)
        check(m is not None, "stray file in results: " + f)
        found.append(int(m.group(1)))
    return sorted(found)


def read_log(log):
    if not os.path.exists(log):
        return []
    with open(log) as f:
        return [ln.strip() for ln in f if ln.strip()]


def reset_log(log):
    if os.path.exists(log):
        os.remove(log)


def expected_log(crop, ids):
    lines = []
    for i in ids:
        for case in batch_cases(crop, i):
            lines.append("{},{}".format(case["a"], case["b"]))
    return lines


def check_result_contents(crop, ids, sign=1):
    for i in ids:
        f = os.path.join(crop.location, "results", cropping.RSLT_NM.format(i))
        res = read_from_disk(f)
        want = tuple(
            sign * (c["a"] * 100 + c["b"]) for c in batch_cases(crop, i)
        )
        check(res == want, "batch {} has results {} != {}".format(i, res, want))


def finish_and_reap(crop, log, expected):
    """Grow whatever is left, then the crop must be ready with exact data."""
    left = crop.missing_results()
    reset_log(log)
    crop.grow_missing()
    check(
        sorted(read_log(log)) == sorted(expected_log(crop, left)),
        "grow_missing grew something else than the missing batches",
    )
    check(crop.missing_results() == (), "still missing after grow_missing")
    check(crop.is_ready_to_reap(), "crop not ready to reap")
    got = crop.reap()
    check(got == expected, "reaped {} != {}".format(got, expected))


# --------------------------- script execution ----------------------------- #

ARRAY_RE = {
    "sge": r"^#\$ -t (\d+)-(\d+)$",
    "pbs": r"^#PBS -J (\d+)-(\d+)$",
    "slurm": r"^#SBATCH --array=(\d+)-(\d+)$",
}
TASK_VAR = {
    "sge": "SGE_TASK_ID",
    "pbs": "PBS_ARRAY_INDEX",
    "slurm": "SLURM_ARRAY_TASK_ID",
}


def run_script(script, scheduler, mode, tdir, expect_tasks):
    """Check the script is valid shell + python, then run it like the
    scheduler would: once per array index (or just once).
    """
    path = os.path.join(tdir, "job-{}.sh".format(len(os.listdir(tdir))))
    with open(path, "w") as f:
        f.write(script)

    syn = subprocess.run(["bash", "-n", path], capture_output=True, text=True)
    check(syn.returncode == 0, "bash -n failed: " + syn.stderr)
    check(script.startswith("#!/bin/bash -l\n"), "no shebang")

    # the embedded python program
    m = re.search(r"<< EOM\n(.*?)\nEOM\n", script, flags=re.S)
    check(m is not None, "no embedded python program")
    py = m.group(1)
    for var in TASK_VAR.values():
        py = py.replace("$" + var, "1")
    compile(py, "<embedded>", "exec")

    ranges = []
    for sch, pat in ARRAY_RE.items():
        for mm in re.finditer(pat, script, flags=re.M):
            check(sch == scheduler, "array header of another scheduler")
            ranges.append((int(mm.group(1)), int(mm.group(2))))

    if mode == "single":
        check(ranges == [], "single mode script with an array header")
        check("$" not in py.replace("$SCRIPT", ""), "task variable in single")
        tasks = [None]
    elif scheduler == "pbs" and expect_tasks == 1:
        # PBS cannot do arrays of size one: plain job, index hard-wired
        check(ranges == [], "PBS array of size one")
        check("$PBS_ARRAY_INDEX" not in script, "PBS index left in script")
        tasks = [None]
    else:
        check(len(ranges) == 1, "expected exactly one array header")
        start, stop = ranges[0]
        check(start == 1, "array does not start at 1")
        check(stop == expect_tasks, "array stop {} != {}".format(
            stop, expect_tasks))
        tasks = list(range(start, stop + 1))

    env = {
        k: v for k, v in os.environ.items() if k not in TASK_VAR.values()
    }
    env["PYTHONPATH"] = HERE + os.pathsep + env.get("PYTHONPATH", "")
    env["PYTHONWARNINGS"] = "ignore"

    def run_task(t):
        e = dict(env)
        if t is not None:
            e[TASK_VAR[scheduler]] = str(t)
        return subprocess.run(
            ["bash", path], capture_output=True, text=True, env=e, cwd=tdir
        )

    with ThreadPoolExecutor(4) as pool:
        outs = list(pool.map(run_task, tasks))

    for out in outs:
        check(out.returncode == 0, "script failed: " + out.stderr)
        check("Traceback" not in out.stderr, "python failed: " + out.stderr)
        check("XYZPY script starting..." in out.stdout, out.stdout)
        check("Growing:" in out.stdout, out.stdout)
        check(out.stdout.rstrip().endswith("XYZPY script finished"),
              out.stdout)
    return len(tasks)


def cluster_scenario(scheduler, mode, state, opts, n_a=2, n_b=3, batchsize=2,
                     inspect=None):
    tdir = tempfile.mkdtemp(prefix="xyz-c16-")
    try:
        crop, log, expected = make_crop(tdir, n_a, n_b, batchsize)
        nb = crop.num_batches
        all_ids = list(range(1, nb + 1))

        pre = []
        if state == "none":
            ids, target = None, all_ids
        elif state == "some":
            pre = [i for i in all_ids if i % 2 == 0] or [1]
            crop.grow(tuple(pre))
            ids, target = None, [i for i in all_ids if i not in pre]
            check(crop.missing_results() == tuple(target), "missing_results")
        else:
            ids = list(state)
            target = list(state)

        reset_log(log)
        script = crop.gen_cluster_script(
            scheduler,
            batch_ids=ids,
            mode=mode,
            launcher=sys.executable,
            conda_env=False,
            output_directory=os.path.join(tdir, "output"),
            **opts,
        )
        if inspect is not None:
            inspect(script)
        run_script(script, scheduler, mode, tdir, len(target))

        # exactly the intended batches were grown, each once
        check(
            result_ids(crop) == sorted(set(pre) | set(target)),
            "{} {} {}: results {} != {}".format(
                scheduler, mode, state, result_ids(crop),
                sorted(set(pre) | set(target))),
        )
        check(
            sorted(read_log(log)) == sorted(expected_log(crop, target)),
            "{} {} {}: calls {} != {}".format(
                scheduler, mode, state, sorted(read_log(log)),
                sorted(expected_log(crop, target))),
        )
        check_result_contents(crop, result_ids(crop))
        finish_and_reap(crop, log, expected)
    finally:
        shutil.rmtree(tdir, ignore_errors=True)


# ----------------------- time / header option text ------------------------ #

TIME_LINE = {
    "sge": "#$ -l h_rt={}:{}:{},mem={}G\n",
    "pbs": "#PBS -lwalltime={:02}:{:02}:{:02}\n",
    "slurm": "#SBATCH --time={:02}:{:02}:{:02}\n",
}
OPTION_PREFIX = {"sge": "#$ -l ", "pbs": "#PBS -l ", "slurm": "#SBATCH --"}


def option_lines(scheduler, items):
    lines = []
    for k, v in items:
        if v is None or v is True:
            lines.append(OPTION_PREFIX[scheduler] + str(k))
        else:
            lines.append(OPTION_PREFIX[scheduler] + "{}={}".format(k, v))
    return lines


def header_inspector(scheduler, hms, gigabytes=None, items=()):
    """Check the time request line and the block of extra header options."""

    def inspect(script):
        if scheduler == "sge":
            time_line = TIME_LINE["sge"].format(*hms, gigabytes)
        else:
            time_line = TIME_LINE[scheduler].format(*hms)
        check(script.count(time_line) == 1,
              "time line {!r} not in\n{}".format(time_line, script))
        header = script[:script.index("echo 'XYZPY script starting...'")]
        block = "\n".join(option_lines(scheduler, items)) + "\n"
        got = [ln for ln in header.splitlines()
               if ln.startswith(OPTION_PREFIX[scheduler])
               and ln + "\n" != time_line
               and not ln.startswith(("#$ -l tmpfs=", "#SBATCH --job-name=",
                                       "#SBATCH --array="))]
        check(got == option_lines(scheduler, items),
              "header options {} != {}".format(
                  got, option_lines(scheduler, items)))
        if scheduler == "slurm":
            check(time_line + block in script, "options after the time line")
        if scheduler == "pbs":
            check(time_line + block in script, "options after the time line")

    return inspect


def script_text_tests():
    tdir = tempfile.mkdtemp(prefix="xyz-c16-")
    try:
        crop, log, expected = make_crop(tdir, 2, 2, 1, name="text")

        def gen(scheduler, **opts):
            opts.setdefault("conda_env", False)
            opts.setdefault("output_directory", os.path.join(tdir, "output"))
            return crop.gen_cluster_script(scheduler, **opts)

        for sch in ("sge", "pbs", "slurm"):
            gb = None

            # default time: one hour
            header_inspector(sch, (1, 0, 0), gb)(gen(sch))
            # number of hours
            header_inspector(sch, (3, 0, 0), gb)(gen(sch, time=3))
            header_inspector(sch, (1.5, 0, 0), gb)(gen(sch, time=1.5))
            # "h:m:s" strings are passed through as given
            header_inspector(sch, ("02", "30", "15"), gb)(
                gen(sch, time="02:30:15"))
            header_inspector(sch, ("2", "3", "4"), gb)(gen(sch, time="2:3:4"))
            # separate parts: missing ones are zero, no normalisation
            header_inspector(sch, (0, 20, 0), gb)(gen(sch, minutes=20))
            header_inspector(sch, (2, 0, 0), gb)(gen(sch, hours="2"))
            header_inspector(sch, (0, 0, 90), gb)(gen(sch, seconds=90.7))
            header_inspector(sch, (1, 2, 3), gb)(
                gen(sch, hours=1, minutes=2, seconds=3))
            header_inspector(sch, (0, 0, 0), gb)(gen(sch, hours=0))

            e = raises(ValueError, gen, sch, time=1, minutes=5)
            check(str(e) == "Cannot specify both time and hours, minutes, "
                  "seconds.", str(e))
            e = raises(ValueError, gen, sch, time="1:2:3", seconds=0)
            check(str(e) == "Cannot specify both time and hours, minutes, "
                  "seconds.", str(e))
            e = raises(ValueError, gen, sch, time="10:00")
            check("unpack" in str(e), str(e))
            e = raises(ValueError, gen, sch, time="0:10:00:00")
            check("unpack" in str(e), str(e))
            raises(ValueError, gen, sch, minutes="ten")
            raises(TypeError, gen, sch, hours=[1])
            # the first bad part is the one reported
            e = raises(ValueError, gen, sch, hours="x", minutes="y")
            check("'x'" in str(e), str(e))
            # a time that is neither a number nor a string is not parsed
            if sch == "sge":
                header_inspector(sch, (None, None, None), gb)(
                    gen(sch, time=(1, 2, 3)))
            else:
                raises(TypeError, gen, sch, time=(1, 2, 3))
            # both errors possible: the time one comes first
            e = raises(ValueError, gen, sch, time=1, hours=1, mem=1,
                       gigabytes=1)
            check("time" in str(e), str(e))
            e = raises(ValueError, gen, sch, mem=1, gigabytes=1)
            check(str(e) == "Cannot specify both gigabytes and mem.", str(e))

            # extra header options, in the order given
            user = [("gpu", 1), ("requeue", None), ("exclusive", True),
                    ("beeond", False), ("constraint", "skylake"),
                    ("zero", 0), ("empty", "")]
            items = list(user)
            opts = dict(user)
            header_inspector(sch, (1, 0, 0), gb, items)(gen(sch, **opts))
            header_inspector(sch, (1, 0, 0), gb, [("only", None)])(
                gen(sch, only=None))

            # memory spellings
            if sch == "slurm":
                header_inspector(sch, (1, 0, 0), None, [("mem", "4G")])(
                    gen(sch, mem=4))
                header_inspector(sch, (1, 0, 0), None, [("mem", "4G")])(
                    gen(sch, gigabytes=4))
                header_inspector(sch, (1, 0, 0), None, [("mem", "500M")])(
                    gen(sch, mem="500M"))
                header_inspector(
                    sch, (0, 5, 0), None,
                    user + [("nodes", 2), ("cpus-per-task", 4),
                            ("mem", "8G"), ("mem-per-cpu", "2G")],
                )(gen(sch, minutes=5, num_nodes=2, num_procs=4, mem=8,
                      mem_per_cpu=2, **opts))
                header_inspector(
                    sch, (1, 0, 0), None, [("mem-per-cpu", "100M")],
                )(gen(sch, mem_per_cpu="100M"))
            else:
                header_inspector(sch, (1, 0, 0), 4)(gen(sch, gigabytes=4))
                header_inspector(sch, (1, 0, 0), 4)(gen(sch, mem="4"))
                header_inspector(sch, (1, 0, 0), 3, items)(
                    gen(sch, mem=3.9, **opts))
                if sch == "pbs":
                    s = gen(sch, gigabytes=4, num_nodes=2, num_procs=8)
                    check("#PBS -lselect=2:ncpus=8:mem=4gb\n" in s, s)

        # scheduler names are case-insensitive, unknown ones refused
        check(gen("SLURM", gpu=1) == gen("slurm", gpu=1), "case")
        check(gen("Pbs", gpu=1) == gen("pbs", gpu=1), "case")
        raises(ValueError, gen, "lsf", gpu=1)
        raises(ValueError, gen, "slurm", mode="batch")
    finally:
        shutil.rmtree(tdir, ignore_errors=True)


# ------------------------- progress bookkeeping --------------------------- #

def progress(crop):
    crop.calc_progress()
    return crop._num_sown_batches, crop._num_results


def raises(exc_type, fn, *args, **kwargs):
    try:
        with contextlib.redirect_stdout(io.StringIO()), \
                contextlib.redirect_stderr(io.StringIO()):
            fn(*args, **kwargs)
    except exc_type as e:
        check(type(e) is exc_type, "raised {!r}".format(e))
        return e
    raise AssertionError("{} not raised".format(exc_type.__name__))


def bookkeeping_tests():
    top = tempfile.mkdtemp(prefix="xyz-c16-")
    try:
        for sub in ("plain", "we[i]rd *dir?", "[ab]"):
            tdir = os.path.join(top, sub)
            os.mkdir(tdir)
            # a decoy that an unescaped pattern would match
            os.makedirs(os.path.join(top, "a", ".xyz-book", "results"))
            shutil.rmtree(os.path.join(top, "a"))

            blank = xyzpy.Crop(name="book", parent_dir=tdir)
            check(progress(blank) == (-1, -1), "unprepared progress")
            check(blank.is_ready_to_reap() is False, "unprepared ready")
            check(blank.num_sown_batches == -1, "unprepared sown")
            check(blank.num_results == -1, "unprepared results")
            check(not os.path.exists(blank.location), "nothing created")

            # prepared but nothing sown
            blank.prepare(combos=[("a", [1, 2])])
            check(progress(blank) == (0, 0), "prepared progress")
            check(blank.is_ready_to_reap() is False, "prepared ready")
            blank.delete_all()

            crop, log, expected = make_crop(tdir, 2, 3, 2, name="book")
            nb = crop.num_batches
            check(nb == 3, "3 batches")
            check(progress(crop) == (3, 0), "sown progress")
            check(crop.is_ready_to_reap() is False, "sown ready")
            check(crop.num_sown_batches == 3 and crop.num_results == 0, "sown")

            # files that are not results do not count
            for stray in ("notes.txt", "xyz-result-1.jbdmp.tmp",
                          "axyz-result-1.jbdmp"):
                with open(os.path.join(crop.location, "results", stray),
                          "w") as f:
                    f.write("x")
            check(progress(crop) == (3, 0), "strays do not count")
            for stray in ("notes.txt", "xyz-result-1.jbdmp.tmp",
                          "axyz-result-1.jbdmp"):
                os.remove(os.path.join(crop.location, "results", stray))

            # a second view of the same crop sees the same
            other = xyzpy.Crop(name="book", parent_dir=tdir)
            for i, ids in enumerate([(2,), (3,), (1,)]):
                crop.grow(ids)
                want = (3, i + 1)
                check(progress(crop) == want, "progress {}".format(want))
                check(progress(other) == want, "other view {}".format(want))
                check(crop.num_results == i + 1, "num_results")
                check(other.is_ready_to_reap() is (i == 2), "ready?")
                check(crop.is_ready_to_reap() is (i == 2), "ready?")

            # one more batch sown than grown: not ready any more
            extra = os.path.join(crop.location, "batches",
                                 cropping.BTCH_NM.format(4))
            shutil.copy(os.path.join(crop.location, "batches",
                                     cropping.BTCH_NM.format(1)), extra)
            check(progress(crop) == (4, 3), "extra batch")
            check(crop.is_ready_to_reap() is False, "extra batch: not ready")
            os.remove(extra)
            check(crop.is_ready_to_reap() is True, "ready again")

            # results but no batches left: counts differ
            check(crop.missing_results() == (), "none missing")
            check(crop.reap() == expected, "reaped data")
            check(not os.path.exists(crop.location), "cleaned up")
            check(progress(crop) == (-1, -1), "reaped progress")
            check(other.is_ready_to_reap() is False, "reaped: not ready")
    finally:
        shutil.rmtree(top, ignore_errors=True)


# ------------------------------ the CLI ----------------------------------- #

THREAD_VARS = (
    "OMP_NUM_THREADS",
    "MKL_NUM_THREADS",
    "OPENBLAS_NUM_THREADS",
    "VECLIB_MAXIMUM_THREADS",
    "NUMEXPR_NUM_THREADS",
    "NUMBA_NUM_THREADS",
)


def make_env_fn(log):
    def fn(a, b):
        import os

        vals = [os.environ.get(k, "-") for k in (
            "OMP_NUM_THREADS", "MKL_NUM_THREADS", "OPENBLAS_NUM_THREADS",
            "VECLIB_MAXIMUM_THREADS", "NUMEXPR_NUM_THREADS",
            "NUMBA_NUM_THREADS")]
        with open(log, "a") as f:
            f.write("{},{}|{}\n".format(a, b, ",".join(vals)))
        return a * 100 + b

    return fn


def run_cli(*argv, cwd=None):
    env = {k: v for k, v in os.environ.items() if k not in THREAD_VARS}
    env["PYTHONPATH"] = HERE + os.pathsep + env.get("PYTHONPATH", "")
    env["PYTHONWARNINGS"] = "ignore"
    return subprocess.run(
        [sys.executable, "-m", "xyzpy.gen.xyzpy_grow_cli"] + list(argv),
        capture_output=True, text=True, env=env, cwd=cwd or HERE,
    )


def cli_tests():
    tdir = tempfile.mkdtemp(prefix="xyz-c16-")
    try:
        def new_crop(name, n_a=2, n_b=3, batchsize=2):
            log = os.path.join(tdir, name + ".log")
            combos = [("a", list(range(1, n_a + 1))), ("b", list(range(n_b)))]
            crop = xyzpy.Crop(fn=make_env_fn(log), name=name, parent_dir=tdir,
                              batchsize=batchsize)
            crop.sow_combos(combos)
            expected = tuple(
                tuple(a * 100 + b for b in combos[1][1]) for a in combos[0][1]
            )
            return crop, log, expected

        def env_log(crop, ids, threads):
            return [ln + "|" + ",".join([str(threads)] * 6)
                    for ln in expected_log(crop, ids)]

        # 1. nothing grown yet, defaults: grows everything, one thread
        crop, log, expected = new_crop("cli1")
        out = run_cli("cli1", "--parent-dir", tdir)
        check(out.returncode == 0, out.stderr)
        check(out.stdout.startswith("Growing:\n"), out.stdout)
        check(out.stdout.endswith("Done!\n"), out.stdout)
        check(result_ids(crop) == [1, 2, 3], "cli grew all")
        check(read_log(log) == env_log(crop, [1, 2, 3], 1), read_log(log))
        # 7. nothing left: grows nothing
        reset_log(log)
        out = run_cli("cli1", "--parent-dir", tdir, "--verbosity", "0")
        check(out.returncode == 0 and out.stdout.endswith("Done!\n"),
              out.stderr)
        check(read_log(log) == [], "nothing to grow")
        check(crop.is_ready_to_reap(), "ready")
        check(crop.reap() == expected, "cli1 data")

        # 2. some present, threads and verbosity given
        crop, log, expected = new_crop("cli2", 4, 2, 1)
        crop.grow((2, 5, 8))
        reset_log(log)
        out = run_cli("cli2", "--parent-dir", tdir, "--num-threads", "3",
                      "--verbosity", "0", "--debug")
        check(out.returncode == 0, out.stderr)
        check(out.stdout.endswith("Done!\n"), out.stdout)
        check(result_ids(crop) == list(range(1, 9)), "cli grew missing")
        check(read_log(log) == env_log(crop, [1, 3, 4, 6, 7], 3),
              read_log(log))
        check_result_contents(crop, range(1, 9))
        check(crop.reap() == expected, "cli2 data")

        # 3. pool of workers, run from the parent directory itself
        crop, log, expected = new_crop("cli3")
        crop.grow(3)
        reset_log(log)
        out = run_cli("cli3", "--num-workers", "2", "--num-threads", "2",
                      cwd=tdir)
        check(out.returncode == 0, out.stderr)
        check(result_ids(crop) == [1, 2, 3], "cli grew with workers")
        check(sorted(read_log(log)) == sorted(env_log(crop, [1, 2], 2)),
              read_log(log))
        check(crop.reap() == expected, "cli3 data")

        # 5. crop that was never sown
        out = run_cli("nothing", "--parent-dir", tdir)
        check(out.returncode == 1, "unsown crop: exit code")
        check("Done!" not in out.stdout and "Growing" not in out.stdout,
              out.stdout)
        check("XYZPYError" in out.stderr, out.stderr)
        check(not os.path.exists(os.path.join(tdir, ".xyz-nothing")),
              "unsown crop: nothing created")

        # 6. bad arguments
        crop, log, expected = new_crop("cli4")
        for bad in (["cli4", "--parent-dir", tdir, "--num-workers", "two"],
                    ["cli4", "--parent-dir", tdir, "--num-threads", "x"],
                    ["--parent-dir", tdir],
                    ["cli4", "--parent-dir", tdir, "--gpus-per-task", "x"]):
            out = run_cli(*bad)
            check(out.returncode != 0, "bad arguments accepted")
            check(out.stdout == "", out.stdout)
        out = run_cli("cli4", "--parent-dir", tdir, "--num-workers", "two")
        check(out.returncode == 2, "argparse exit code")
        check("Invalid value for num_workers" in out.stderr, out.stderr)

        # 8. ray executor requested but ray not installed: nothing is grown
        try:
            import ray  # noqa
            have_ray = True
        except ImportError:
            have_ray = False
        if not have_ray:
            for extra in ([], ["--gpus-per-task", "0.5"],
                          ["--gpus-per-task", "1"]):
                out = run_cli("cli4", "--parent-dir", tdir, "--ray", *extra)
                check(out.returncode == 1, "ray: exit code")
                check("No module named 'ray'" in out.stderr, out.stderr)
                check("Growing" not in out.stdout, out.stdout)
        check(result_ids(crop) == [], "nothing grown by failed runs")
        check(read_log(log) == [], "nothing called by failed runs")

        # in-process: the environment and import path the grower leaves
        from xyzpy.gen import xyzpy_grow_cli

        saved_env = {k: os.environ.get(k) for k in THREAD_VARS}
        saved_argv, saved_path = sys.argv, list(sys.path)
        try:
            for k in THREAD_VARS:
                os.environ.pop(k, None)
            sys.argv = ["xyzpy-grow", "cli4", "--parent-dir", tdir,
                        "--num-threads", "5", "--verbosity", "0"]
            buf = io.StringIO()
            with contextlib.redirect_stdout(buf), \
                    contextlib.redirect_stderr(io.StringIO()):
                xyzpy_grow_cli.main()
            check({k: os.environ.get(k) for k in THREAD_VARS}
                  == {k: "5" for k in THREAD_VARS}, "thread variables")
            check(sys.path == saved_path + [tdir], "import path")
            lines = buf.getvalue().splitlines()
            check(lines[0] == "Growing:" and lines[-1] == "Done!", lines)
            check(read_log(log) == env_log(crop, [1, 2, 3], 5), read_log(log))
        finally:
            sys.argv = saved_argv
            sys.path[:] = saved_path
            for k, v in saved_env.items():
                if v is None:
                    os.environ.pop(k, None)
                else:
                    os.environ[k] = v
        check(crop.is_ready_to_reap(), "cli4 ready")
        check(crop.reap() == expected, "cli4 data")

        check(xyzpy_grow_cli.parse_num_workers(None) is None, "workers")
        check(xyzpy_grow_cli.parse_num_workers("4") == 4, "workers")
        check(xyzpy_grow_cli.parse_int_or_float("0.5") == 0.5, "gpus")
    finally:
        shutil.rmtree(tdir, ignore_errors=True)


def main():
    script_text_tests()
    bookkeeping_tests()
    cli_tests()

    user = dict(gpu=1, requeue=None, exclusive=True)
    items = list(user.items())
    n = 0
    for sch in ("sge", "pbs", "slurm"):
        slurm = sch == "slurm"
        cluster_scenario(
            sch, "array", "none", dict(time=2, **user),
            inspect=header_inspector(sch, (2, 0, 0), None, items))
        cluster_scenario(
            sch, "array", (3, 2), dict(time="00:10:00", mem=2),
            inspect=header_inspector(
                sch, ("00", "10", "00"), 2,
                [("mem", "2G")] if slurm else []))
        cluster_scenario(
            sch, "array", "some",
            dict(minutes=30, gigabytes=1, num_procs=2, num_workers=2,
                 num_nodes=1, qos="short"),
            inspect=header_inspector(
                sch, (0, 30, 0), 1,
                [("qos", "short")] + (
                    [("nodes", 1), ("cpus-per-task", 2), ("mem", "1G")]
                    if slurm else [])))
        cluster_scenario(
            sch, "single", "some", dict(hours=1, seconds=30, debug=True),
            inspect=header_inspector(sch, (1, 0, 30), None,
                                     [("debug", True)]))
        cluster_scenario(
            sch, "single", "none",
            dict(mem_per_cpu=1) if slurm else dict(mem="1"),
            inspect=header_inspector(
                sch, (1, 0, 0), 1,
                [("mem-per-cpu", "1G")] if slurm else []))
        cluster_scenario(sch, "single", (2,), dict(time=0.5),
                         inspect=header_inspector(sch, (0.5, 0, 0), None))
        n += 6
    # crops of one / eight batches
    cluster_scenario("slurm", "array", "none", dict(), n_a=1, n_b=2)
    cluster_scenario("pbs", "array", "some", dict(partition="x"),
                     n_a=4, n_b=2, batchsize=1)
    n += 2

    print("scenarios: {}, checks: {}".format(n, CHECKS[0]))
    print("PASS")


if __name__ == "__main__":
    main()
