"""Demo for property C09: a partial reap shows finished batches exactly and
everything else as missing, deletes nothing by default, and an incomplete crop
is refused (and left untouched) without ``allow_incomplete``.

Emphasis of this demo: the crop's bookkeeping (progress counting, readiness,
missing batches, the stand-in result and the clean-up / default decision).

Run as ``cd <worktree> && /venv/bin/python /path/to/demo.py``.
"""
import os
import sys

sys.path.insert(0, os.getcwd())

import glob
import hashlib
import itertools
import pickle
import shutil
import tempfile
import threading
import time
import warnings

import numpy as np
import pandas as pd
import xarray as xr

import xyzpy
from xyzpy import Crop, Runner, Harvester, Sampler
from xyzpy.gen import cropping
from xyzpy.gen.cropping import XYZError
from xyzpy.gen.combo_runner import nan_like_result

assert os.path.abspath(xyzpy.__file__).startswith(os.getcwd()), xyzpy.__file__

warnings.simplefilter("ignore")

N_CHECKS = 0


def check(cond, *msg):
    global N_CHECKS
    N_CHECKS += 1
    if not cond:
        raise AssertionError(" ".join(map(str, msg)))


# ------------------------------ target functions --------------------------- #


def f_int(a, b=0, c=0):
    return a + 10 * b + 100 * c


def f_float(a, b=0, c=0):
    return a / 4 + b - 0.5 * c


def f_array(a, b=0, c=0):
    return np.arange(3) * a + b


def f_bool(a, b=0, c=0):
    return (a + b) % 2 == 0


def f_str(a, b=0, c=0):
    return "s{}-{}".format(a, b)


def f_multi(a, b=0, c=0):
    return a + b + 0.5, np.array([a, b, a * b], dtype=float)


def f_ds(a, b=0, c=0):
    return xr.Dataset({"x": (["t"], np.array([a, b, a + b], dtype=float)),
                       "y": a * b * 1.0})


# --------------------------------- helpers --------------------------------- #


def same(x, y):
    """Exact, type-aware comparison (nan equals nan)."""
    if isinstance(x, (xr.Dataset, xr.DataArray)):
        return type(x) is type(y) and x.identical(y)
    if isinstance(x, tuple):
        return (
            isinstance(y, tuple)
            and len(x) == len(y)
            and all(same(p, q) for p, q in zip(x, y))
        )
    if x is None or y is None:
        return x is None and y is None
    if isinstance(x, (str, bool, np.bool_)):
        return type(x) is type(y) and x == y
    if isinstance(x, np.ndarray) or isinstance(y, np.ndarray):
        x, y = np.asarray(x), np.asarray(y)
        return (
            x.shape == y.shape
            and x.dtype == y.dtype
            and np.array_equal(x, y, equal_nan=(x.dtype.kind == "f"))
        )
    if isinstance(x, float) and isinstance(y, float):
        return (x == y) or (x != x and y != y)
    return type(x) is type(y) and x == y


def snapshot(path):
    """Every file and directory below ``path`` with a digest of its bytes."""
    out = []
    for root, dirs, files in os.walk(path):
        for d in dirs:
            out.append((os.path.relpath(os.path.join(root, d), path), "dir"))
        for f in files:
            full = os.path.join(root, f)
            with open(full, "rb") as fh:
                out.append(
                    (os.path.relpath(full, path),
                     hashlib.sha1(fh.read()).hexdigest())
                )
    return sorted(out)


def read_batches(crop):
    """batch number -> list of kwargs, read straight from the sown files."""
    out = {}
    for i in range(1, crop.num_batches + 1):
        fname = os.path.join(
            crop.location, "batches", "xyz-batch-{}.jbdmp".format(i)
        )
        with open(fname, "rb") as fh:
            out[i] = pickle.load(fh)
    return out


def result_file(crop, i):
    return os.path.join(
        crop.location, "results", "xyz-result-{}.jbdmp".format(i)
    )


def key(kws):
    return tuple(sorted(kws.items()))


def nested(fn, combos):
    """Nested tuple of ``fn`` over the combos, in sorted-name order (the
    layout of a raw reap)."""
    combos = sorted(combos.items())

    def rec(i, kws):
        if i == len(combos):
            return fn(**kws)
        name, vals = combos[i]
        return tuple(rec(i + 1, {**kws, name: v}) for v in vals)

    return rec(0, {})


def proper_subsets(nb):
    ids = range(1, nb + 1)
    for r in range(1, nb):
        yield from itertools.combinations(ids, r)


class Stock:
    """Holds the bytes of every grown result, so that any subset of finished
    batches can be put in place cheaply."""

    def __init__(self, crop):
        self.crop = crop
        self.nb = crop.num_batches
        crop.grow(range(1, self.nb + 1), verbosity=0)
        self.data = {}
        for i in range(1, self.nb + 1):
            with open(result_file(crop, i), "rb") as fh:
                self.data[i] = fh.read()

    def set_finished(self, subset):
        for i in range(1, self.nb + 1):
            fname = result_file(self.crop, i)
            if i in subset:
                if not os.path.isfile(fname):
                    with open(fname, "wb") as fh:
                        fh.write(self.data[i])
            elif os.path.exists(fname):
                os.remove(fname)


def finished_lookup(batches, subset):
    done = set()
    for i in subset:
        for kws in batches[i]:
            done.add(key(kws))
    return done


def expect_refused(crop, how):
    before = snapshot(crop.location)
    try:
        how()
    except XYZError as e:
        check("not ready to reap" in str(e), "wrong message", e)
    else:
        raise AssertionError("incomplete crop was not refused")
    check(snapshot(crop.location) == before, "refused reap touched the crop")


# ------------------------------- raw reaping -------------------------------- #


def run_raw(tdir, fn, combos, shuffle=False, all_subsets=True, name=None,
            reuse_crop=False, **batch_opts):
    parent = tempfile.mkdtemp(dir=tdir)
    crop = Crop(fn=fn, name=name, parent_dir=parent, **batch_opts)

    # nothing on disk yet
    crop.calc_progress()
    check(crop._num_results == -1 and crop._num_sown_batches == -1)
    check(crop.num_results == -1 and crop.num_sown_batches == -1)
    check(crop.is_ready_to_reap() is False)
    check(not crop.is_prepared())

    crop.sow_combos(combos, shuffle=shuffle)
    nb = crop.num_batches
    batches = read_batches(crop)
    n_total = int(np.prod([len(v) for v in combos.values()]))
    check(sum(len(b) for b in batches.values()) == n_total)
    check(crop.num_sown_batches == nb and crop.num_results == 0)
    check(crop.missing_results() == tuple(range(1, nb + 1)))
    check(crop.is_ready_to_reap() is False)

    # no finished batch at all: refused, and no stand-in can be inferred
    expect_refused(crop, lambda: crop.reap())
    before = snapshot(crop.location)
    for how in (
        lambda: crop.reap(allow_incomplete=True),
        lambda: crop.all_nan_result,
        lambda: cropping.calc_clean_up_default_res(crop, None, True),
    ):
        try:
            how()
        except XYZError as e:
            check("at least one finished result" in str(e), e)
        else:
            raise AssertionError("expected XYZError")
    check(snapshot(crop.location) == before)
    # ... while without allow_incomplete no stand-in is even looked for
    cu, dflt = cropping.calc_clean_up_default_res(crop, None, False)
    check(cu is True and dflt is cropping._NO_DEFAULT)
    cu, dflt = cropping.calc_clean_up_default_res(crop, False, False)
    check(cu is False and dflt is cropping._NO_DEFAULT)

    stock = Stock(crop)
    check(crop.is_ready_to_reap() is True)
    check(crop.missing_results() == ())
    check(cropping.check_ready_to_reap(crop, False, False) is None)

    exact = nested(fn, combos)
    placeholder = nan_like_result(fn(**batches[1][0]))

    subsets = list(proper_subsets(nb))
    if not all_subsets:
        subsets = subsets[:: max(1, len(subsets) // 6)]

    for subset in subsets:
        stock.set_finished(subset)
        c = crop if reuse_crop else Crop(name=crop.name, parent_dir=parent)
        complement = tuple(i for i in range(1, nb + 1) if i not in subset)

        # bookkeeping
        check(c.missing_results() == complement, subset)
        check(c.num_results == len(subset) and c.num_sown_batches == nb)
        check(c.is_ready_to_reap() is False)
        check("{} / {} batches".format(len(subset), nb) in str(c))

        # refusal, nothing touched
        expect_refused(c, lambda: c.reap())
        expect_refused(c, lambda: c.reap_combos(clean_up=True))
        expect_refused(
            c, lambda: cropping.check_ready_to_reap(c, False, False)
        )
        check(cropping.check_ready_to_reap(c, True, False) is None)
        check(cropping.check_ready_to_reap(c, False, True) is None)

        # the stand-in
        check(same(c.all_nan_result, placeholder), "stand-in", subset)
        cu, dflt = cropping.calc_clean_up_default_res(c, None, True)
        check(cu is False and same(dflt, placeholder))
        cu, dflt = cropping.calc_clean_up_default_res(c, True, True)
        check(cu is True and same(dflt, placeholder))

        # partial reap: exact / missing, and nothing deleted
        done = finished_lookup(batches, subset)
        expected = nested(
            lambda **kws: fn(**kws) if key(kws) in done else placeholder,
            combos,
        )
        before = snapshot(c.location)
        got = c.reap(allow_incomplete=True)
        check(same(got, expected), "partial reap wrong for", subset, got)
        check(snapshot(c.location) == before, "partial reap deleted something")
        got = c.reap_combos(allow_incomplete=True, clean_up=False)
        check(same(got, expected))
        check(snapshot(c.location) == before)

    # growing can continue and a later full reap is exact
    last = subsets[-1]
    stock.set_finished(last)
    c = Crop(name=crop.name, parent_dir=parent)
    check(not same(c.reap(allow_incomplete=True), exact))
    c.grow_missing(verbosity=0)
    check(c.missing_results() == () and c.is_ready_to_reap() is True)
    for i in range(1, nb + 1):
        with open(result_file(c, i), "rb") as fh:
            check(same(pickle.load(fh), pickle.loads(stock.data[i])))
    # complete crop, partial-style reap: exact and still nothing deleted
    before = snapshot(c.location)
    check(same(c.reap(allow_incomplete=True), exact))
    check(same(c.reap(clean_up=False), exact))
    check(same(c.reap(wait=True, clean_up=False), exact))
    check(snapshot(c.location) == before)
    # default full reap cleans up
    check(same(c.reap(), exact))
    check(not os.path.exists(c.location))
    shutil.rmtree(parent)
    return nb


def raw_section(tdir):
    seven = {"a": list(range(1, 8))}
    six = {"a": [1, 2], "b": [10, 20, 30]}
    nine = {"a": [1, 2, 3], "b": [10, 20, 30]}
    twelve = {"a": [1, 2, 3], "b": [10, 20], "c": [5, 6]}
    configs = [
        (seven, dict(batchsize=1)),
        (seven, dict(batchsize=3)),
        (six, dict(batchsize=2)),
        (six, dict(batchsize=4)),
        (six, dict()),
        (nine, dict(batchsize=2)),
        (nine, dict(num_batches=4)),
        (twelve, dict(num_batches=5)),
        (twelve, dict(num_batches=7)),
        (twelve, dict(num_batches=4)),
        (twelve, dict(batchsize=5)),
    ]
    seen = set()
    for combos, opts in configs:
        for shuffle in (False, True, 2):
            nb = run_raw(tdir, f_int, combos, shuffle=shuffle, **opts)
            seen.add(nb)
    check({2, 3, 4, 5, 6, 7} <= seen, seen)

    # every kind of result
    for fn in (f_float, f_array, f_bool, f_str, f_multi, f_ds):
        run_raw(tdir, fn, six, batchsize=2)
        run_raw(tdir, fn, nine, num_batches=4, shuffle=True, reuse_crop=True)

    # a location full of glob-special characters
    weird = os.path.join(tdir, "we[ir]d*dir?")
    os.mkdir(weird)
    run_raw(weird, f_int, six, batchsize=2, name="cr[o]p*")
    run_raw(weird, f_str, nine, num_batches=4, name="cr[o]p*")


# ------------------------- cases rather than combos ------------------------- #


def cases_section(tdir):
    cases = [(1, 10), (2, 20), (3, 30), (4, 40), (5, 50)]
    for opts in (dict(batchsize=2), dict(num_batches=3), dict(batchsize=1)):
        parent = tempfile.mkdtemp(dir=tdir)
        crop = Crop(fn=f_float, parent_dir=parent, **opts)
        crop.sow_cases(["a", "b"], cases)
        nb = crop.num_batches
        batches = read_batches(crop)
        stock = Stock(crop)
        dcases = [{"a": a, "b": b} for a, b in cases]
        exact = xyzpy.combo_runner(f_float, cases=dcases, verbosity=0)
        check(same(np.diag(np.array(exact)),
                   np.array([f_float(a, b) for a, b in cases])))
        for subset in proper_subsets(nb):
            stock.set_finished(subset)
            done = finished_lookup(batches, subset)
            expected = xyzpy.combo_runner(
                masked(f_float, done, np.nan), cases=dcases, verbosity=0
            )
            diag = np.diag(np.array(expected))
            for j, (a, b) in enumerate(cases):
                if key({"a": a, "b": b}) in done:
                    check(diag[j] == f_float(a, b))
                else:
                    check(np.isnan(diag[j]))
            expect_refused(crop, lambda: crop.reap())
            before = snapshot(crop.location)
            check(same(crop.reap(allow_incomplete=True), expected), subset)
            check(snapshot(crop.location) == before)
            check(
                crop.missing_results()
                == tuple(i for i in range(1, nb + 1) if i not in subset)
            )
        crop.grow_missing(verbosity=0)
        check(same(crop.reap(), exact))
        check(not os.path.exists(crop.location))


# ----------------------------- labelled reaping ----------------------------- #

LABELLED = [
    (f_float, dict(var_names="x")),
    (f_int, dict(var_names="x")),
    (f_array, dict(var_names="x", var_dims={"x": ["t"]},
                   var_coords={"t": [0, 1, 2]})),
    (f_bool, dict(var_names="x")),
    (f_str, dict(var_names="x")),
    (f_multi, dict(var_names=["x", "y"], var_dims={"y": ["t"]},
                   var_coords={"t": [7, 8, 9]})),
    (f_ds, dict(var_names=None)),
]


def masked(fn, done, placeholder):
    def fake(**kws):
        return fn(**kws) if key(kws) in done else placeholder

    return fake


def runner_section(tdir):
    combos = {"a": [1, 2, 3], "b": [10, 20]}
    for (fn, ropts), bopts in itertools.product(
        LABELLED, (dict(batchsize=2), dict(num_batches=4))
    ):
        parent = tempfile.mkdtemp(dir=tdir)
        runner = Runner(fn, **ropts)
        crop = runner.Crop(name="r", parent_dir=parent, **bopts)
        crop.sow_combos(combos)
        nb = crop.num_batches
        batches = read_batches(crop)
        stock = Stock(crop)
        placeholder = nan_like_result(fn(a=1, b=10))
        exact = Runner(fn, **ropts).run_combos(combos)

        for subset in proper_subsets(nb):
            stock.set_finished(subset)
            done = finished_lookup(batches, subset)
            expected = Runner(
                masked(fn, done, placeholder), **ropts
            ).run_combos(combos)

            expect_refused(crop, lambda: crop.reap())
            expect_refused(crop, lambda: crop.reap_runner(runner))
            before = snapshot(crop.location)
            got = crop.reap(allow_incomplete=True)
            check(isinstance(got, xr.Dataset))
            check(got.identical(expected), "partial ds wrong", fn, subset)
            check(runner.last_ds is got)
            check(snapshot(crop.location) == before)
            # every finished position is exact, every other is null
            for kws in itertools.chain.from_iterable(batches.values()):
                for v in got.data_vars:
                    cell = got[v].sel(a=kws["a"], b=kws["b"])
                    if key(kws) in done:
                        ref = exact[v].sel(a=kws["a"], b=kws["b"])
                        check(np.array_equal(cell.values, ref.values))
                    else:
                        check(bool(cell.isnull().all()))

            # straight to a dataframe
            if ("var_dims" in ropts) or (ropts["var_names"] is None):
                # not supported: the failure inside the reap leaves unread
                # results behind, which is what gets reported
                try:
                    crop.reap_runner(runner, allow_incomplete=True, to_df=True)
                except (XYZError, ValueError, TypeError) as e:
                    failure = (type(e).__name__, str(e))
                else:
                    failure = None
                if "var_dims" in ropts:
                    check(
                        failure == ("XYZError", "Not all results reaped!"),
                        failure,
                    )
                check(snapshot(crop.location) == before)
                continue
            got_df = crop.reap_runner(
                runner, allow_incomplete=True, to_df=True
            )
            exp_df = Runner(
                masked(fn, done, placeholder), **ropts
            ).run_combos(combos, to_df=True)
            check(isinstance(got_df, pd.DataFrame))
            check(got_df.equals(exp_df), "partial df wrong", fn, subset)
            check(runner._last_df is got_df)
            check(snapshot(crop.location) == before)

        stock.set_finished(tuple(range(1, nb)))
        crop.grow_missing(verbosity=0)
        got = crop.reap()
        check(got.identical(exact), "full ds wrong", fn)
        check(not os.path.exists(crop.location))


def harvester_section(tdir):
    combos = {"a": [1, 2, 3], "b": [10, 20]}
    for fn, ropts in LABELLED:
        parent = tempfile.mkdtemp(dir=tdir)
        data = os.path.join(parent, "full.h5")
        harvester = Harvester(Runner(fn, **ropts), data_name=data)
        crop = harvester.Crop(name="h", parent_dir=parent, batchsize=2)
        crop.sow_combos(combos)
        batches = read_batches(crop)
        placeholder = nan_like_result(fn(a=1, b=10))
        exact = Runner(fn, **ropts).run_combos(combos)

        expect_refused(crop, lambda: crop.reap())
        check(not os.path.exists(data))
        crop.grow(2, verbosity=0)
        expect_refused(crop, lambda: crop.reap())
        check(not os.path.exists(data))

        done = finished_lookup(batches, (2,))
        expected = Runner(
            masked(fn, done, placeholder), **ropts
        ).run_combos(combos)
        before = snapshot(crop.location)
        got = crop.reap(allow_incomplete=True)
        check(got.identical(expected), "harvest partial", fn)
        check(snapshot(crop.location) == before)
        check(os.path.isfile(data))

        # a fresh crop object, loaded from disk, continues the same crop
        c2 = Crop(name="h", parent_dir=parent)
        check(c2.missing_results() == (1, 3))
        c2.grow_missing(verbosity=0)
        check(c2.is_ready_to_reap() is True)
        full = crop.reap(overwrite=True)
        check(full.identical(exact), "harvest full", fn)
        check(not os.path.exists(crop.location))
        on_disk = Harvester(Runner(fn, **ropts), data_name=data).full_ds
        for v in exact.data_vars:
            check(
                np.array_equal(on_disk[v].values, exact[v].values),
                "harvested file", fn, v,
            )


def sampler_section(tdir):
    for fn, ropts in LABELLED[:2] + LABELLED[3:5]:
        parent = tempfile.mkdtemp(dir=tdir)
        data = os.path.join(parent, "samples.pkl")
        sampler = Sampler(
            Runner(fn, **ropts), data_name=data,
            default_combos={"a": [1, 2, 3, 4], "b": [10, 20, 30]},
        )
        crop = sampler.Crop(name="s", parent_dir=parent, num_batches=3)
        np.random.seed(7)
        crop.sow_samples(7)
        nb = crop.num_batches
        check(nb == 3)
        batches = read_batches(crop)
        check([len(batches[i]) for i in (1, 2, 3)] == [3, 2, 2])
        stock = Stock(crop)
        flat = [kws for i in (1, 2, 3) for kws in batches[i]]

        def frame(subset):
            rows = []
            for i in (1, 2, 3):
                for kws in batches[i]:
                    rows.append(
                        (kws["a"], kws["b"],
                         fn(**kws) if i in subset else None)
                    )
            return rows

        for subset in proper_subsets(nb):
            stock.set_finished(subset)
            expect_refused(crop, lambda: crop.reap(sync=False))
            check(not os.path.exists(data))
            before = snapshot(crop.location)
            df = crop.reap(allow_incomplete=True, sync=False)
            check(isinstance(df, pd.DataFrame) and len(df) == len(flat))
            check(snapshot(crop.location) == before)
            check(not os.path.exists(data))
            for (a, b, x), (_, row) in zip(frame(subset), df.iterrows()):
                check(row["a"] == a and row["b"] == b)
                if x is None:
                    check(pd.isnull(row["x"]), "expected missing", row)
                else:
                    check(row["x"] == x, "expected exact", row, x)

        stock.set_finished((1,))
        crop.grow_missing(verbosity=0)
        df = crop.reap()
        check([r for r in frame((1, 2, 3))]
              == [(r["a"], r["b"], r["x"]) for _, r in df.iterrows()])
        check(not os.path.exists(crop.location))
        check(os.path.isfile(data))
        check(len(sampler.full_df) == len(flat))


# ----------------------------- odds and ends -------------------------------- #


def edge_section(tdir):
    combos = {"a": [1, 2, 3], "b": [10, 20]}

    # explicit clean_up with a partial reap deletes the crop
    parent = tempfile.mkdtemp(dir=tdir)
    crop = Crop(fn=f_int, parent_dir=parent, batchsize=2)
    crop.sow_combos(combos)
    crop.grow(3, verbosity=0)
    got = crop.reap(allow_incomplete=True, clean_up=True)
    check(same(got, ((np.nan, np.nan), (np.nan, np.nan), (103, 203))), got)
    check(not os.path.exists(crop.location))
    check(os.listdir(parent) == [])

    # a *directory* where a result should be: counted by the progress, but
    # reported as missing and shown as missing
    parent = tempfile.mkdtemp(dir=tdir)
    crop = Crop(fn=f_int, parent_dir=parent, batchsize=2)
    crop.sow_combos(combos)
    crop.grow(1, verbosity=0)
    # (infer the stand-in first: which dump it is taken from is up to the
    # directory listing order)
    check(same(crop.all_nan_result, np.nan))
    os.mkdir(result_file(crop, 2))
    check(crop.num_results == 2)
    check(crop.missing_results() == (2, 3))
    check(crop.is_ready_to_reap() is False)
    expect_refused(crop, lambda: crop.reap())
    before = snapshot(crop.location)
    got = crop.reap(allow_incomplete=True)
    check(same(got, ((101, 201), (np.nan, np.nan), (np.nan, np.nan))), got)
    check(snapshot(crop.location) == before)
    os.mkdir(result_file(crop, 3))
    # now the counts agree although nothing is complete
    check(crop.is_ready_to_reap() is True)
    try:
        crop.reap()
    except (IsADirectoryError, PermissionError):
        pass
    else:
        raise AssertionError("expected an OSError")
    try:
        crop.reap(wait=True)
    except ValueError as e:
        check("is not a file" in str(e), e)
    else:
        raise AssertionError("expected ValueError")
    check(os.path.isdir(crop.location))

    # empty or over-long result dumps
    parent = tempfile.mkdtemp(dir=tdir)
    crop = Crop(fn=f_int, parent_dir=parent, batchsize=2)
    crop.sow_combos(combos)
    crop.grow([1, 2], verbosity=0)
    with open(result_file(crop, 3), "wb") as fh:
        pickle.dump((), fh)
    before = snapshot(crop.location)
    for kw in (dict(), dict(wait=True), dict(clean_up=True)):
        try:
            crop.reap(**kw)
        except ValueError as e:
            check("contains no data" in str(e), e)
        else:
            raise AssertionError("expected ValueError")
        check(snapshot(crop.location) == before)
    with open(result_file(crop, 3), "wb") as fh:
        pickle.dump((1, 2, 3), fh)
    before = snapshot(crop.location)
    try:
        crop.reap()
    except XYZError as e:
        check("Not all results reaped" in str(e), e)
    else:
        raise AssertionError("expected XYZError")
    check(snapshot(crop.location) == before)

    # waiting for a straggler: nothing is filled in, the reap is exact
    for allow in (False, True):
        parent = tempfile.mkdtemp(dir=tdir)
        crop = Crop(fn=f_int, parent_dir=parent, batchsize=2)
        crop.sow_combos(combos)
        crop.grow([1, 3], verbosity=0)
        other = Crop(name=crop.name, parent_dir=parent)

        def late():
            time.sleep(0.5)
            other.grow(2, verbosity=0)

        th = threading.Thread(target=late)
        th.start()
        got = crop.reap(wait=True, allow_incomplete=allow, clean_up=False)
        th.join()
        check(same(got, ((101, 201), (102, 202), (103, 203))), got)
        check(os.path.isdir(crop.location))
        check(crop.is_ready_to_reap() is True)
        check(same(crop.reap(), got))
        check(not os.path.exists(crop.location))

    # the stand-in is inferred once per crop object for array-like results
    parent = tempfile.mkdtemp(dir=tdir)
    crop = Crop(fn=f_multi, parent_dir=parent, batchsize=3)
    crop.sow_combos(combos)
    crop.grow(1, verbosity=0)
    first = crop.all_nan_result
    check(crop.all_nan_result is first)
    check(crop._all_nan_result is first)
    os.remove(result_file(crop, 1))
    check(crop.all_nan_result is first)
    # ... but looked up every time when the stand-in is ``None``
    parent = tempfile.mkdtemp(dir=tdir)
    crop = Crop(fn=f_str, parent_dir=parent, batchsize=3)
    crop.sow_combos(combos)
    crop.grow(2, verbosity=0)
    check(crop.all_nan_result is None and crop._all_nan_result is None)
    os.remove(result_file(crop, 2))
    try:
        crop.all_nan_result
    except XYZError:
        pass
    else:
        raise AssertionError("expected XYZError")

    # unsown crop
    parent = tempfile.mkdtemp(dir=tdir)
    crop = Crop(fn=f_int, parent_dir=parent)
    try:
        crop.reap()
    except XYZError as e:
        check("not ready to reap" in str(e))
    else:
        raise AssertionError("expected XYZError")
    check(os.listdir(parent) == [])
    check("Not yet sown" in str(crop))


def main():
    tdir = tempfile.mkdtemp(prefix="c09-demo-")
    cwd = os.getcwd()
    try:
        raw_section(tdir)
        cases_section(tdir)
        runner_section(tdir)
        harvester_section(tdir)
        sampler_section(tdir)
        edge_section(tdir)
    finally:
        os.chdir(cwd)
        shutil.rmtree(tdir, ignore_errors=True)
    check(not glob.glob(os.path.join(cwd, ".xyz-*")))
    print("checks:", N_CHECKS)
    print("PASS")


if __name__ == "__main__":
    main()
