"""C11 demo (t8): concurrent growers + a waiting reaper + a progress poller.

Run as ``cd <worktree> && /venv/bin/python /path/to/demo.py``.

The file operations of the growers (create the file, write each chunk, close,
rename into place) and of the reaper (exists / sleep, open for reading) are
turned into scheduling points by monkeypatching, inside this process only, the
names the cropping module looks up (``open``, ``pickle.dump``, ``os.replace``,
``time.sleep``).  Each actor runs in its own thread but only ever one at a
time, under a deterministic schedule chosen by the controller:

* exhaustively, all interleavings of two growers (distinct batches, and the
  same batch twice), with the waiting reaper polled after every step;
* seeded random schedules for 1-3 growers / 1-3 batches in which the reaper is
  just one more actor.

After every step a progress poller (fresh view of the crop) checks that each
result counted as finished is complete and right, and at the end the reaper
must have returned exactly the direct-run results.  Further sequential checks
cover the second-tier code (stand-ins for missing results, check_bad, the
files on disk and their names, the Reaper's error cases).
"""

import os
import sys

sys.path.insert(0, os.getcwd())

import builtins
import glob
import itertools
import pickle
import random
import shutil
import tempfile
import threading
import time

import xyzpy
from xyzpy.gen import cropping
from xyzpy.gen.farming import XYZError

sys.stderr = open(os.devnull, "w")  # no progress bars
N_CHUNKS = 2
RANDOM_REPS = 20
FAILURES = []


def fail(msg):
    FAILURES.append(msg)


def fn(a, b):
    # results large enough that a half written pickle is really unusable
    return (a, b, [a * 10 + b] * 40, "r{}-{}".format(a, b))


COMBOS = (("a", (1, 2, 3)), ("b", (1, 2)))
DIRECT = xyzpy.combo_runner(fn, COMBOS)


# --------------------------------------------------------------------------- #
#                       one-at-a-time actors and hooks                        #
# --------------------------------------------------------------------------- #


class Actor(threading.Thread):
    def __init__(self, name, kind, target):
        super().__init__(daemon=True)
        self.aname = name
        self.kind = kind
        self.target = target
        self.go = threading.Event()
        self.yielded = threading.Event()
        self.finished = False
        self.error = None
        self.value = None
        self.label = "start"
        self.trace = []

    def run(self):
        self.go.wait()
        self.go.clear()
        try:
            self.value = self.target()
        except BaseException as e:  # noqa
            self.error = e
        self.finished = True
        self.label = "finished"
        self.yielded.set()

    def step(self):
        """Controller side: let the actor run up to its next yield point."""
        self.yielded.clear()
        self.go.set()
        if not self.yielded.wait(60):
            raise RuntimeError("actor {} is stuck".format(self.aname))
        return self.label


def current_actor():
    t = threading.current_thread()
    return t if isinstance(t, Actor) else None


def yield_point(label):
    me = current_actor()
    if me is None:
        return
    me.label = label
    me.trace.append(label)
    me.yielded.set()
    me.go.wait()
    me.go.clear()


class PickleShim(object):
    """Stands in for the ``pickle`` module inside ``cropping``: ``dump`` writes
    in several chunks with a scheduling point before each one and before the
    file is closed."""

    def __getattr__(self, name):
        return getattr(pickle, name)

    @staticmethod
    def dump(obj, file, *args, **kwargs):
        data = pickle.dumps(obj, *args, **kwargs)
        me = current_actor()
        if me is None or me.kind != "grower":
            file.write(data)
            return
        n = max(1, len(data) // N_CHUNKS)
        chunks = [data[:n], data[n:]] if N_CHUNKS == 2 else [data]
        for k, chunk in enumerate(chunks):
            yield_point("write chunk {}".format(k + 1))
            file.write(chunk)
            file.flush()
        yield_point("close")


class TimeShim(object):
    def __getattr__(self, name):
        return getattr(time, name)

    @staticmethod
    def sleep(t):
        if current_actor() is None:
            time.sleep(t)
        else:
            yield_point("sleep")


def hooked_open(file, mode="r", *args, **kwargs):
    me = current_actor()
    if me is not None and me.kind == "reaper" and "r" in mode:
        yield_point("open for reading")
    return builtins.open(file, mode, *args, **kwargs)


_real_replace = os.replace


def hooked_replace(src, dst, *args, **kwargs):
    yield_point("rename")
    return _real_replace(src, dst, *args, **kwargs)


def install_hooks():
    cropping.pickle = PickleShim()
    cropping.time = TimeShim()
    cropping.open = hooked_open
    os.replace = hooked_replace


def remove_hooks():
    cropping.pickle = pickle
    cropping.time = time
    del cropping.open
    os.replace = _real_replace


# --------------------------------------------------------------------------- #
#                                 scenarios                                   #
# --------------------------------------------------------------------------- #


def expected_batches(tmpdir, name, num_batches):
    """What each result file must contain, from the sown batch files."""
    out = {}
    for i in range(1, num_batches + 1):
        f = os.path.join(
            tmpdir, ".xyz-" + name, "batches", "xyz-batch-{}.jbdmp".format(i)
        )
        with open(f, "rb") as fh:
            cases = pickle.load(fh)
        out[i] = tuple(fn(**c) for c in cases)
    return out


def poll_progress(tmpdir, name, expected, where):
    """The progress poller: a fresh look at the crop from 'another process'."""
    crop = xyzpy.Crop(name=name, parent_dir=tmpdir)
    n = crop.num_results
    rdir = os.path.join(crop.location, "results")
    complete = []
    for i, exp in expected.items():
        f = os.path.join(rdir, "xyz-result-{}.jbdmp".format(i))
        if os.path.isfile(f):
            try:
                with open(f, "rb") as fh:
                    got = pickle.load(fh)
            except Exception as e:  # noqa
                got = "unreadable ({}: {})".format(type(e).__name__, e)
            if got == exp:
                complete.append(i)
            else:
                fail(
                    "{}: result file of batch {} is visible under its final "
                    "name but is {}".format(
                        where, i,
                        got if isinstance(got, str) else "not the full result",
                    )
                )
    if n != len(complete):
        fail(
            "{}: progress counts {} finished results but {} complete result "
            "files exist ({})".format(
                where, n, len(complete), sorted(os.listdir(rdir))
            )
        )
    missing = crop.missing_results()
    want_missing = tuple(i for i in expected if i not in complete)
    if missing != want_missing:
        fail("{}: missing_results() = {} but expected {}".format(
            where, missing, want_missing))
    if crop.is_ready_to_reap() != (len(complete) == len(expected)):
        fail("{}: is_ready_to_reap() wrong".format(where))
    if "{} / {} batches".format(n, len(expected)) not in str(crop):
        fail("{}: str(crop) does not show {} / {}".format(
            where, n, len(expected)))


def run_scenario(grow_plan, num_batches, schedule, eager_reaper, tag,
                 pregrow=()):
    """grow_plan: tuple of batch numbers, one grower each.  schedule: iterator
    giving the index of the actor to step next (growers 0.., reaper = len).
    pregrow: batches grown before any actor starts."""
    tmpdir = tempfile.mkdtemp(prefix="c11demo-")
    name = "c"
    try:
        crop = xyzpy.Crop(
            fn=fn, name=name, parent_dir=tmpdir, num_batches=num_batches
        )
        crop.sow_combos(COMBOS)
        expected = expected_batches(tmpdir, name, num_batches)
        for b in pregrow:
            crop.grow(b)

        def make_grower(b):
            c = xyzpy.Crop(name=name, parent_dir=tmpdir)
            return lambda: c.grow(b)

        def reaper_target():
            c = xyzpy.Crop(name=name, parent_dir=tmpdir)
            return c.reap(wait=True, clean_up=False)

        growers = [
            Actor("grower{}(batch {})".format(k, b), "grower", make_grower(b))
            for k, b in enumerate(grow_plan)
        ]
        reaper = Actor("reaper", "reaper", reaper_target)
        actors = growers + [reaper]
        for a in actors:
            a.start()

        history = []

        def where():
            return "[{} | {}]".format(tag, " ".join(history[-14:]))

        spins = 0
        nfail = len(FAILURES)
        while not all(a.finished for a in actors):
            live_growers = [a for a in growers if not a.finished]
            if eager_reaper:
                if live_growers:
                    k = next(schedule)
                    a = growers[k]
                    if a.finished:
                        continue
                    lab = a.step()
                    history.append("g{}:{}".format(k, lab))
                # the waiting reaper looks after every single grower step
                while not reaper.finished:
                    lab = reaper.step()
                    history.append("R:{}".format(lab))
                    if lab == "sleep":
                        break
                if reaper.label == "sleep" and all(
                    g.finished for g in growers
                ):
                    spins += 1
            else:
                k = next(schedule) % len(actors)
                a = actors[k]
                if a.finished:
                    continue
                lab = a.step()
                history.append(
                    "{}:{}".format("R" if a is reaper else "g%d" % k, lab)
                )
                if a is reaper and lab == "sleep" and not live_growers:
                    spins += 1
            if spins > 5:
                fail("{}: all growers have finished but the reaper still "
                     "waits".format(where()))
                break
            poll_progress(tmpdir, name, expected, where())
            if len(FAILURES) > nfail:
                break

        for a in growers:
            if a.error is not None:
                fail("{}: {} failed with {}: {}".format(
                    where(), a.aname, type(a.error).__name__, a.error))
        if reaper.error is not None:
            fail("{}: the waiting reaper failed with {}: {}".format(
                where(), type(reaper.error).__name__, reaper.error))
        elif reaper.finished and reaper.value != DIRECT:
            fail("{}: the waiting reaper returned results that differ from "
                 "the direct run".format(where()))

        if len(FAILURES) == nfail:
            # everything done: exactly the final files, nothing left over
            rdir = os.path.join(tmpdir, ".xyz-" + name, "results")
            names = sorted(os.listdir(rdir))
            want = sorted(
                "xyz-result-{}.jbdmp".format(i)
                for i in range(1, num_batches + 1)
            )
            if names != want:
                fail("{}: results directory holds {} instead of {}".format(
                    where(), names, want))
        return len(FAILURES) == nfail
    finally:
        # actors still parked at a yield point are daemon threads
        shutil.rmtree(tmpdir, ignore_errors=True)


def all_interleavings(counts):
    """All sequences over actors 0..n-1 with counts[k] occurrences of k."""
    total = sum(counts)

    def rec(left, acc):
        if len(acc) == total:
            yield tuple(acc)
            return
        for k in range(len(left)):
            if left[k]:
                left[k] -= 1
                acc.append(k)
                yield from rec(left, acc)
                acc.pop()
                left[k] += 1

    yield from rec(list(counts), [])


# a grower takes 5 steps: (load, compute, create the file) / chunk 1 /
# chunk 2 / close / rename
STEPS = 3 + N_CHUNKS


def concurrent_checks():
    nruns = 0
    # exhaustive, two growers: distinct batches, the same batch twice, and the
    # same batch twice behind a batch that is already there
    for plan, nb, pre in (((1, 2), 2, ()), ((1, 1), 1, ()), ((2, 2), 2, (1,))):
        for seq in all_interleavings([STEPS] * len(plan)):
            ok = run_scenario(plan, nb, iter(seq), True,
                              "growers of batches {}, exhaustive".format(plan),
                              pregrow=pre)
            nruns += 1
            if not ok:
                return nruns
    # seeded random, 1-3 growers, 1-3 batches, reaper is one more actor
    rng = random.Random(20261003)
    plans = [
        ((1,), 1), ((1, 1), 1), ((1, 1, 1), 1), ((1, 2), 2), ((1, 2, 2), 2),
        ((2, 1, 1), 2), ((1, 2, 3), 3), ((3, 2, 1), 3), ((2, 2, 3), 3),
    ]
    for plan, nb in plans:
        pre = tuple(i for i in range(1, nb + 1) if i not in plan)
        for rep in range(RANDOM_REPS):
            seed = rng.randrange(10 ** 9)
            r = random.Random(seed)
            sched = iter(lambda: r.randrange(len(plan) + 1), None)
            ok = run_scenario(plan, nb, sched, False,
                              "growers of batches {}, seed {}".format(
                                  plan, seed), pregrow=pre)
            nruns += 1
            if not ok:
                return nruns
    return nruns


# --------------------------------------------------------------------------- #
#                          sequential (second tier)                           #
# --------------------------------------------------------------------------- #


def expect_raises(exc, substr, f, what):
    try:
        f()
    except exc as e:
        if substr not in str(e):
            fail("{}: message {!r} lacks {!r}".format(what, str(e), substr))
    except Exception as e:  # noqa
        fail("{}: raised {} instead of {}".format(
            what, type(e).__name__, exc.__name__))
    else:
        fail("{}: did not raise".format(what))


def sequential_checks():
    tmpdir = tempfile.mkdtemp(prefix="c11demo-")
    try:
        # a location with glob characters in it, three uneven batches
        parent = os.path.join(tmpdir, "we[i]rd*dir")
        os.makedirs(parent)
        combos = (("a", (1, 2, 3, 4)), ("b", (1, 2)))
        direct = xyzpy.combo_runner(fn, combos)
        crop = xyzpy.Crop(fn=fn, name="s", parent_dir=parent, num_batches=3)
        crop.sow_combos(combos)
        loc = crop.location
        if sorted(os.listdir(os.path.join(loc, "batches"))) != [
            "xyz-batch-1.jbdmp", "xyz-batch-2.jbdmp", "xyz-batch-3.jbdmp"
        ]:
            fail("sow: unexpected batch files {}".format(
                os.listdir(os.path.join(loc, "batches"))))
        if sorted(os.listdir(loc)) != [
            "batches", "results", "xyz-function.clpkl", "xyz-settings.jbdmp"
        ]:
            fail("sow: unexpected crop files {}".format(os.listdir(loc)))
        sizes = [
            len(cropping.read_from_disk(
                os.path.join(loc, "batches", "xyz-batch-%d.jbdmp" % i)))
            for i in (1, 2, 3)
        ]
        if sizes != [3, 3, 2]:
            fail("sow: batch sizes {}".format(sizes))
        if (crop.num_sown_batches, crop.num_results) != (3, 0):
            fail("progress after sow wrong")
        expect_raises(XYZError, "at least one finished result",
                      lambda: crop.reap(allow_incomplete=True),
                      "allow_incomplete reap with no result")
        expect_raises(XYZError, "not ready to reap", lambda: crop.reap(),
                      "reap of an unfinished crop")

        # a leftover temporary file of a dead grower is not a result
        stale = os.path.join(
            loc, "results", "xyz-result-3.jbdmp.12345-deadbeef.tmp")
        with open(stale, "wb") as fh:
            fh.write(b"\x80\x04half")
        crop.grow(2)
        if crop.num_results != 1 or crop.missing_results() != (1, 3):
            fail("progress with a stale tmp file: {} {}".format(
                crop.num_results, crop.missing_results()))
        if crop.check_bad() != ():
            fail("check_bad flagged a good result")

        # stand-ins for the missing batches, sized like the sown batches
        part = crop.reap(allow_incomplete=True)
        flat = [x for row in part for x in row]
        nan_like = crop.all_nan_result
        want = [nan_like] * 3 + list(
            x for row in direct for x in row)[3:6] + [nan_like] * 2
        if repr(flat) != repr(want):
            fail("allow_incomplete reap gave {}".format(flat))
        if not os.path.isdir(loc):
            fail("allow_incomplete reap removed the crop")

        # a bad (short) result is found and deleted by check_bad
        r1 = os.path.join(loc, "results", "xyz-result-1.jbdmp")
        cropping.write_to_disk((fn(1, 1),), r1)
        if sorted(os.listdir(os.path.join(loc, "results"))) != [
            "xyz-result-1.jbdmp", "xyz-result-2.jbdmp",
            os.path.basename(stale),
        ]:
            fail("write_to_disk left something behind: {}".format(
                os.listdir(os.path.join(loc, "results"))))
        if crop.check_bad(delete_bad=False) != ("1",):
            fail("check_bad(delete_bad=False) missed the short result")
        if crop.check_bad() != ("1",) or os.path.exists(r1):
            fail("check_bad did not delete the short result")

        # an empty result is refused by the Reaper, both ways of loading
        cropping.write_to_disk((), r1)
        crop.grow(3)
        expect_raises(ValueError, "contains no data", lambda: crop.reap(),
                      "reap of an empty result")
        expect_raises(ValueError, "contains no data",
                      lambda: crop.reap(wait=True), "waiting reap of an empty "
                      "result")
        os.remove(r1)
        # a directory in place of a result
        os.mkdir(r1)
        expect_raises(ValueError, "is not a file",
                      lambda: crop.reap(wait=True, clean_up=False),
                      "waiting reap of a directory")
        if crop.missing_results() != (1,):
            fail("missing_results with a directory: {}".format(
                crop.missing_results()))
        os.rmdir(r1)

        # a failing write leaves the final name untouched
        class Unpicklable(object):
            def __reduce__(self):
                raise RuntimeError("no pickling")

        cropping.write_to_disk((fn(9, 9),) * 3, r1)
        before = open(r1, "rb").read()
        expect_raises(RuntimeError, "no pickling",
                      lambda: cropping.write_to_disk(Unpicklable(), r1),
                      "write of an unpicklable object")
        if open(r1, "rb").read() != before:
            fail("a failed write damaged the published result")
        leftovers = [
            f for f in os.listdir(os.path.join(loc, "results"))
            if f.startswith("xyz-result-1.jbdmp.")
        ]
        if len(leftovers) != 1 or not leftovers[0].endswith(".tmp") or \
                not leftovers[0].startswith(
                    "xyz-result-1.jbdmp.{}-".format(os.getpid())):
            fail("tmp file of a failed write is named {}".format(leftovers))
        for f in leftovers:
            os.remove(os.path.join(loc, "results", f))
        if crop.num_results != 3:
            fail("num_results = {} with three results".format(
                crop.num_results))

        # two writes never share a temporary name
        seen = []
        real = os.replace

        def spy(src, dst):
            seen.append(os.path.basename(src))
            return real(src, dst)

        os.replace = spy
        try:
            crop.grow(1)
            crop.grow(1)
        finally:
            os.replace = real
        if len(set(seen)) != 2 or not all(
            s.startswith("xyz-result-1.jbdmp.%d-" % os.getpid())
            and s.endswith(".tmp") and len(s) == len(seen[0])
            for s in seen
        ):
            fail("temporary names used: {}".format(seen))

        os.remove(stale)
        full = crop.reap(wait=True)
        if full != direct:
            fail("final reap differs from the direct run")
        if os.path.exists(loc):
            fail("final reap did not clean up")
    finally:
        shutil.rmtree(tmpdir, ignore_errors=True)


def main():
    t0 = time.time()
    sequential_checks()
    nruns = 0
    if not FAILURES:
        install_hooks()
        try:
            nruns = concurrent_checks()
        finally:
            remove_hooks()
    if FAILURES:
        print("FAIL")
        print(" (schedule entries: 'gK:X' = grower K ran up to just before its"
              " operation X, 'R:X' = the waiting reaper did)")
        for msg in FAILURES[:6]:
            print(" -", msg)
        return 1
    print("PASS ({} schedules, {:.1f}s, xyzpy from {})".format(
        nruns, time.time() - t0, os.path.dirname(xyzpy.__file__)))
    return 0


if __name__ == "__main__":
    code = main()
    sys.stdout.flush()
    os._exit(code)
