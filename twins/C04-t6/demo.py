"""Demo for the C04 twin t6: result-side bookkeeping of a Crop (progress
counting, missing batches, stand-in result) and the Reaper's loading of
results, checked against direct in-process sweeps.

Run as:  cd <worktree> && /venv/bin/python /path/to/demo.py
"""
import os
import sys

sys.path.insert(0, os.getcwd())

import itertools
import math
import pickle
import shutil
import subprocess
import tempfile
import threading
import time

import numpy as np
import xarray as xr

import xyzpy
from xyzpy.gen import cropping
from xyzpy.gen.cropping import Crop, Reaper, XYZError
from xyzpy.gen.combo_runner import combo_runner

assert os.path.abspath(xyzpy.__file__).startswith(os.getcwd()), xyzpy.__file__

CHECKS = [0]


def check(cond, msg=""):
    CHECKS[0] += 1
    if not cond:
        raise AssertionError(msg)


def fn(a, b, c=0):
    return a + 10 * b + 100 * c


def fn2(a, b):
    return a + 10 * b, float(a * b) / 2


def same(x, y):
    """Exact comparison of nested tuples, nan == nan."""
    if isinstance(x, (tuple, list)):
        return (
            isinstance(y, (tuple, list))
            and len(x) == len(y)
            and all(same(i, j) for i, j in zip(x, y))
        )
    if isinstance(x, float) and math.isnan(x):
        return isinstance(y, float) and math.isnan(y)
    return type(x) is type(y) and x == y


def listing(crop):
    out = {}
    for sub in ("batches", "results"):
        out[sub] = sorted(os.listdir(os.path.join(crop.location, sub)))
    return out


def fresh(name, parent):
    """A crop as a new process would make it: name and directory only."""
    return Crop(name=name, parent_dir=parent)


COMBOS = {"a": [1, 2, 3], "b": [10, 20, 30, 40]}  # 12 settings
N = 12


def progress_and_missing(tmp):
    """calc_progress / num_results / num_sown_batches / missing_results /
    is_ready_to_reap at every stage, also from re-created crops."""
    expected = combo_runner(fn, COMBOS, constants={"c": 2})

    opts = [
        dict(batchsize=1),
        dict(batchsize=5),
        dict(batchsize=N + 1),
        dict(num_batches=1),
        dict(num_batches=5),
        dict(num_batches=N + 2),
        dict(),
    ]
    for k, (kw, shuffle) in enumerate(
        itertools.product(opts, [False, True, 7])
    ):
        name = "prog{}".format(k)
        crop = Crop(fn=fn, name=name, parent_dir=tmp, **kw)

        # not sown yet
        check(not crop.is_prepared())
        crop.calc_progress()
        check(crop._num_sown_batches == -1 and crop._num_results == -1)
        check(crop.num_sown_batches == -1 and crop.num_results == -1)
        check(not crop.is_ready_to_reap())
        check("Not yet sown" in str(crop))

        crop.sow_combos(COMBOS, constants={"c": 2}, shuffle=shuffle)
        nb = crop.num_batches
        check(crop.num_sown_batches == nb)
        check(crop.num_results == 0)
        check(crop.missing_results() == tuple(range(1, nb + 1)))
        check(isinstance(crop.missing_results(), tuple))
        check(not crop.is_ready_to_reap())
        check(
            listing(crop)["batches"]
            == sorted("xyz-batch-{}.jbdmp".format(i) for i in range(1, nb + 1))
        )
        try:
            crop.reap()
            check(False, "reap of an ungrown crop must fail")
        except XYZError as e:
            check("not ready to reap" in str(e))
        try:
            crop.all_nan_result
            check(False, "no results yet")
        except XYZError as e:
            check("at least one finished result" in str(e))

        # grow in a scrambled order, from re-created crops, some twice
        order = list(range(1, nb + 1))
        order = order[1::2] + order[0::2]
        grown = set()
        for j, i in enumerate(order):
            c2 = fresh(name, tmp)
            if j % 3 == 0:
                c2.grow(i)
            elif j % 3 == 1:
                c2.grow((i,))
            else:
                cropping.grow(i, crop=c2, verbosity=0)
            if j % 4 == 0:
                fresh(name, tmp).grow(i)  # grown again
            grown.add(i)
            c3 = fresh(name, tmp)
            want = tuple(x for x in range(1, nb + 1) if x not in grown)
            check(c3.missing_results() == want, (c3.missing_results(), want))
            check(c3.num_results == len(grown))
            check(c3.num_sown_batches == nb)
            check(c3.is_ready_to_reap() == (len(grown) == nb))
            check(
                listing(c3)["results"]
                == sorted("xyz-result-{}.jbdmp".format(x) for x in grown)
            )
            check("{} / {} batches".format(len(grown), nb) in str(c3))

        check(crop.all_nan_result is crop.all_nan_result)
        check(math.isnan(fresh(name, tmp).all_nan_result))

        got = fresh(name, tmp).reap()
        check(same(got, expected), (kw, shuffle, got, expected))
        check(not os.path.exists(crop.location))


def incomplete_reaps(tmp):
    """Missing batches give nan at exactly the positions of their settings,
    sized from the sown batch, for every division into batches."""
    full = combo_runner(fn2, COMBOS)
    flat_full = [x for row in full for x in row]

    for k, (kw, shuffle) in enumerate(
        itertools.product(
            [dict(batchsize=5), dict(num_batches=5), dict(batchsize=1)],
            [False, True, 3],
        )
    ):
        name = "inc{}".format(k)
        crop = Crop(fn=fn2, name=name, parent_dir=tmp, shuffle=shuffle, **kw)
        crop.sow_combos(COMBOS, shuffle=None)
        nb = crop.num_batches
        grow_ids = [i for i in range(1, nb + 1) if i % 2 == 0] or [1]
        fresh(name, tmp).grow(grow_ids)

        # which settings live in which batch
        missing_settings = []
        for i in range(1, nb + 1):
            with open(
                os.path.join(
                    crop.location, "batches", "xyz-batch-{}.jbdmp".format(i)
                ),
                "rb",
            ) as f:
                batch = pickle.load(f)
            if i not in grow_ids:
                missing_settings.extend((s["a"], s["b"]) for s in batch)

        c2 = fresh(name, tmp)
        got = c2.reap(allow_incomplete=True)
        check(os.path.exists(crop.location))  # not cleaned up
        pos = 0
        for a in COMBOS["a"]:
            for b in COMBOS["b"]:
                g = got[COMBOS["a"].index(a)][COMBOS["b"].index(b)]
                if (a, b) in missing_settings:
                    check(
                        isinstance(g, tuple)
                        and len(g) == 2
                        and all(math.isnan(v) for v in g),
                        g,
                    )
                else:
                    check(same(g, flat_full[pos]), (g, flat_full[pos]))
                pos += 1

        # the default is not used when waiting or when none is asked for
        try:
            fresh(name, tmp).reap_combos(allow_incomplete=False)
            check(False)
        except XYZError:
            pass

        # finish the rest by grow_missing and reap completely
        c3 = fresh(name, tmp)
        c3.grow_missing()
        check(c3.missing_results() == ())
        got = fresh(name, tmp).reap()
        check(same(got, full))
        check(not os.path.exists(crop.location))


def runner_datasets(tmp):
    """The same through a Runner / Harvester (datasets), with cases, a fresh
    process per step and parallel growing."""
    runner = xyzpy.Runner(fn2, var_names=["x", "y"])
    expected = runner.run_combos(COMBOS, verbosity=0)

    for k, (kw, shuffle) in enumerate(
        [
            (dict(batchsize=5), False),
            (dict(num_batches=7), True),
            (dict(batchsize=N), 11),
        ]
    ):
        name = "run{}".format(k)
        r = xyzpy.Runner(fn2, var_names=["x", "y"])
        crop = r.Crop(name=name, parent_dir=tmp, **kw)
        crop.sow_combos(COMBOS, shuffle=shuffle, verbosity=0)

        # batch 1 by a genuinely fresh process
        code = (
            "import os, sys; sys.path.insert(0, os.getcwd()); import xyzpy; "
            "c = xyzpy.Crop(name={!r}, parent_dir={!r}); c.grow(1); "
            "print(c.missing_results())"
        ).format(name, tmp)
        out = subprocess.run(
            [sys.executable, "-c", code],
            capture_output=True,
            text=True,
            check=True,
        ).stdout
        nb = crop.num_batches
        check(
            out.strip().splitlines()[-1] == repr(tuple(range(2, nb + 1))), out
        )

        # allow_incomplete dataset: nan exactly at the missing places
        part = fresh(name, tmp).reap(allow_incomplete=True)
        check(bool(part["x"].isnull().any()) == (nb > 1))
        filled = part["x"].notnull()
        check(bool((part["x"].where(filled) == expected["x"].where(filled))
                   .where(filled, True).all()))
        check(bool(
            (part["x"].isnull() == part["y"].isnull()).all()
        ))

        # the rest in parallel
        fresh(name, tmp).grow_missing(num_workers=2)
        ds = fresh(name, tmp).reap()
        check(ds.identical(expected), (ds, expected))
        check(not os.path.exists(crop.location))

    # cases, through a harvester, synced to disk
    cases = [(1, 10), (3, 40), (2, 20), (3, 10), (1, 30)]
    r0 = xyzpy.Runner(fn2, var_names=["x", "y"], fn_args=["a", "b"])
    expected = r0.run_cases(cases, verbosity=0)
    for k, kw in enumerate(
        [dict(batchsize=2), dict(num_batches=3), dict(num_batches=7)]
    ):
        name = "cas{}".format(k)
        r = xyzpy.Runner(fn2, var_names=["x", "y"], fn_args=["a", "b"])
        h = xyzpy.Harvester(r, os.path.join(tmp, name + ".h5"))
        crop = h.Crop(name=name, parent_dir=tmp, **kw)
        crop.shuffle = k  # 0, 1, 2
        crop.sow_cases(None, cases, verbosity=0)
        nb = crop.num_batches
        c2 = fresh(name, tmp)
        c2.grow(tuple(reversed(range(1, nb + 1)))[:1])
        c2.grow_missing()
        ds = crop.reap()
        check(ds.identical(expected), (ds, expected))
        h2 = xyzpy.Harvester(r0, os.path.join(tmp, name + ".h5"))
        check(h2.full_ds.identical(expected))


def reaper_directly(tmp):
    """The Reaper itself: order, laziness, waiting and the error paths."""
    crop = Crop(fn=fn, name="reaper", parent_dir=tmp, batchsize=5)
    crop.sow_combos(COMBOS)
    crop.grow_missing()
    flat = [fn(a, b) for a in COMBOS["a"] for b in COMBOS["b"]]

    with Reaper(crop, num_batches=3) as reap_fn:
        got = [reap_fn(anything=i) for i in range(N)]
    check(got == flat)

    # not everything reaped -> error on exit
    try:
        with Reaper(crop, num_batches=3) as reap_fn:
            reap_fn()
        check(False)
    except XYZError as e:
        check(str(e) == "Not all results reaped!")

    # too many batches asked for: only found out when that file is needed
    rp = Reaper(crop, num_batches=4)
    got = [rp() for _ in range(N)]
    check(got == flat)
    try:
        rp()
        check(False)
    except FileNotFoundError:
        pass

    # num_batches must be usable as a range at construction
    try:
        Reaper(crop, num_batches=None)
        check(False)
    except TypeError:
        pass

    # an empty result file is refused
    res2 = os.path.join(crop.location, "results", "xyz-result-2.jbdmp")
    keep = open(res2, "rb").read()
    cropping.write_to_disk((), res2)
    rp = Reaper(crop, num_batches=3)
    got = [rp() for _ in range(5)]
    check(got == flat[:5])
    try:
        rp()
        check(False)
    except ValueError as e:
        check("contains no data upon read from disk" in str(e) and res2 in str(e))
    cropping.write_to_disk(None, res2)
    try:
        list(Reaper(crop, num_batches=3).results)
        check(False)
    except ValueError as e:
        check("contains no data" in str(e))
    os.remove(res2)

    # default result: the missing batch is sized by its batch file
    rp = Reaper(crop, num_batches=3, default_result=None)
    got = list(rp.results)
    check(got == flat[:5] + [None] * 5 + flat[10:])
    rp = Reaper(crop, num_batches=3, default_result="z")
    check(list(rp.results) == flat[:5] + ["z"] * 5 + flat[10:])
    # without a default the missing file is an error
    try:
        list(Reaper(crop, num_batches=3).results)
        check(False)
    except FileNotFoundError:
        pass

    # wait=True: blocks until the file appears, the default is ignored
    def later():
        time.sleep(0.7)
        with open(res2 + ".part", "wb") as f:
            f.write(keep)
        os.replace(res2 + ".part", res2)

    th = threading.Thread(target=later)
    th.start()
    t0 = time.time()
    rp = Reaper(crop, num_batches=3, wait=True, default_result=-1)
    got = list(rp.results)
    th.join()
    check(got == flat)
    check(time.time() - t0 > 0.4)

    # wait=True and the result path is a directory
    os.remove(res2)
    os.mkdir(res2)
    try:
        list(Reaper(crop, num_batches=3, wait=True).results)
        check(False)
    except ValueError as e:
        check(str(e) == "{} is not a file.".format(res2))
    os.rmdir(res2)
    with open(res2, "wb") as f:
        f.write(keep)

    # waiting reap through the crop, while another thread grows
    crop2 = Crop(fn=fn, name="waiter", parent_dir=tmp, num_batches=4)
    crop2.sow_combos(COMBOS, shuffle=5)

    def grower():
        time.sleep(0.5)
        fresh("waiter", tmp).grow([3, 1, 4, 2])

    th = threading.Thread(target=grower)
    th.start()
    got = crop2.reap(wait=True)
    th.join()
    check(same(got, combo_runner(fn, COMBOS)))
    check(not os.path.exists(crop2.location))

    got = crop.reap()
    check(same(got, combo_runner(fn, COMBOS)))


def awkward_location(tmp):
    """A location with glob characters is counted correctly."""
    parent = os.path.join(tmp, "we[i]rd*dir?")
    os.makedirs(parent)
    crop = Crop(fn=fn, name="gl[o]b*", parent_dir=parent, num_batches=5)
    crop.sow_combos(COMBOS, shuffle=True)
    check(crop.num_sown_batches == 5 and crop.num_results == 0)
    c2 = Crop(name="gl[o]b*", parent_dir=parent)
    c2.grow([5, 2])
    check(c2.num_results == 2)
    check(c2.missing_results() == (1, 3, 4))
    check(c2.check_bad() == ())
    got = c2.reap(allow_incomplete=True, clean_up=False)
    check(sum(math.isnan(v) for row in got for v in row) in (7, 8))
    c2.grow_missing()
    check(c2.is_ready_to_reap())
    check(same(c2.reap(), combo_runner(fn, COMBOS)))


def main():
    tmp = tempfile.mkdtemp(prefix="c04-t6-")
    cwd = os.getcwd()
    real_stderr = sys.stderr
    sys.stderr = open(os.devnull, "w")  # hide the progress bars
    try:
        progress_and_missing(tmp)
        incomplete_reaps(tmp)
        runner_datasets(tmp)
        reaper_directly(tmp)
        awkward_location(tmp)
    finally:
        sys.stderr.close()
        sys.stderr = real_stderr
        os.chdir(cwd)
        shutil.rmtree(tmp, ignore_errors=True)
    print("checks:", CHECKS[0])
    print("PASS")


if __name__ == "__main__":
    main()
