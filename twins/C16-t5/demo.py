"""Demo for C16 / refactoring 2: ``grow`` and the ``xyzpy-grow`` CLI.

Run as ``cd <worktree> && /venv/bin/python /path/to/demo.py``.

Part A calls ``xyzpy.gen.cropping.grow`` directly: crop given or inferred from
the working directory, function loaded from disk or supplied, sequential or
with workers, all verbosity levels, MPI rank variables, debugging, and the
error paths; checks messages, result files and the order/number of calls.

Part B runs the command line grower (``python -m xyzpy.gen.xyzpy_grow_cli``)
on crops with no / some / all results, with several option combinations, and
calls ``main()`` in-process to check the thread variables and the ray executor
selection (using stand-in executor classes).

Part C generates cluster scripts for every scheduler x mode (these embed calls
to ``grow`` / ``Crop.grow``), executes them with bash and stub scheduler
variables and checks exactly the intended batches get grown, each once, and
that the crop then reaps to the exact results.
"""

import os
import sys

sys.path.insert(0, os.getcwd())

import concurrent.futures
import contextlib
import io
import logging
import re
import shutil
import subprocess
import tempfile
import warnings

import xyzpy
from xyzpy.gen import cropping, xyzpy_grow_cli
from xyzpy.gen.cropping import Crop, grow, read_from_disk, write_to_disk

HERE = os.path.realpath(os.getcwd())
assert os.path.realpath(os.path.dirname(os.path.dirname(xyzpy.__file__))) == (
    HERE
), f"xyzpy imported from {xyzpy.__file__}, not the current directory"

RANK_VARS = ("OMPI_COMM_WORLD_RANK", "PMI_RANK")
THREAD_VARS = (
    "OMP_NUM_THREADS",
    "MKL_NUM_THREADS",
    "OPENBLAS_NUM_THREADS",
    "VECLIB_MAXIMUM_THREADS",
    "NUMEXPR_NUM_THREADS",
    "NUMBA_NUM_THREADS",
)
TASK_VARS = {
    "sge": "SGE_TASK_ID",
    "pbs": "PBS_ARRAY_INDEX",
    "slurm": "SLURM_ARRAY_TASK_ID",
}
ARRAY_LINE = {
    "sge": re.compile(r"^#\$ -t (\d+)-(\d+)$", re.M),
    "pbs": re.compile(r"^#PBS -J (\d+)-(\d+)$", re.M),
    "slurm": re.compile(r"^#SBATCH --array=(\d+)-(\d+)$", re.M),
}

failures = []


def check(cond, msg):
    if not cond:
        failures.append(msg)
        print("FAIL:", msg)


def make_fn(logfile, fail_on=None, scale=10):
    """Function whose calls are observable (one appended line per call)."""

    def fn(a, b):
        import os

        with open(logfile, "a") as f:
            f.write(f"{a},{b},{os.environ.get('OMP_NUM_THREADS')}\n")
        if fail_on == (a, b):
            raise RuntimeError(f"bad case {a} {b}")
        return scale * a + b

    return fn


def make_crop(parent, num_batches, logfile, batchsize=2, name="demo", **kw):
    """Sow a crop of exactly ``num_batches`` batches of ``batchsize``."""
    crop = Crop(
        fn=make_fn(logfile, **kw), name=name, parent_dir=parent,
        batchsize=batchsize,
    )
    combos = {"a": list(range(num_batches)), "b": list(range(batchsize))}
    crop.sow_combos(combos, verbosity=0)
    assert crop.num_batches == num_batches
    expected = tuple(
        tuple(10 * a + b for b in combos["b"]) for a in combos["a"]
    )
    return crop, expected


def read_log(logfile, reset=False):
    if not os.path.exists(logfile):
        return []
    with open(logfile) as f:
        out = [tuple(ln.split(",")) for ln in f.read().split()]
    if reset:
        os.remove(logfile)
    return [(int(a), int(b), t) for a, b, t in out]


def calls(logfile, reset=True):
    return [(a, b) for a, b, _ in read_log(logfile, reset)]


def snapshot_results(crop):
    d = os.path.join(crop.location, "results")
    out = {}
    for f in sorted(os.listdir(d)):
        p = os.path.join(d, f)
        with open(p, "rb") as fh:
            out[f] = (os.stat(p).st_mtime_ns, fh.read())
    return out


def result_ids(snapshot):
    return sorted(
        int(re.fullmatch(r"xyz-result-(\d+)\.jbdmp", f).group(1))
        for f in snapshot
    )


def changed_ids(old, new):
    """Ids of result files that were created or rewritten."""
    return sorted(
        int(re.search(r"(\d+)", f).group(1))
        for f, v in new.items() if old.get(f) != v
    )


def result_file(crop, i):
    return os.path.join(crop.location, "results", f"xyz-result-{i}.jbdmp")


@contextlib.contextmanager
def environ(**kv):
    saved = {k: os.environ.get(k) for k in kv}
    try:
        for k, v in kv.items():
            if v is None:
                os.environ.pop(k, None)
            else:
                os.environ[k] = v
        yield
    finally:
        for k, v in saved.items():
            if v is None:
                os.environ.pop(k, None)
            else:
                os.environ[k] = v


def call_grow(*args, **kwargs):
    """Call grow, returning (stdout, stderr, exception)."""
    out, err = io.StringIO(), io.StringIO()
    exc = None
    with contextlib.redirect_stdout(out), contextlib.redirect_stderr(err):
        try:
            ret = grow(*args, **kwargs)
            assert ret is None
        except Exception as e:  # noqa
            exc = e
    return out.getvalue(), err.getvalue(), exc


# --------------------------------------------------------------------------- #
#                         Part A: the grow function                           #
# --------------------------------------------------------------------------- #


def part_a():
    tmp = os.path.realpath(tempfile.mkdtemp(prefix="c16demo2_a_"))
    cwd0 = os.getcwd()
    clean_env = {k: None for k in RANK_VARS}
    try:
        with environ(**clean_env):
            part_a_inner(tmp)
    finally:
        os.chdir(cwd0)
        shutil.rmtree(tmp, ignore_errors=True)


def part_a_inner(tmp):
    log = os.path.join(tmp, "calls.log")
    crop, expected = make_crop(tmp, 6, log, batchsize=3)
    loaded = "xyzpy: loaded batch {} of demo.\n"
    success = "xyzpy: success - batch {} completed.\n"

    # --- verbosity levels, crop given, function loaded from disk
    for i, verbosity in ((1, 0), (2, 1), (3, 2)):
        out, err, exc = call_grow(i, crop, verbosity=verbosity)
        check(exc is None, f"A: grow({i}) raised {exc!r}")
        want = "" if verbosity == 0 else loaded.format(i) + success.format(i)
        check(out == want, f"A: verbosity {verbosity} stdout {out!r}")
        check((err == "") == (verbosity == 0), f"A: progress bar v={verbosity}")
        if verbosity == 2:
            check("{'a': %d, 'b': 2}" % (i - 1) in err, "A: case description")
        check(calls(log) == [(i - 1, b) for b in range(3)],
              f"A: calls of batch {i} (order / exactly once)")
        check(read_from_disk(result_file(crop, i)) == expected[i - 1],
              f"A: result of batch {i}")
        check(result_ids(snapshot_results(crop)) == list(range(1, i + 1)),
              f"A: only batch {i} was written")

    # --- default verbosity is 2, explicit fn overrides the one on disk
    other = make_fn(log, scale=100)
    out, err, exc = call_grow(4, crop, fn=other)
    check(exc is None and out == loaded.format(4) + success.format(4),
          f"A: default verbosity stdout {out!r}")
    check(read_from_disk(result_file(crop, 4)) == (300, 301, 302),
          "A: explicit fn used")
    check(calls(log) == [(3, 0), (3, 1), (3, 2)], "A: explicit fn calls")

    # --- growing again rewrites just that batch
    before = snapshot_results(crop)
    out, err, exc = call_grow(4, crop, verbosity=0)
    after = snapshot_results(crop)
    check(changed_ids(before, after) == [4], "A: regrow rewrites only batch 4")
    check(read_from_disk(result_file(crop, 4)) == expected[3], "A: regrown")
    calls(log)

    # --- with workers
    for nw, verbosity in ((1, 0), (2, 1)):
        os.remove(result_file(crop, 2))
        out, err, exc = call_grow(
            2, crop=crop, num_workers=nw, verbosity=verbosity
        )
        check(exc is None, f"A: workers raised {exc!r}")
        check(sorted(calls(log)) == [(1, 0), (1, 1), (1, 2)],
              f"A: num_workers={nw} calls")
        check(read_from_disk(result_file(crop, 2)) == expected[1],
              f"A: num_workers={nw} result (ordered)")
        want = "" if verbosity == 0 else loaded.format(2) + success.format(2)
        check(out == want, f"A: num_workers={nw} stdout {out!r}")

    # --- mpi rank detection
    mpi_cases = [
        # (env, check_mpi, verbosity, expect message rank, expect written)
        ({"OMPI_COMM_WORLD_RANK": "1"}, True, 1, 1, False),
        ({"OMPI_COMM_WORLD_RANK": "0"}, True, 2, 0, True),
        ({"PMI_RANK": "2"}, True, 1, 2, False),
        ({"PMI_RANK": "0"}, True, 1, 0, True),
        ({"OMPI_COMM_WORLD_RANK": "0", "PMI_RANK": "3"}, True, 1, 0, True),
        ({"OMPI_COMM_WORLD_RANK": "4", "PMI_RANK": "0"}, True, 1, 4, False),
        ({"OMPI_COMM_WORLD_RANK": "1"}, False, 1, None, True),
        ({"PMI_RANK": "5"}, False, 1, None, True),
        ({"PMI_RANK": "5"}, 0, 1, None, True),
        ({"PMI_RANK": "5"}, "yes", 1, 5, False),
        ({"OMPI_COMM_WORLD_RANK": "1"}, True, 0, None, False),
        ({"OMPI_COMM_WORLD_RANK": " 7 "}, True, 1, 7, False),
    ]
    for env, check_mpi, verbosity, msg_rank, written in mpi_cases:
        tag = f"A: mpi {env} check_mpi={check_mpi!r} v={verbosity}"
        with environ(**env):
            out, err, exc = call_grow(
                5, crop, check_mpi=check_mpi, verbosity=verbosity
            )
        check(exc is None, f"{tag}: raised {exc!r}")
        want = ""
        if verbosity:
            want = loaded.format(5)
            if msg_rank is not None:
                want += f"xyzpy: detected mpi rank {msg_rank}.\n"
            want += success.format(5)
        check(out == want, f"{tag}: stdout {out!r}")
        check(calls(log) == [(4, 0), (4, 1), (4, 2)], f"{tag}: calls")
        check(os.path.exists(result_file(crop, 5)) == written,
              f"{tag}: result written")
        if os.path.exists(result_file(crop, 5)):
            check(read_from_disk(result_file(crop, 5)) == expected[4], tag)
            os.remove(result_file(crop, 5))

    # invalid rank, only looked at when checking for mpi, and only the
    # first variable present is looked at
    with environ(OMPI_COMM_WORLD_RANK="abc"):
        out, err, exc = call_grow(5, crop, verbosity=1)
        check(isinstance(exc, ValueError) and "abc" in str(exc),
              f"A: bad rank gave {exc!r}")
        check(out == loaded.format(5), f"A: bad rank stdout {out!r}")
        check(calls(log) == [] and not os.path.exists(result_file(crop, 5)),
              "A: bad rank ran nothing")
        out, err, exc = call_grow(5, crop, verbosity=0, check_mpi=False)
        check(exc is None and os.path.exists(result_file(crop, 5)),
              "A: bad rank ignored without check_mpi")
        os.remove(result_file(crop, 5))
        calls(log)
    with environ(OMPI_COMM_WORLD_RANK="0", PMI_RANK="abc"):
        out, err, exc = call_grow(5, crop, verbosity=0)
        check(exc is None and os.path.exists(result_file(crop, 5)),
              "A: second rank variable not parsed")
        os.remove(result_file(crop, 5))
        calls(log)
    with environ(PMI_RANK="abc"):
        out, err, exc = call_grow(5, crop, verbosity=0)
        check(isinstance(exc, ValueError), f"A: bad PMI rank gave {exc!r}")
        calls(log)

    # --- debugging sets the root logger level
    root = logging.getLogger()
    level0 = root.level
    try:
        root.setLevel(logging.WARNING)
        call_grow(5, crop, verbosity=0)
        check(root.level == logging.WARNING, "A: logger untouched")
        os.remove(result_file(crop, 5))
        call_grow(5, crop, verbosity=0, debugging=True)
        check(root.level == logging.DEBUG, "A: debugging sets DEBUG level")
    finally:
        root.setLevel(level0)
    check(os.path.exists(result_file(crop, 5)), "A: debugging still grows")
    calls(log)

    # --- crop inferred from the working directory
    os.chdir(crop.location)
    out, err, exc = call_grow(6, verbosity=1)
    check(exc is None, f"A: cwd grow raised {exc!r}")
    check(out == loaded.format(6) + success.format(6), f"A: cwd stdout {out!r}")
    check(read_from_disk(result_file(crop, 6)) == expected[5], "A: cwd result")
    check(calls(log) == [(5, 0), (5, 1), (5, 2)], "A: cwd calls")
    check(result_ids(snapshot_results(crop)) == [1, 2, 3, 4, 5, 6], "A: all")

    # wrong folders
    for folder in (tmp, os.path.join(crop.location, "batches")):
        os.chdir(folder)
        before = snapshot_results(crop)
        out, err, exc = call_grow(6, verbosity=1)
        check(type(exc) is xyzpy.gen.farming.XYZError and str(exc) == (
            '`grow` should be run in a "{crop_parent}/.xyz-{crop_name}" '
            "folder, else `crop_parent` and `crop_name` (or `fn`) should be "
            "specified."), f"A: wrong folder gave {exc!r}")
        check(out == "" and calls(log) == [], "A: wrong folder ran nothing")
        check(snapshot_results(crop) == before, "A: wrong folder wrote")
    # a folder that merely looks like a crop
    fake = os.path.join(tmp, ".xyz-fake")
    os.makedirs(fake)
    os.chdir(fake)
    out, err, exc = call_grow(1, verbosity=1)
    check(isinstance(exc, FileNotFoundError), f"A: fake crop gave {exc!r}")
    out, err, exc = call_grow(1, fn=make_fn(log), verbosity=1)
    check(isinstance(exc, FileNotFoundError), f"A: fake crop + fn {exc!r}")
    os.chdir(tmp)

    # --- reaps exactly
    check(crop.is_ready_to_reap(), "A: ready to reap")
    check(crop.reap() == expected, "A: reap")

    # --- error paths
    crop, expected = make_crop(tmp, 3, log, name="errs", fail_on=(1, 1))
    # missing batch
    out, err, exc = call_grow(7, crop, verbosity=1)
    check(isinstance(exc, FileNotFoundError), f"A: missing batch {exc!r}")
    check(out == "", "A: missing batch stdout")
    # function failing part way through a batch: nothing written
    out, err, exc = call_grow(2, crop, verbosity=1)
    check(isinstance(exc, RuntimeError) and str(exc) == "bad case 1 1",
          f"A: failing fn gave {exc!r}")
    check(out == "xyzpy: loaded batch 2 of errs.\n", "A: failing fn stdout")
    check(calls(log) == [(1, 0), (1, 1)], "A: failing fn calls")
    check(result_ids(snapshot_results(crop)) == [], "A: failing fn wrote")
    out, err, exc = call_grow(2, crop, verbosity=0, num_workers=2)
    check(isinstance(exc, RuntimeError) and str(exc) == "bad case 1 1",
          f"A: failing fn with workers gave {exc!r}")
    check(result_ids(snapshot_results(crop)) == [], "A: failing fn wrote (w)")
    calls(log)
    # missing function file
    fn_file = os.path.join(crop.location, "xyz-function.clpkl")
    os.rename(fn_file, fn_file + ".bak")
    out, err, exc = call_grow(1, crop, verbosity=1)
    check(isinstance(exc, FileNotFoundError) and out == "",
          f"A: missing function gave {exc!r}")
    out, err, exc = call_grow(1, crop, fn=make_fn(log), verbosity=0)
    check(exc is None and result_ids(snapshot_results(crop)) == [1],
          "A: explicit fn needs no function file")
    os.rename(fn_file + ".bak", fn_file)
    calls(log)
    # an empty batch
    batch3 = os.path.join(crop.location, "batches", "xyz-batch-3.jbdmp")
    write_to_disk((), batch3)
    out, err, exc = call_grow(3, crop, verbosity=1)
    check(type(exc) is ValueError and str(exc) == (
        "Something has gone wrong with the loading of batch "
        f"xyz-batch-3.jbdmp for the crop at {crop.location}."),
        f"A: empty batch gave {exc!r}")
    check(out == "", "A: empty batch stdout")
    os.chdir(crop.location)
    out, err, exc = call_grow(3, verbosity=1)
    os.chdir(tmp)
    check(type(exc) is AttributeError, f"A: empty batch, no crop: {exc!r}")
    check(result_ids(snapshot_results(crop)) == [1], "A: empty batch wrote")


# --------------------------------------------------------------------------- #
#                       Part B: the command line grower                       #
# --------------------------------------------------------------------------- #


def run_cli(args, cwd):
    env = {
        k: v for k, v in os.environ.items()
        if k not in RANK_VARS and k not in THREAD_VARS
    }
    env["PYTHONPATH"] = HERE
    return subprocess.run(
        [sys.executable, "-m", "xyzpy.gen.xyzpy_grow_cli"] + args,
        env=env, cwd=cwd, capture_output=True, text=True,
    )


def cli_scenario(tag, num_batches, grown, extra_args, threads="1",
                 use_cwd=False):
    tmp = os.path.realpath(tempfile.mkdtemp(prefix="c16demo2_b_"))
    try:
        log = os.path.join(tmp, "calls.log")
        crop, expected = make_crop(tmp, num_batches, log)
        if grown:
            crop.grow(grown, verbosity=0)
        calls(log)
        before = snapshot_results(crop)
        crop_str = str(crop)
        missing = [i for i in range(1, num_batches + 1) if i not in grown]

        if use_cwd:
            res = run_cli(["demo"] + extra_args, cwd=tmp)
        else:
            res = run_cli(["demo", "--parent-dir", tmp] + extra_args, cwd=HERE)
        check(res.returncode == 0, f"B {tag}: exit {res.returncode}: "
              + res.stderr[-300:])
        if not use_cwd:
            check(res.stdout == f"Growing:\n{crop_str}\nDone!\n",
                  f"B {tag}: stdout {res.stdout!r}")
        else:
            check(res.stdout.startswith("Growing:\n")
                  and res.stdout.endswith("\nDone!\n"), f"B {tag}: stdout")
        after = snapshot_results(crop)
        check(changed_ids(before, after) == missing,
              f"B {tag}: grew {changed_ids(before, after)}, wanted {missing}")
        got = read_log(log, reset=True)
        check(sorted((a, b) for a, b, _ in got)
              == sorted((i - 1, b) for i in missing for b in range(2)),
              f"B {tag}: calls {got}")
        check(all(t == threads for _, _, t in got),
              f"B {tag}: OMP_NUM_THREADS seen by fn {got}")
        if missing:
            check(crop.is_ready_to_reap(), f"B {tag}: ready to reap")
            check(crop.missing_results() == (), f"B {tag}: missing")
            check(crop.reap() == expected, f"B {tag}: reap")
    finally:
        shutil.rmtree(tmp, ignore_errors=True)


class FakeRay(concurrent.futures.ThreadPoolExecutor):
    made = []

    def __init__(self, **kwargs):
        type(self).made.append((type(self).__name__, kwargs))
        super().__init__(2)


class FakeRayGPU(FakeRay):
    pass


def main_in_process(argv):
    """Run the CLI ``main`` in this process with stand-in ray executors."""
    saved_argv, saved_path = sys.argv, list(sys.path)
    saved_execs = xyzpy.RayExecutor, xyzpy.RayGPUExecutor
    out = io.StringIO()
    exc = None
    env_seen = None
    with environ(**{k: None for k in THREAD_VARS}):
        try:
            sys.argv = ["xyzpy-grow"] + argv
            xyzpy.RayExecutor, xyzpy.RayGPUExecutor = FakeRay, FakeRayGPU
            with contextlib.redirect_stdout(out), \
                    contextlib.redirect_stderr(io.StringIO()):
                xyzpy_grow_cli.main()
        except BaseException as e:  # noqa  (argparse raises SystemExit)
            exc = e
        finally:
            env_seen = {k: os.environ.get(k) for k in THREAD_VARS}
            path_added = sys.path[len(saved_path):]
            sys.argv = saved_argv
            sys.path[:] = saved_path
            xyzpy.RayExecutor, xyzpy.RayGPUExecutor = saved_execs
    return out.getvalue(), exc, env_seen, path_added


def part_b():
    # --- as a subprocess
    jobs = [
        ("fresh", 3, (), []),
        ("fresh-1", 1, (), ["--verbosity", "0"]),
        ("some", 5, (2, 5), ["--num-threads", "3"], "3"),
        ("one-left", 4, (1, 2, 4), ["--verbosity", "2", "--debug"]),
        ("workers", 8, (3,), ["--num-workers", "2", "--num-threads", "2"], "2"),
        ("done", 2, (1, 2), []),
        ("gpus-ignored", 2, (1,), ["--gpus-per-task", "0.5"]),
        ("cwd", 3, (1,), [], "1", True),
    ]
    with concurrent.futures.ThreadPoolExecutor(4) as pool:
        for f in [pool.submit(cli_scenario, *job) for job in jobs]:
            f.result()

    tmp = os.path.realpath(tempfile.mkdtemp(prefix="c16demo2_b_"))
    try:
        log = os.path.join(tmp, "calls.log")

        # not sown: (the error class named in the source does not exist)
        res = run_cli(["nothing", "--parent-dir", tmp], cwd=HERE)
        check(res.returncode == 1 and res.stdout == "" and
              res.stderr.rstrip().splitlines()[-1].startswith(
                  "AttributeError: module 'xyzpy.utils' has no attribute"),
              f"B unsown: {res.returncode} {res.stdout!r} {res.stderr[-200:]}")
        check(not os.path.exists(os.path.join(tmp, ".xyz-nothing")),
              "B unsown: created a crop directory")

        crop, expected = make_crop(tmp, 3, log)
        # bad arguments: nothing happens
        for bad, msg in [
            (["demo", "--parent-dir", tmp, "--num-workers", "two"],
             "Invalid value for num_workers"),
            (["demo", "--parent-dir", tmp, "--num-threads", "x"],
             "invalid int value"),
            (["demo", "--parent-dir", tmp, "--gpus-per-task", "x"],
             "--gpus-per-task"),
            (["--parent-dir", tmp], "crop_name"),
        ]:
            res = run_cli(bad, cwd=HERE)
            check(res.returncode == 2 and msg in res.stderr
                  and res.stdout == "", f"B bad args {bad}: {res.stderr!r}")
        # ray is not installed here: fails before growing anything
        res = run_cli(["demo", "--parent-dir", tmp, "--ray"], cwd=HERE)
        check(res.returncode == 1 and "ModuleNotFoundError" in res.stderr
              and res.stdout == "", f"B --ray: {res.stderr[-200:]!r}")
        check(result_ids(snapshot_results(crop)) == [] and calls(log) == [],
              "B: failed invocations grew something")

        # --- in process: thread variables, sys.path, executor selection
        crop_str = str(crop)
        out, exc, env_seen, path_added = main_in_process(
            ["demo", "--parent-dir", tmp, "--num-threads", "5",
             "--verbosity", "0"]
        )
        check(exc is None, f"B main: raised {exc!r}")
        check(out == f"Growing:\n{crop_str}\nDone!\n", f"B main: {out!r}")
        check(env_seen == {k: "5" for k in THREAD_VARS}, f"B main: {env_seen}")
        check(path_added == [tmp], f"B main: sys.path += {path_added}")
        check(FakeRay.made == [], "B main: no executor without --ray")
        check(sorted(calls(log)) == [(a, b) for a in range(3) for b in range(2)],
              "B main: calls")
        check(result_ids(snapshot_results(crop)) == [1, 2, 3], "B main: grown")
        check(crop.reap() == expected, "B main: reap")

        for extra, want in [
            (["--ray"], ("FakeRay", {"num_cpus": None})),
            (["--ray", "--num-workers", "3"], ("FakeRay", {"num_cpus": 3})),
            (["--ray", "--gpus-per-task", "1"],
             ("FakeRayGPU", {"num_cpus": None, "gpus_per_task": 1})),
            (["--ray", "--gpus-per-task", "0.25", "--num-workers", "2"],
             ("FakeRayGPU", {"num_cpus": 2, "gpus_per_task": 0.25})),
            (["--ray", "--gpus-per-task", "0"],
             ("FakeRayGPU", {"num_cpus": None, "gpus_per_task": 0})),
        ]:
            crop, expected = make_crop(tmp, 4, log)
            crop.grow((2,), verbosity=0)
            calls(log)
            before = snapshot_results(crop)
            del FakeRay.made[:]
            out, exc, env_seen, path_added = main_in_process(
                ["demo", "--parent-dir", tmp, "--verbosity", "0"] + extra
            )
            check(exc is None, f"B main {extra}: raised {exc!r}")
            check(FakeRay.made == [want], f"B main {extra}: {FakeRay.made}")
            check(type(want[1].get("gpus_per_task")) is
                  type(FakeRay.made[0][1].get("gpus_per_task")),
                  f"B main {extra}: gpus_per_task type")
            check(env_seen == {k: "1" for k in THREAD_VARS},
                  f"B main {extra}: {env_seen}")
            check(changed_ids(before, snapshot_results(crop)) == [1, 3, 4],
                  f"B main {extra}: grown")
            check(sorted(calls(log)) ==
                  [(a, b) for a in (0, 2, 3) for b in range(2)],
                  f"B main {extra}: calls")
            check(crop.reap() == expected, f"B main {extra}: reap")

        # unsown crop in process: fails after the environment is set, before
        # any executor would be used
        del FakeRay.made[:]
        out, exc, env_seen, path_added = main_in_process(
            ["nope", "--parent-dir", tmp, "--num-threads", "2", "--ray"]
        )
        check(type(exc) is AttributeError and out == "", f"B unsown: {exc!r}")
        check(env_seen == {k: "2" for k in THREAD_VARS}, "B unsown: env")
        check(FakeRay.made == [("FakeRay", {"num_cpus": None})],
              "B unsown: executor made before the check")
        # bad arguments in process: exits before touching the environment
        out, exc, env_seen, path_added = main_in_process(
            ["demo", "--num-workers", "many"]
        )
        check(type(exc) is SystemExit and exc.code == 2, f"B bad: {exc!r}")
        check(env_seen == {k: None for k in THREAD_VARS} and path_added == [],
              "B bad: environment touched")
    finally:
        shutil.rmtree(tmp, ignore_errors=True)


# --------------------------------------------------------------------------- #
#                   Part C: cluster scripts executed with bash                #
# --------------------------------------------------------------------------- #


def run_script(script, tmp, env_extra):
    path = os.path.join(tmp, "script.sh")
    with open(path, "w") as f:
        f.write(script)
    env = {
        k: v for k, v in os.environ.items()
        if k not in TASK_VARS.values() and k != "CONDA_DEFAULT_ENV"
        and k not in RANK_VARS
    }
    env["PYTHONPATH"] = HERE
    env.update(env_extra)
    return subprocess.run(
        ["bash", path], env=env, capture_output=True, text=True, cwd=tmp
    )


def script_scenario(scheduler, mode, num_batches, grown, batch_ids, resources,
                    env_extra=None, expect_written=True):
    label = f"C {scheduler}/{mode}/B={num_batches}/{grown}/{batch_ids}"
    tmp = os.path.realpath(tempfile.mkdtemp(prefix="c16demo2_c_"))
    try:
        log = os.path.join(tmp, "calls.log")
        crop, expected = make_crop(tmp, num_batches, log)
        if grown:
            crop.grow(grown, verbosity=0)
        calls(log)
        before = snapshot_results(crop)
        if batch_ids is not None:
            intended = list(batch_ids)
        else:
            intended = [
                i for i in range(1, num_batches + 1) if i not in (grown or ())
            ]
        script = crop.gen_cluster_script(
            scheduler, batch_ids, mode=mode, conda_env=False,
            launcher=sys.executable,
            output_directory=os.path.join(tmp, "out"), **resources
        )
        n_tasks = len(intended)

        path = os.path.join(tmp, "check.sh")
        with open(path, "w") as f:
            f.write(script)
        res = subprocess.run(["bash", "-n", path], capture_output=True)
        check(res.returncode == 0, f"{label}: bash -n failed")
        m = re.search(r"<< EOM\n(.*?)\nEOM\n", script, re.S)
        prog = m.group(1).replace("$" + TASK_VARS[scheduler], "1")
        compile(prog, "<embedded>", "exec")
        ranges = ARRAY_LINE[scheduler].findall(script)
        if mode == "single" or (scheduler == "pbs" and n_tasks == 1):
            check(ranges == [], f"{label}: unexpected array header {ranges}")
        else:
            check(ranges == [("1", str(n_tasks))],
                  f"{label}: array range {ranges} != 1-{n_tasks}")

        def check_run(res, sub):
            check("Traceback" not in res.stderr,
                  f"{label}{sub}: python failed: {res.stderr[-500:]}")
            check("XYZPY script finished" in res.stdout
                  and "Growing: " in res.stdout, f"{label}{sub}: output")

        written = intended if expect_written else []
        if mode == "array":
            prev = before
            for idx in range(1, n_tasks + 1):
                env = {TASK_VARS[scheduler]: str(idx)}
                env.update(env_extra or {})
                res = run_script(script, tmp, env)
                check_run(res, f"[task {idx}]")
                check(f"xyzpy: loaded batch {intended[idx - 1]} of demo."
                      in res.stdout, f"{label}[task {idx}]: grow message")
                now = snapshot_results(crop)
                want = [intended[idx - 1]] if expect_written else []
                check(changed_ids(prev, now) == want,
                      f"{label}[task {idx}]: grew {changed_ids(prev, now)}")
                prev = now
        else:
            res = run_script(script, tmp, env_extra or {})
            check_run(res, "")

        after = snapshot_results(crop)
        check(changed_ids(before, after) == sorted(written),
              f"{label}: wrote {changed_ids(before, after)}, "
              f"wanted {sorted(written)}")
        want = sorted((i - 1, b) for i in intended for b in range(2))
        got = sorted(calls(log))
        check(got == want, f"{label}: calls {got} != {want}")

        crop.grow_missing(verbosity=0)
        check(crop.is_ready_to_reap(), f"{label}: not ready to reap")
        check(crop.reap() == expected, f"{label}: reap")
    finally:
        shutil.rmtree(tmp, ignore_errors=True)


def part_c():
    warnings.simplefilter("ignore")
    jobs = []
    states = [
        (3, None, None, dict()),
        (5, (2, 5), None, dict(time="0:10:00", gigabytes=2, gpu=1)),
        (4, None, (3,), dict(minutes=5, num_workers=2, num_procs=2)),
        (8, (1, 8), (7, 2), dict(time=1, debugging=True, requeue=None)),
    ]
    for scheduler in ("sge", "pbs", "slurm"):
        for mode in ("array", "single"):
            for nb, grown, ids, resources in states:
                jobs.append((scheduler, mode, nb, grown, ids, resources))
    # scripts run under mpiexec: only rank 0 writes results
    jobs.append(("slurm", "array", 2, None, None, dict(),
                 {"OMPI_COMM_WORLD_RANK": "1"}, False))
    jobs.append(("sge", "array", 2, None, None, dict(),
                 {"PMI_RANK": "0"}, True))
    with concurrent.futures.ThreadPoolExecutor(6) as pool:
        for f in [pool.submit(script_scenario, *job) for job in jobs]:
            f.result()
    print(f"part C: executed {len(jobs)} scenarios")


if __name__ == "__main__":
    for _k in RANK_VARS + tuple(TASK_VARS.values()):
        os.environ.pop(_k, None)
    part_a()
    part_b()
    part_c()
    if failures:
        print(f"{len(failures)} check(s) failed")
        sys.exit(1)
    print("PASS")
