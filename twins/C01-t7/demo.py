"""Demo for C01 / t7: how the linear sequence of results is put into its
slots (``_unflatten``, ``nan_like_result`` and the result arrangement at the
end of ``combo_runner_core``), directly and through ``combo_runner``.

Run as:  cd <worktree> && /venv/bin/python /path/to/demo.py
"""
import sys
import os

sys.path.insert(0, os.getcwd())

import io
import math
import random
import shutil
import tempfile
import itertools
import contextlib
import warnings
from concurrent.futures import ThreadPoolExecutor

warnings.simplefilter("ignore")

import numpy as np
import xarray as xr

import xyzpy
from xyzpy.gen import combo_runner as cr
from xyzpy.gen.prepare import parse_combos

assert os.path.abspath(xyzpy.__file__).startswith(os.getcwd()), xyzpy.__file__


def quiet(f, *args, **kwargs):
    with contextlib.redirect_stderr(io.StringIO()):
        return f(*args, **kwargs)


def isnan(x):
    return isinstance(x, float) and math.isnan(x)


def same(x, y):
    if isinstance(x, np.ndarray) or isinstance(y, np.ndarray):
        return (isinstance(x, np.ndarray) and isinstance(y, np.ndarray)
                and x.shape == y.shape and x.dtype == y.dtype
                and bool(((x == y) | ((x != x) & (y != y))).all()))
    if isinstance(x, tuple) or isinstance(y, tuple):
        return (type(x) is type(y) and len(x) == len(y)
                and all(same(p, q) for p, q in zip(x, y)))
    if isnan(x) or isnan(y):
        return isnan(x) and isnan(y)
    return type(x) is type(y) and x == y


# --------------------------------------------------------------------------- #

def check_unflatten():
    # full grids of every depth
    for shape in [(), (1,), (3,), (2, 3), (4, 1, 2), (2, 2, 2, 2),
                  (1, 2, 3, 1, 2)]:
        values = tuple([f"v{d}_{i}" if d % 2 else i * 1.5 for i in range(n)]
                       for d, n in enumerate(shape))
        store = {p: ("res", p) for p in itertools.product(*values)}
        n_entries = len(store)
        assert n_entries == int(np.prod(shape, dtype=int))

        def rec(d, p):
            if d == len(values):
                return ("res", p)
            return tuple(rec(d + 1, p + (v,)) for v in values[d])

        given = tuple(values)
        out = cr._unflatten(store, given)
        assert same(out, rec(0, ())), shape
        # the store is used up, the description of the grid is untouched
        assert store == {}
        assert given == values and all(type(v) is list for v in given)

        # as a list of lists as well
        store = {p: ("res", p) for p in itertools.product(*values)}
        as_list = [list(v) for v in values]
        assert same(cr._unflatten(store, as_list), rec(0, ()))
        assert as_list == [list(v) for v in values]

    # missing entries take the filler, by default None
    values = ([1, 2, 3], ["a", "b"])
    present = {(1, "a"): 10, (3, "b"): 32}
    assert cr._unflatten(dict(present), values) == (
        (10, None), (None, None), (None, 32))
    filler = object()
    out = cr._unflatten(dict(present), values, filler)
    assert out == ((10, filler), (filler, filler), (filler, 32))
    assert out[0][1] is filler and out[1][0] is filler
    out = cr._unflatten(dict(present), values, all_nan=np.nan)
    assert same(out, ((10, np.nan), (np.nan, np.nan), (np.nan, 32)))

    # entries that are not part of the grid are left in the store
    store = dict(present)
    store[(9, "z")] = "stray"
    cr._unflatten(store, values)
    assert store == {(9, "z"): "stray"}

    # an argument without values
    assert cr._unflatten({}, ([],)) == ()
    assert cr._unflatten({}, ([1, 2], [])) == ((), ())
    assert cr._unflatten({}, ([], [1, 2])) == ()

    # no argument at all: the single result, or a KeyError
    assert cr._unflatten({(): "only"}, ()) == "only"
    try:
        cr._unflatten({}, ())
    except KeyError as e:
        assert e.args == ((),)
    else:
        raise AssertionError

    # unhashable value (an empty store is never asked, so nothing is hashed)
    assert cr._unflatten({}, ([[1], [2]],)) == (None, None)
    try:
        cr._unflatten({(9,): 1}, ([[1], [2]],))
    except TypeError as e:
        assert "unhashable" in str(e)
    else:
        raise AssertionError


def check_nan_like():
    out = cr.nan_like_result((True, [[10, 20, 30], [40, 50, 60]], -42.0, "hi"))
    assert type(out) is tuple and len(out) == 4
    assert out[0].shape == () and np.isnan(out[0])
    assert out[1].shape == (2, 3) and np.isnan(out[1]).all()
    assert out[2].shape == () and np.isnan(out[2])
    assert out[3] is None

    assert isnan(cr.nan_like_result(3))
    assert isnan(cr.nan_like_result(3.5))
    assert isnan(cr.nan_like_result(None))
    assert isnan(cr.nan_like_result(np.float64(2.0)))
    assert isnan(cr.nan_like_result(np.array(2.0)))     # 0-d: not iterable
    assert cr.nan_like_result(True) is None
    assert cr.nan_like_result("text") is None
    assert cr.nan_like_result(()) == ()
    assert cr.nan_like_result([]) == ()

    out = cr.nan_like_result(np.arange(6.0).reshape(2, 3))
    assert type(out) is tuple and len(out) == 2
    assert all(o.shape == (3,) and np.isnan(o).all() for o in out)

    out = cr.nan_like_result(["a", 1, (1, 2)])
    assert out[0] is None and out[1].shape == () and out[2].shape == (2,)

    # a one-shot iterable is consumed once
    out = cr.nan_like_result(iter([1, "s", [1, 2, 3]]))
    assert len(out) == 3 and out[1] is None and out[2].shape == (3,)

    # elements whose shape cannot be found propagate their error ...
    for bad, exc in ((([],), IndexError), (({"k": 1},), KeyError)):
        try:
            cr.nan_like_result(bad)
        except exc:
            pass
        else:
            raise AssertionError(bad)

    # ... unless it is a TypeError, which means 'scalar result'
    class Odd:
        def __len__(self):
            return 2

        def __getitem__(self, i):
            raise TypeError("no items")

    out = cr.nan_like_result((Odd(),))
    assert out[0].shape == (2,)

    class Stops:
        def __iter__(self):
            yield 1
            raise TypeError("half way")

    assert isnan(cr.nan_like_result(Stops()))

    # labelled results
    ds = cr.nan_like_result({"x": ("t", [1, 2, 3]), "y": 4})
    assert isinstance(ds, xr.Dataset)
    assert ds["x"].dtype == float and np.isnan(ds["x"].values).all()
    assert np.isnan(ds["y"].values)
    da = cr.nan_like_result(xr.DataArray([1, 2], dims="t"))
    assert isinstance(da, xr.DataArray) and np.isnan(da.values).all()


# --------------------------------------------------------------------------- #

def f_scalar(scale=1, **kws):
    return repr(sorted(kws.items())) + f"*{scale}"


def f_tuple(scale=1, **kws):
    return repr(sorted(kws.items())), len(kws) * scale, "s"


def f_array(scale=1, **kws):
    return np.array([float(sum(map(ord, repr(sorted(kws.items()))))), scale])


def expected_nested(fn, combos, constants, pick=None):
    args = [a for a, _ in combos]
    vals = [v for _, v in combos]

    def rec(i, chosen):
        if i == len(args):
            res = fn(**dict(zip(args, chosen)), **constants)
            return res if pick is None else res[pick]
        return tuple(rec(i + 1, chosen + (v,)) for v in vals[i])

    return rec(0, ())


def check_grid_sweeps():
    grids = [
        {"a": [1, 2, 3]},
        {"a": [7]},
        (("a", [2, 1]), ("b", ["x", "y", "z"])),
        {"a": [1.5, -2.0], "b": ["p"], "c": [3, 1, 2, 0]},
        ("a", [4, 5]),
        {"a": [1, 2], "b": [3.0, 4.0], "c": ["u", "v"], "d": [0, 9]},
        {"a": [1, 2], "b": [3.0, 4.0], "c": ["u", "v"], "d": [0, 9],
         "e": ["k", "l", "m"]},
    ]
    tpe = ThreadPoolExecutor(3)
    strategies = [{}, {"shuffle": True}, {"shuffle": 42}, {"executor": tpe},
                  {"executor": tpe, "shuffle": 3}]
    n = 0
    try:
        for grid in grids:
            parsed = parse_combos(grid)
            names = [a for a, _ in parsed]
            settings = [dict(zip(names, p)) for p in
                        itertools.product(*(v for _, v in parsed))]
            for constants in (None, {"scale": 4}):
                consts = dict(constants or {})
                for fn, nout in ((f_scalar, None), (f_tuple, 3),
                                 (f_array, 2)):
                    for kw in strategies:
                        for split in (False, True):
                            for flat in (False, True):
                                if split and nout is None:
                                    continue
                                out = quiet(
                                    xyzpy.combo_runner, fn, grid,
                                    constants=constants, split=split,
                                    flat=flat, **kw)

                                def want(pick=None):
                                    if flat:
                                        rs = [fn(**s, **consts)
                                              for s in settings]
                                        if pick is not None:
                                            rs = [r[pick] for r in rs]
                                        return tuple(rs)
                                    return expected_nested(
                                        fn, parsed, consts, pick)

                                exp = (tuple(want(i) for i in range(nout))
                                       if split else want())
                                assert same(out, exp), (grid, kw, split, flat)
                                n += 1
    finally:
        tpe.shutdown()
    return n


def check_core_corners():
    core = cr.combo_runner_core

    # exactly one call per combination, constants added and nothing else
    calls = []

    def rec(**kws):
        calls.append(dict(kws))
        return len(calls)

    combos = (("a", [1, 2]), ("b", ["x", "y", "z"]))
    out = quiet(core, rec, combos, {"k": 0})
    assert out == ((1, 2, 3), (4, 5, 6))
    assert calls == [{"a": a, "b": b, "k": 0} for a in (1, 2) for b in "xyz"]

    # no arguments at all -> the bare result / a tuple of one in flat form
    assert quiet(core, lambda: "r", (), {}) == "r"
    assert quiet(core, lambda: "r", (), {}, flat=True) == ("r",)
    assert quiet(core, lambda: ("p", "q"), (), {}, split=True) == ("p", "q")
    assert quiet(core, lambda c: c, (), {"c": 5}) == 5

    # an argument with no values
    assert quiet(core, rec, (("a", []),), {}) == ()
    assert quiet(core, rec, (("a", [1, 2]), ("b", [])), {}) == ((), ())
    assert quiet(core, rec, (("a", []),), {}, flat=True) == ()
    assert quiet(core, rec, (("a", []),), {}, split=True) == ()

    # the labelling information is filled in before results are arranged
    info = {}
    out = quiet(core, lambda a, b: a + b, (("a", [1, 2]), ("b", [10, 20])),
                {}, info=info)
    assert out == ((11, 21), (12, 22))
    assert info == {"fn_args": ("a", "b"),
                    "all_combo_values": ([1, 2], [10, 20])}
    info = {}
    out = quiet(core, lambda a, b, c: a + b + c,
                (("a", [1, 2]), ("b", [10, 20])), {"c": 100},
                info=info, flat=True, shuffle=9)
    assert out == (111, 121, 112, 122)
    assert info == {"settings": [
        {"a": 1, "b": 10, "c": 100}, {"a": 1, "b": 20, "c": 100},
        {"a": 2, "b": 10, "c": 100}, {"a": 2, "b": 20, "c": 100}]}

    # unhashable values: flat form is fine, the nested form cannot index
    # them -- after every call has been made, and after ``info`` is filled
    combos = (("a", [[1], [2]]),)
    del calls[:]
    assert quiet(core, rec, combos, {}, flat=True) == (1, 2)
    del calls[:]
    info = {}
    try:
        quiet(core, rec, combos, {}, info=info)
    except TypeError as e:
        assert "unhashable" in str(e)
    else:
        raise AssertionError
    assert len(calls) == 2
    assert info == {"fn_args": ("a",), "all_combo_values": ([[1], [2]],)}

    # split: outputs of unequal length are cut to the shortest, and a
    # result that cannot be split is a TypeError
    def ragged(a):
        return (a, -a) if a == 1 else (a, -a, "extra")

    assert quiet(core, ragged, (("a", [1, 2]),), {}, split=True) == (
        (1, 2), (-1, -2))
    assert quiet(core, ragged, (("a", [2, 1]),), {}, split=True,
                 flat=True) == ((2, 1), (-2, -1))
    try:
        quiet(core, lambda a: a, (("a", [1, 2]),), {}, split=True)
    except TypeError:
        pass
    else:
        raise AssertionError

    # results that are themselves tuples / arrays stay whole in their slot
    out = quiet(core, lambda a, b: (a, (b, b)), (("a", [1, 2]), ("b", [3])),
                {})
    assert out == (((1, (3, 3)),), ((2, (3, 3)),))
    arr = quiet(core, lambda a, b: np.full(2, a * b),
                (("a", [1, 2]), ("b", [3, 4])), {})
    assert np.asarray(arr).shape == (2, 2, 2)
    assert (np.asarray(arr)[:, :, 0] == [[3, 4], [6, 8]]).all()


def check_with_cases():
    def f(a, b, c=0):
        return f"{a}{b}{c}"

    cases = [{"a": 2, "b": "y"}, {"a": 1, "b": "x"}]
    out = quiet(xyzpy.combo_runner, f, cases=cases)
    assert same(out, (("1x0", None), (None, "2y0")))

    out = quiet(xyzpy.combo_runner, f, {"c": [5, 6]}, cases=cases)
    assert same(out, ((("1x5", "1x6"), (None, None)),
                      ((None, None), ("2y5", "2y6"))))

    out = quiet(xyzpy.combo_runner, f, {"c": [5, 6]}, cases=cases, flat=True,
                shuffle=2)
    assert out == ("2y5", "2y6", "1x5", "1x6")

    # scalar numeric results -> nan filler; several outputs -> per output
    def g(a, b):
        return a * 10 + b, [a, b], "t"

    cases = [{"a": 1, "b": 2}, {"a": 3, "b": 4}]
    out = quiet(xyzpy.combo_runner, g, cases=cases, split=True)
    assert same(out[0], ((12, np.nan), (np.nan, 34)))
    assert out[1][0][0] == [1, 2] and out[1][1][1] == [3, 4]
    fill = out[1][0][1]
    assert fill is out[1][1][0] and type(fill) is tuple and len(fill) == 2
    assert all(x.shape == () and np.isnan(x) for x in fill)
    assert out[2] == (("t", None), (None, "t"))

    out = quiet(xyzpy.combo_runner, g, cases=cases)
    assert out[0][0] == (12, [1, 2], "t") and out[1][1] == (34, [3, 4], "t")
    filler = out[0][1]
    assert filler is out[1][0]
    assert type(filler) is tuple and len(filler) == 3
    assert np.isnan(filler[0]) and filler[1].shape == (2,)
    assert filler[2] is None

    # a repeated case is evaluated again, the later result is kept
    count = []

    def h(a):
        count.append(a)
        return len(count)

    out = quiet(xyzpy.combo_runner, h, cases=[{"a": 1}, {"a": 2}, {"a": 1}])
    assert out == (3, 2) and count == [1, 2, 1]

    # cases together with an argument that has no values
    try:
        quiet(xyzpy.combo_runner, f, {"c": []}, cases=[{"a": 1, "b": "x"}])
    except IndexError:
        pass
    else:
        raise AssertionError

    # info with cases
    info = {}
    quiet(cr.combo_runner_core, f, (("c", [5, 6]),), {},
          cases=[{"a": 2, "b": "y"}, {"a": 1, "b": "x"}], info=info)
    assert info == {"fn_args": ("a", "b", "c"),
                    "all_combo_values": ([1, 2], ["x", "y"], [5, 6])}


def check_to_dataset(tmp):
    # the same arrangement feeds the labelled output (and a file on disk)
    def f(a, b, k):
        return a * b + k, [a, b]

    ds = quiet(xyzpy.combo_runner_to_ds, f, {"a": [3, 1, 2], "b": [10, 20]},
               var_names=["p", "q"], var_dims={"q": ["i"]},
               constants={"k": 1}, shuffle=5)
    assert ds["a"].values.tolist() == [3, 1, 2]
    assert ds["p"].values.tolist() == [[31, 61], [11, 21], [21, 41]]
    assert ds["q"].sel(a=1, b=20).values.tolist() == [1, 20]
    assert ds.attrs == {"k": 1}

    fname = os.path.join(tmp, "out.h5")
    xyzpy.save_ds(ds, fname)
    back = xyzpy.load_ds(fname)
    assert back.identical(ds)
    back.close()

    ds = quiet(xyzpy.combo_runner_to_ds, f, {"b": [10, 20]},
               cases=[{"a": 3}, {"a": 1}], var_names=["p", "q"],
               var_dims={"q": ["i"]}, constants={"k": 1})
    assert ds["a"].values.tolist() == [1, 3]
    assert ds["p"].values.tolist() == [[11, 21], [31, 61]]

    df = quiet(xyzpy.combo_runner_to_df, lambda a, b: a - b,
               {"a": [3, 1], "b": [10, 20]}, var_names="d", shuffle=1)
    assert df.to_dict("list") == {"a": [3, 3, 1, 1], "b": [10, 20, 10, 20],
                                  "d": [-7, -17, -9, -19]}


def main():
    tmp = tempfile.mkdtemp(prefix="c01_t7_")
    try:
        check_unflatten()
        check_nan_like()
        n = check_grid_sweeps()
        check_core_corners()
        check_with_cases()
        check_to_dataset(tmp)
    finally:
        shutil.rmtree(tmp, ignore_errors=True)
    assert n > 300, n
    print(f"checked {n} sweep configurations")
    print("PASS")


if __name__ == "__main__":
    main()
