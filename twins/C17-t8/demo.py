"""Checks that the classic matplotlib plots draw exactly the data (C17).

Run as:  cd <worktree> && /venv/bin/python /path/to/demo.py
Prints PASS and exits 0 when every check holds.
"""
import os
import sys
import shutil
import tempfile
import warnings

sys.path.insert(0, os.getcwd())
_TMP = tempfile.mkdtemp(prefix="c17_t8_")
os.environ["MPLCONFIGDIR"] = _TMP

import matplotlib  # noqa: E402

matplotlib.use("Agg")
import matplotlib.pyplot as plt  # noqa: E402
import matplotlib.colors as mcolors  # noqa: E402
from matplotlib.axes import Axes  # noqa: E402
import numpy as np  # noqa: E402
import xarray as xr  # noqa: E402
import xyzpy as xyz  # noqa: E402

warnings.filterwarnings("ignore")
FAILURES = []


def check(cond, msg):
    if not cond:
        FAILURES.append(msg)


def same(a, b):
    a, b = np.asarray(a, dtype=float), np.asarray(b, dtype=float)
    return a.shape == b.shape and np.array_equal(a, b, equal_nan=True)


def close(a, b):
    a, b = np.asarray(a, dtype=float), np.asarray(b, dtype=float)
    return a.shape == b.shape and np.allclose(a, b, rtol=1e-12, atol=1e-12)


def finite_pairs(x, y):
    x, y = np.broadcast_arrays(np.asarray(x, float), np.asarray(y, float))
    x, y = x.flatten(), y.flatten()
    ok = np.isfinite(x) & np.isfinite(y)
    return x[ok], y[ok], ok


def data_lines(ax):
    """Lines carrying a series (spans / error bar caps have '_' labels)."""
    return [ln for ln in ax.lines if not ln.get_label().startswith("_")]


def make_ds():
    x = np.array([1.0, 2.0, 3.0, 4.0, 5.0, 6.0])
    z = np.array([10.0, 20.0, 40.0, 80.0])
    rng = np.random.RandomState(7)
    y = rng.rand(6, 4) + 0.5
    y[1, 0] = np.nan
    y[4, 0] = np.inf
    y[:, 2] = np.nan  # an all-NaN series
    y[0, 3] = -np.inf
    ds = xr.Dataset(
        coords={"x": x, "z": z},
        data_vars={
            "y": (("x", "z"), y),
            "w": (("x", "z"), rng.rand(6, 4) + 2.0),
            "ye": (("x", "z"), 0.1 + 0.1 * rng.rand(6, 4)),
            "xe": (("x", "z"), 0.2 + 0.1 * rng.rand(6, 4)),
            "cz": ("z", np.array([3.0, 1.0, 2.0, 5.0])),
            "cc": (("x", "z"), rng.rand(6, 4) * 10),
        },
    )
    return ds


# --------------------------------------------------------------------------- #


def test_lineplot_z():
    ds = make_ds()
    ref = ds.copy(deep=True)
    fig = xyz.lineplot(ds, "x", "y", "z", colors=True, colormap="viridis",
                       legend=True)
    ax = fig.axes[0]
    lines = data_lines(ax)
    check(len(lines) == 4, "lineplot z: %d series drawn, not 4" % len(lines))
    norm = mcolors.Normalize(10.0, 80.0)
    cmap = matplotlib.cm.viridis
    for i, (ln, z) in enumerate(zip(lines, ds.z.values)):
        ex, ey, _ = finite_pairs(ds.x.values, ds.y.values[:, i])
        check(same(ln.get_xdata(), ex) and same(ln.get_ydata(), ey),
              "lineplot z=%s: points are not the finite (x, y) pairs" % z)
        check(ln.get_label() == str(z), "lineplot z=%s: label %r" %
              (z, ln.get_label()))
        check(close(mcolors.to_rgba(ln.get_color()), cmap(norm(z))),
              "lineplot z=%s: colour is not cmap(norm(z))" % z)
    lg = ax.get_legend()
    check(lg is not None and [t.get_text() for t in lg.get_texts()] ==
          [str(z) for z in ds.z.values], "lineplot z: legend labels")
    check(ds.identical(ref), "lineplot z modified the dataset")


def test_lineplot_str_z_and_log():
    ds = make_ds().assign_coords(z=["a", "b", "c", "d"])
    ref = ds.copy(deep=True)
    fig = xyz.lineplot(ds, "x", "w", "z", colors=True, colormap="viridis",
                       xlog=True, ylog=True, markers=True)
    ax = fig.axes[0]
    lines = data_lines(ax)
    check(ax.get_xscale() == "log" and ax.get_yscale() == "log", "log axes")
    check([ln.get_label() for ln in lines] == ["a", "b", "c", "d"],
          "str z labels %r" % [ln.get_label() for ln in lines])
    for i, (ln, r) in enumerate(zip(lines, np.linspace(0, 1, 4))):
        check(same(ln.get_xdata(), ds.x.values) and
              same(ln.get_ydata(), ds.w.values[:, i]), "str z data %d" % i)
        check(close(mcolors.to_rgba(ln.get_color()),
                    matplotlib.cm.viridis(r)), "str z colour %d" % i)
    check(ds.identical(ref), "lineplot str z modified the dataset")


def test_lineplot_multi_var_and_single():
    ds = make_ds().isel(z=0)
    ref = ds.copy(deep=True)
    fig = xyz.lineplot(ds, "x", ["y", "w"])
    lines = data_lines(fig.axes[0])
    check([ln.get_label() for ln in lines] == ["y", "w"], "multi-var labels")
    for ln, v in zip(lines, ["y", "w"]):
        ex, ey, _ = finite_pairs(ds.x.values, ds[v].values)
        check(same(ln.get_xdata(), ex) and same(ln.get_ydata(), ey),
              "multi-var %s data" % v)
    try:
        xyz.lineplot(ds, "x", ["y", "w"], y_err="ye")
        check(False, "multi-var with y_err did not raise")
    except ValueError as e:
        check("Multi-var" in str(e), "multi-var y_err error text")
    plt.close("all")

    fig = xyz.lineplot(ds, "x", "y")
    ax = fig.axes[0]
    check(len(ax.lines) == 1, "single line count")
    ex, ey, _ = finite_pairs(ds.x.values, ds.y.values)
    check(same(ax.lines[0].get_xdata(), ex) and
          same(ax.lines[0].get_ydata(), ey), "single line data")
    check(ds.identical(ref), "multi-var / single modified the dataset")


def test_lineplot_errors_and_c():
    ds = make_ds()
    ref = ds.copy(deep=True)
    fig = xyz.lineplot(ds, "x", "y", "z", y_err="ye", x_err="xe", c="cz",
                       colormap="viridis")
    ax = fig.axes[0]
    conts = ax.containers
    check(len(conts) == 4, "errorbar: %d containers" % len(conts))
    norm = mcolors.Normalize(1.0, 5.0)
    for i, cont in enumerate(conts):
        ln = cont.lines[0]
        ex, ey, ok = finite_pairs(ds.x.values, ds.y.values[:, i])
        eye, exe = ds.ye.values[:, i][ok], ds.xe.values[:, i][ok]
        check(same(ln.get_xdata(), ex) and same(ln.get_ydata(), ey),
              "errorbar series %d data" % i)
        check(cont.get_label() == str(ds.z.values[i]), "errorbar label %d" % i)
        check(close(mcolors.to_rgba(ln.get_color()),
                    matplotlib.cm.viridis(norm(ds.cz.values[i]))),
              "errorbar series %d: colour not cmap(norm(c))" % i)
        xbars, ybars = cont.lines[2]
        xs = np.array([s for s in xbars.get_segments()]).reshape(-1, 2, 2)
        ys = np.array([s for s in ybars.get_segments()]).reshape(-1, 2, 2)
        if len(ex):
            check(close(xs[:, 0, 0], ex - exe) and close(xs[:, 1, 0], ex + exe),
                  "x error bars of series %d" % i)
            check(close(ys[:, 0, 1], ey - eye) and close(ys[:, 1, 1], ey + eye),
                  "y error bars of series %d" % i)
        else:
            check(xs.size == 0 and ys.size == 0, "all-NaN series has bars")
    check(len(fig.axes) == 2, "c= lineplot should carry a colorbar")
    check(ds.identical(ref), "errorbar lineplot modified the dataset")

    # no z: c, y_err from the whole dataset
    d1 = ds.isel(z=3)
    fig = xyz.lineplot(d1, "x", "y", y_err="ye", c="cz", colormap="viridis")
    cont = fig.axes[0].containers[0]
    ex, ey, ok = finite_pairs(d1.x.values, d1.y.values)
    check(same(cont.lines[0].get_xdata(), ex) and
          same(cont.lines[0].get_ydata(), ey), "no-z errorbar data")
    ys = np.array(cont.lines[2][0].get_segments()).reshape(-1, 2, 2)
    check(close(ys[:, 0, 1], ey - d1.ye.values[ok]), "no-z y error bars")


def test_non_dimension_z():
    # z is a non-index coordinate along dimension 'k' -> label based fallback
    ds = make_ds().drop_vars(["cz"]).rename({"z": "k"})
    ds = ds.assign_coords(zz=("k", [0.5, 1.5, 2.5, 3.5]))
    try:
        fig = xyz.lineplot(ds, "x", "w", "zz")
        out = [(ln.get_label(), tuple(ln.get_ydata()))
               for ln in data_lines(fig.axes[0])]
        err = None
    except Exception as e:  # same outcome expected with and without patch
        out, err = None, type(e).__name__
    check(err in (None, "KeyError", "ValueError", "IndexError"),
          "non-dimension z: unexpected %r" % err)
    if out is not None:
        check([lb for lb, _ in out] == ["0.5", "1.5", "2.5", "3.5"],
              "non-dimension z labels")
        for i, (_, yy) in enumerate(out):
            check(same(yy, ds.w.values[:, i]), "non-dimension z data %d" % i)


def test_jitter():
    ds = make_ds()
    for xlog, ylog in [(False, False), (True, False), (False, True)]:
        np.random.seed(123)
        fig = xyz.lineplot(ds, "x", "y", "z", xjitter=0.05, yjitter=0.02,
                           xlog=xlog, ylog=ylog)
        lines = data_lines(fig.axes[0])
        np.random.seed(123)
        for i, ln in enumerate(lines):
            ex, ey, _ = finite_pairs(ds.x.values, ds.y.values[:, i])
            if xlog:
                ex = ex * np.random.normal(loc=1, scale=0.05, size=ex.shape)
            else:
                ex = ex + np.random.normal(loc=0, scale=0.05, size=ex.shape)
            if ylog:
                ey = ey * np.random.normal(loc=1, scale=0.02, size=ey.shape)
            else:
                ey = ey + np.random.normal(loc=0, scale=0.02, size=ey.shape)
            check(same(ln.get_xdata(), ex) and same(ln.get_ydata(), ey),
                  "jitter xlog=%s ylog=%s series %d" % (xlog, ylog, i))
        plt.close("all")
    # only y jitter: x untouched
    np.random.seed(5)
    fig = xyz.lineplot(ds, "x", "w", "z", yjitter=0.3)
    np.random.seed(5)
    for i, ln in enumerate(data_lines(fig.axes[0])):
        check(same(ln.get_xdata(), ds.x.values), "y-jitter moved x")
        check(same(ln.get_ydata(), ds.w.values[:, i] + np.random.normal(
            loc=0, scale=0.3, size=6)), "y-jitter values %d" % i)


def test_scatter():
    ds = make_ds()
    ref = ds.copy(deep=True)
    fig = xyz.scatter(ds, "x", "y", "z", c="cc", colormap="viridis",
                      legend=True)
    ax = fig.axes[0]
    colls = ax.collections
    check(len(colls) == 4, "scatter: %d collections" % len(colls))
    for i, pc in enumerate(colls):
        ex, ey, ok = finite_pairs(ds.x.values, ds.y.values[:, i])
        off = np.asarray(pc.get_offsets())
        check(same(off[:, 0], ex) and same(off[:, 1], ey),
              "scatter series %d points" % i)
        check(same(pc.get_array(), ds.cc.values[:, i][ok]),
              "scatter series %d colour values" % i)
        check(pc.get_label() == str(ds.z.values[i]), "scatter label %d" % i)
        check(pc.norm.vmin == float(ds.cc.min()) and
              pc.norm.vmax == float(ds.cc.max()), "scatter norm %d" % i)
        check(pc.get_cmap().name == "viridis", "scatter cmap %d" % i)
        pc.update_scalarmappable()
        want = matplotlib.cm.viridis(mcolors.Normalize(
            float(ds.cc.min()), float(ds.cc.max()))(ds.cc.values[:, i][ok]))
        if len(ex):
            check(close(pc.get_facecolors(), want), "scatter colours %d" % i)
    check(ds.identical(ref), "scatter modified the dataset")
    plt.close("all")

    # scatter without z, 2-d x and y broadcast against each other, with NaNs
    rng = np.random.RandomState(3)
    X, Y = rng.randn(5, 4), rng.randn(5, 4)
    X[0, 0], Y[2, 3], Y[4, 1] = np.nan, np.inf, np.nan
    d2 = xr.Dataset(coords={"a": np.arange(5), "b": np.arange(4)},
                    data_vars={"X": (("a", "b"), X), "Y": (("a", "b"), Y)})
    fig = xyz.scatter(d2, "X", "Y")
    off = np.asarray(fig.axes[0].collections[0].get_offsets())
    ex, ey, _ = finite_pairs(X, Y)
    check(same(off[:, 0], ex) and same(off[:, 1], ey), "2-d scatter points")

    # auto_scatter
    fig = xyz.auto_scatter(np.arange(4.0), np.array([[1.0, 2, np.nan, 4],
                                                     [4.0, 3, 2, 1]]))
    offs = [np.asarray(c.get_offsets()) for c in fig.axes[0].collections]
    check(same(offs[0][:, 1], [1, 2, 4]) and same(offs[0][:, 0], [0, 1, 3])
          and same(offs[1][:, 1], [4, 3, 2, 1]), "auto_scatter points")


def test_histogram():
    ds = make_ds()
    ref = ds.copy(deep=True)
    seen = []
    orig = Axes.hist

    def spy(self, x, *a, **k):
        seen.append(([np.array(s) for s in x], k.get("label")))
        return orig(self, x, *a, **k)

    Axes.hist = spy
    try:
        fig = xyz.histogram(ds.drop_sel(z=40.0), "y", z="z")
        fig2 = xyz.histogram(ds, ("w", "cc"))
        fig3 = xyz.auto_histogram(np.array([[1.0, np.nan, 3.0], [2, 2, np.inf]]))
    finally:
        Axes.hist = orig
    xs, lbs = seen[0]
    check(list(lbs) == ["10.0", "20.0", "80.0"], "histogram labels %r" % (lbs,))
    for i, (got, j) in enumerate(zip(xs, [0, 1, 3])):
        v = ds.y.values[:, j]
        check(same(got, v[np.isfinite(v)]), "histogram z series %d values" % i)
    xs, lbs = seen[1]
    check(list(lbs) == ["w", "cc"], "multi-var histogram labels")
    check(same(xs[0], ds.w.values.flatten()) and
          same(xs[1], ds.cc.values.flatten()), "multi-var histogram values")
    check(same(seen[2][0][0], [1, 3, 2, 2]), "auto_histogram values")
    check(ds.identical(ref), "histogram modified the dataset")
    # what is drawn integrates to one per series
    for f in (fig, fig2, fig3):
        check(len(f.axes[0].patches) >= 1, "histogram drew nothing")


def expected_edges(c):
    c = np.asarray(c, dtype=float)
    d = np.mean(c[1:] - c[:-1])
    return np.append(c - d / 2, c[-1] + d / 2)


def test_heatmap():
    x = np.array([1.0, 2.0, 4.0, 5.0, 7.0])
    y = np.array([30.0, 20.0, 10.0])  # descending
    rng = np.random.RandomState(11)
    v = rng.rand(3, 5)
    v[1, 2] = np.nan
    v[0, 4] = np.nan
    ds = xr.Dataset(coords={"x": x, "y": y}, data_vars={"v": (("y", "x"), v)})
    ref = ds.copy(deep=True)
    for dsi, tag in [(ds, "yx"), (ds.transpose("x", "y"), "xy")]:
        fig = xyz.heatmap(dsi, "x", "y", "v", colormap="viridis")
        qm = fig.axes[0].collections[0]
        coords = np.asarray(qm.get_coordinates())
        check(close(coords[0, :, 0], expected_edges(x)), "heatmap x edges " + tag)
        check(close(coords[:, 0, 1], expected_edges(y)), "heatmap y edges " + tag)
        arr = np.ma.masked_invalid(np.ma.getdata(qm.get_array()).reshape(3, 5))
        arr_mask = np.ma.getmaskarray(qm.get_array()).reshape(3, 5)
        check(np.array_equal(arr_mask, ~np.isfinite(v)), "heatmap mask " + tag)
        check(same(np.where(arr_mask, 0.0, np.ma.getdata(arr)),
                   np.where(np.isfinite(v), v, 0.0)), "heatmap values " + tag)
        fin = v[np.isfinite(v)]
        check(qm.norm.vmin == fin.min() and qm.norm.vmax == fin.max(),
              "heatmap norm " + tag)
        check(qm.get_cmap().name == "viridis", "heatmap cmap " + tag)
        check(len(fig.axes) == 2, "heatmap colorbar " + tag)
        plt.close("all")
    check(ds.identical(ref), "heatmap modified the dataset")

    # bad method name with fine coordinates / bad coordinates: same errors
    try:
        xyz.heatmap(ds, "x", "y", "v", method="no_such_method")
        check(False, "bad heatmap method did not raise")
    except AttributeError:
        pass
    plt.close("all")
    fig = xyz.auto_heatmap(np.arange(6.0).reshape(2, 3))
    qm = fig.axes[0].collections[0]
    check(same(np.ma.getdata(qm.get_array()).reshape(3, 2),
               np.arange(6.0).reshape(2, 3).T), "auto_heatmap values")


def test_grids():
    ds = make_ds().drop_vars("cz")
    ds = xr.concat([ds.assign_coords(p=0.5), (ds * 2).assign_coords(p=1.5)],
                   dim="p")
    ds = xr.concat([ds.assign_coords(q="u"), (ds + 1).assign_coords(q="v"),
                    (ds + 2).assign_coords(q="w")], dim="q")
    ref = ds.copy(deep=True)
    fig = xyz.lineplot(ds, "x", "y", "z", row="p", col="q", colors=True,
                       colormap="viridis")
    axes = fig.axes[:6]
    norm = mcolors.Normalize(10.0, 80.0)
    for i, p in enumerate(ds.p.values):
        for j, q in enumerate(ds.q.values):
            ax = axes[i * 3 + j]
            sub = ds.sel(p=p, q=q)
            if i == 0:
                check(ax.get_title() == "q = %s" % q, "grid title (%d,%d): %r"
                      % (i, j, ax.get_title()))
            else:
                check(ax.get_title() == "", "grid title (%d,%d): %r"
                      % (i, j, ax.get_title()))
            if j == 2:
                check(ax.get_ylabel() == "p = %s" % p, "grid row label (%d,%d)"
                      ": %r" % (i, j, ax.get_ylabel()))
            lines = data_lines(ax)
            check(len(lines) == 4, "grid (%d,%d): %d lines" % (i, j, len(lines)))
            for k, ln in enumerate(lines):
                ex, ey, _ = finite_pairs(sub.x.values, sub.y.values[:, k])
                check(same(ln.get_xdata(), ex) and same(ln.get_ydata(), ey),
                      "grid (%d,%d) series %d data" % (i, j, k))
                check(close(mcolors.to_rgba(ln.get_color()),
                            matplotlib.cm.viridis(norm(sub.z.values[k]))),
                      "grid (%d,%d) series %d colour" % (i, j, k))
    check(ds.identical(ref), "grid lineplot modified the dataset")
    plt.close("all")

    # heat map grid: each panel is its slice, one norm
    hd = xr.Dataset(
        coords={"x": [0.0, 1.0, 2.0], "y": [5.0, 6.0], "p": [1, 2]},
        data_vars={"v": (("p", "y", "x"),
                         np.arange(12.0).reshape(2, 2, 3))})
    fig = xyz.heatmap(hd, "x", "y", "v", col="p")
    for j in range(2):
        ax = fig.axes[j]
        qm = ax.collections[0]
        check(ax.get_title() == "p = %d" % hd.p.values[j], "heatmap grid title")
        check(same(np.ma.getdata(qm.get_array()).reshape(2, 3),
                   hd.v.values[j]), "heatmap grid panel %d values" % j)
        check(qm.norm.vmin == 0.0 and qm.norm.vmax == 11.0,
              "heatmap grid panel %d norm" % j)
        check(close(np.asarray(qm.get_coordinates())[0, :, 0],
                    [-0.5, 0.5, 1.5, 2.5]), "heatmap grid panel %d edges" % j)

    # scatter grid with c
    sd = ds.isel(q=0)
    fig = xyz.scatter(sd, "x", "y", "z", c="cc", row="p", colormap="viridis")
    for i, p in enumerate(sd.p.values):
        for k, pc in enumerate(fig.axes[i].collections):
            s2 = sd.sel(p=p)
            ex, ey, ok = finite_pairs(s2.x.values, s2.y.values[:, k])
            off = np.asarray(pc.get_offsets())
            check(same(off[:, 0], ex) and same(off[:, 1], ey),
                  "scatter grid (%d) series %d points" % (i, k))
            check(same(pc.get_array(), s2.cc.values[:, k][ok]),
                  "scatter grid (%d) series %d c" % (i, k))
            check(pc.norm.vmin == float(sd.cc.min()) and
                  pc.norm.vmax == float(sd.cc.max()),
                  "scatter grid (%d) series %d norm" % (i, k))


def test_auto_lineplot():
    fig = xyz.auto_lineplot([1.0, 2.0, 3.0], [[4.0, np.nan, 6.0], [7, 8, 9]],
                            colors=True, colormap="viridis", vmin=0, vmax=2)
    lines = data_lines(fig.axes[0])
    check(same(lines[0].get_xdata(), [1, 3]) and
          same(lines[0].get_ydata(), [4, 6]) and
          same(lines[1].get_ydata(), [7, 8, 9]), "auto_lineplot data")
    check([ln.get_label() for ln in lines] == ["0", "1"], "auto_lineplot labels")
    check(close(mcolors.to_rgba(lines[1].get_color()),
                matplotlib.cm.viridis(0.5)), "auto_lineplot colour with vmin=0")


def main():
    tests = [test_lineplot_z, test_lineplot_str_z_and_log,
             test_lineplot_multi_var_and_single, test_lineplot_errors_and_c,
             test_non_dimension_z, test_jitter, test_scatter, test_histogram,
             test_heatmap, test_grids, test_auto_lineplot]
    try:
        for t in tests:
            try:
                t()
            except Exception as e:  # noqa: BLE001
                import traceback
                traceback.print_exc()
                FAILURES.append("%s raised %s: %s" % (t.__name__,
                                                      type(e).__name__, e))
            finally:
                plt.close("all")
    finally:
        shutil.rmtree(_TMP, ignore_errors=True)
    if FAILURES:
        print("FAIL")
        for f in FAILURES:
            print("  -", f)
        sys.exit(1)
    print("PASS")


if __name__ == "__main__":
    main()
