"""Demo for C15 (sampling only ever appends correct rows), aimed at the
Sampler's load / save / add bookkeeping.  Run from the worktree root:

    cd <worktree> && /venv/bin/python /path/to/demo.py
"""
import sys
import os

sys.path.insert(0, os.getcwd())

import shutil
import tempfile
import warnings

import numpy as np
import pandas as pd

import xyzpy
import xyzpy.gen.farming as farming

assert os.path.dirname(os.path.dirname(os.path.abspath(xyzpy.__file__))) \
    == os.path.abspath(os.getcwd()), xyzpy.__file__

warnings.simplefilter('ignore')

A_CHOICES = (1, 2, 3, 4)
B_CHOICES = (10, 20, 30)
A_OVERRIDE = (7, 8)


def fn(a, b, c=0):
    return a + 2 * b + c, a * b - c


def make_runner(constants=None):
    return xyzpy.Runner(fn, var_names=['s', 'p'], constants=constants)


def check_rows(df, a_allowed, b_allowed, c):
    """Argument values come from the allowed choices, outputs are the
    function evaluated at exactly those arguments."""
    for _, row in df.iterrows():
        a, b = row['a'], row['b']
        assert a in a_allowed, (a, a_allowed)
        if callable(b_allowed):
            assert b_allowed(b), b
        else:
            assert b in b_allowed, (b, b_allowed)
        s, p = fn(a, b, c)
        assert row['s'] == s and row['p'] == p, row
        if c:
            assert row['c'] == c


def same_table(x, y):
    assert list(x.columns) == list(y.columns), (x.columns, y.columns)
    assert len(x) == len(y), (len(x), len(y))
    assert list(x.index) == list(y.index)
    for col in x.columns:
        assert np.array_equal(np.asarray(x[col], dtype=float),
                              np.asarray(y[col], dtype=float),
                              equal_nan=True), col


def on_disk(fname, engine):
    return xyzpy.load_df(fname, engine=engine)


class Trace:
    """Record the order of loads, saves and renames the sampler performs."""

    def __init__(self):
        self.events = []

    def __enter__(self):
        self._load, self._save = farming.load_df, farming.save_df
        self._replace = os.replace

        def load_df(name, **kw):
            self.events.append(('load', os.path.basename(name),
                                kw.get('engine')))
            return self._load(name, **kw)

        def save_df(df, name, **kw):
            self.events.append(('save', os.path.basename(name),
                                kw.get('engine'), len(df)))
            return self._save(df, name, **kw)

        def replace(src, dst, **kw):
            self.events.append(('replace', os.path.basename(src),
                                os.path.basename(dst)))
            return self._replace(src, dst, **kw)

        farming.load_df, farming.save_df = load_df, save_df
        os.replace = replace
        return self

    def __exit__(self, *exc):
        farming.load_df, farming.save_df = self._load, self._save
        os.replace = self._replace


def run_sample_combos(tmp, engine, fname):
    """Several sample_combos runs, a fresh Sampler between runs."""
    path = os.path.join(tmp, fname)
    tmp_path = os.path.join(tmp, 'tmp-' + fname)
    plan = [
        # n, combos override, constants
        (3, None, None),
        (1, {'a': A_OVERRIDE}, None),
        (5, None, {'c': 5}),
        (2, {'b': lambda: 1000 + np.random.randint(5)}, None),
        (4, None, None),
    ]
    previous = None
    total = 0
    for i, (n, combos, constants) in enumerate(plan):
        s = xyzpy.Sampler(
            make_runner(constants), data_name=path,
            default_combos={'a': A_CHOICES, 'b': B_CHOICES},
            engine=(None if (engine == 'pickle' and i % 2) else engine),
        )
        assert s.engine == engine
        with Trace() as tr:
            last = s.sample_combos(n, combos=combos, verbosity=0)
        # exact order of the disk operations
        expect = []
        if previous is not None:
            expect.append(('load', fname, engine))
        expect.append(('save', 'tmp-' + fname, engine, total + n))
        expect.append(('replace', 'tmp-' + fname, fname))
        assert tr.events == expect, (tr.events, expect)
        assert not os.path.exists(tmp_path)

        assert last is s.last_df and len(last) == n
        a_allowed = A_OVERRIDE if (combos and 'a' in combos) else A_CHOICES
        b_allowed = ((lambda b: 1000 <= b < 1005)
                     if (combos and 'b' in combos) else B_CHOICES)
        c = (constants or {}).get('c', 0)
        check_rows(last, a_allowed, b_allowed, c)

        full = s.full_df
        total += n
        assert len(full) == total
        assert list(full.index) == list(range(total))
        # earlier rows unchanged
        if previous is not None:
            head = full.iloc[:len(previous)]
            for col in previous.columns:
                assert np.array_equal(
                    np.asarray(head[col], dtype=float),
                    np.asarray(previous[col], dtype=float),
                    equal_nan=True), col
        # new rows are the last run
        tail = full.iloc[-n:]
        for col in last.columns:
            assert np.array_equal(np.asarray(tail[col], dtype=float),
                                  np.asarray(last[col], dtype=float)), col
        # disk == memory
        same_table(on_disk(path, engine), full)
        # a new sampler continues from the file
        s2 = xyzpy.Sampler(make_runner(), data_name=path, engine=engine)
        assert s2._full_df is None
        same_table(s2.full_df, full)
        # last_df is distinct from full_df
        assert s.last_df is not s.full_df
        previous = full.copy(deep=True)
    assert sorted(os.listdir(tmp)) == [fname]
    os.remove(path)


def run_crop(tmp, engine, fname):
    """sow_samples / grow / reap with different batch sizes."""
    path = os.path.join(tmp, fname)
    total = 0
    previous = None
    for n, batchsize, constants in [(5, 2, None), (3, 1, {'c': 2}),
                                    (4, 4, None)]:
        s = xyzpy.Sampler(
            make_runner(), data_name=path,
            default_combos={'a': A_CHOICES, 'b': B_CHOICES}, engine=engine)
        crop = s.Crop(name='crop{}'.format(total), parent_dir=tmp,
                      batchsize=batchsize)
        crop.sow_samples(n, constants=constants, verbosity=0)
        assert crop.num_batches == -(-n // batchsize)
        crop.grow_missing(verbosity=0)
        with Trace() as tr:
            df = crop.reap()
        expect = []
        if previous is not None:
            expect.append(('load', fname, engine))
        expect.append(('save', 'tmp-' + fname, engine, total + n))
        expect.append(('replace', 'tmp-' + fname, fname))
        assert tr.events == expect, (tr.events, expect)
        assert df is s.last_df and len(df) == n
        check_rows(df, A_CHOICES, B_CHOICES, (constants or {}).get('c', 0))
        total += n
        full = s.full_df
        assert len(full) == total
        assert list(full.index) == list(range(total))
        if previous is not None:
            head = full.iloc[:len(previous)]
            for col in previous.columns:
                assert np.array_equal(
                    np.asarray(head[col], dtype=float),
                    np.asarray(previous[col], dtype=float),
                    equal_nan=True), col
        same_table(on_disk(path, engine), full)
        previous = full.copy(deep=True)
    os.remove(path)
    shutil.rmtree(os.path.join(tmp, '.xyz-crop0'), ignore_errors=True)


def run_bookkeeping(tmp):
    """Edge cases of add_df / load_full_df / save_full_df."""
    combos = {'a': A_CHOICES, 'b': B_CHOICES}

    # no data_name: nothing touches the disk, memory only
    s = xyzpy.Sampler(make_runner(), default_combos=combos)
    with Trace() as tr:
        d1 = s.sample_combos(2, verbosity=0)
        d2 = s.sample_combos(3, verbosity=0)
    assert tr.events == []
    assert len(s.full_df) == 5 and s.last_df is d2
    assert s.full_df is not d1
    check_rows(s.full_df, A_CHOICES, B_CHOICES, 0)
    assert list(s.full_df.index) == list(range(5))
    # the first frame was deep-copied: changing it leaves full_df alone
    before = s.full_df.copy(deep=True)
    d1.loc[0, 's'] = -1
    same_table(s.full_df, before)

    # sync=False with a data_name: no disk access
    path = os.path.join(tmp, 'book.pkl')
    s = xyzpy.Sampler(make_runner(), data_name=path, default_combos=combos)
    with Trace() as tr:
        s.add_df({'a': [1, 2], 'b': [10, 20], 's': [21, 42], 'p': [10, 40]},
                 sync=False)
        s.add_df(pd.DataFrame({'a': [3], 'b': [30], 's': [63], 'p': [90]}),
                 sync=False)
    assert tr.events == [] and not os.path.exists(path)
    assert len(s.full_df) == 3
    check_rows(s.full_df, A_CHOICES, B_CHOICES, 0)
    # columns are sorted by the concatenation, not by the first frame
    assert list(s.full_df.columns) == ['a', 'b', 'p', 's']

    # file does not exist: load does nothing, keeps what is in memory
    with Trace() as tr:
        s.load_full_df()
    assert tr.events == [] and len(s.full_df) == 3
    # then a synced add writes all rows; explicit save of current full_df
    with Trace() as tr:
        s.add_df({'a': [4], 'b': [10], 's': [24], 'p': [40]})
        s.save_full_df()
    assert tr.events == [
        ('save', 'tmp-book.pkl', 'pickle', 4),
        ('replace', 'tmp-book.pkl', 'book.pkl'),
        ('save', 'tmp-book.pkl', 'pickle', 4),
        ('replace', 'tmp-book.pkl', 'book.pkl'),
    ], tr.events
    same_table(on_disk(path, 'pickle'), s.full_df)

    # a failing save: memory and disk both keep the old table, retry works
    old = s.full_df
    new_row = {'a': [1], 'b': [10], 's': [21], 'p': [10]}
    try:
        s.add_df(new_row, engine='nonexistent_engine')
    except AttributeError:
        pass
    else:
        raise AssertionError("expected AttributeError")
    assert s.full_df is old and len(old) == 4
    same_table(on_disk(path, 'pickle'), old)
    s.add_df(new_row)
    assert len(s.full_df) == 5
    same_table(on_disk(path, 'pickle'), s.full_df)

    # explicit engine overrides the default one, for load and for save
    csv_path = os.path.join(tmp, 'over.csv')
    s = xyzpy.Sampler(make_runner(), data_name=csv_path,
                      default_combos=combos, engine='pickle')
    with Trace() as tr:
        s.sample_combos(2, engine='csv', verbosity=0)
        s.sample_combos(2, engine='csv', verbosity=0)
    assert tr.events == [
        ('save', 'tmp-over.csv', 'csv', 2),
        ('replace', 'tmp-over.csv', 'over.csv'),
        ('load', 'over.csv', 'csv'),
        ('save', 'tmp-over.csv', 'csv', 4),
        ('replace', 'tmp-over.csv', 'over.csv'),
    ], tr.events
    same_table(on_disk(csv_path, 'csv'), s.full_df)
    with open(csv_path) as f:
        assert f.readline().strip() == 'a,b,p,s'

    # compressed csv: the temporary file keeps the extension
    gz_path = os.path.join(tmp, 'data.csv.gz')
    for n in (2, 3):
        s = xyzpy.Sampler(make_runner(), data_name=gz_path,
                          default_combos=combos, engine='csv')
        s.sample_combos(n, verbosity=0)
    with open(gz_path, 'rb') as f:
        assert f.read(2) == b'\x1f\x8b'
    assert len(s.full_df) == 5
    same_table(on_disk(gz_path, 'csv'), s.full_df)

    # bare file name (no directory part): temporary is 'tmp-<name>' in cwd
    cwd = os.getcwd()
    os.chdir(tmp)
    try:
        s = xyzpy.Sampler(make_runner(), data_name='bare.pkl',
                          default_combos=combos)
        with Trace() as tr:
            s.sample_combos(2, verbosity=0)
        assert tr.events == [('save', 'tmp-bare.pkl', 'pickle', 2),
                             ('replace', 'tmp-bare.pkl', 'bare.pkl')]
        assert os.path.isfile('bare.pkl')
        assert not os.path.exists('tmp-bare.pkl')
    finally:
        os.chdir(cwd)

    # a file that exists but cannot be written to
    ro_path = os.path.join(tmp, 'ro.pkl')
    s = xyzpy.Sampler(make_runner(), data_name=ro_path,
                      default_combos=combos)
    s.sample_combos(2, verbosity=0)
    os.chmod(ro_path, 0o444)
    s3 = xyzpy.Sampler(make_runner(), data_name=ro_path,
                       default_combos=combos)
    if os.access(ro_path, os.W_OK):
        # e.g. running as root: simulate the denied access
        real_access = os.access
        os.access = lambda p, mode, **kw: (
            False if (p == ro_path and mode == os.W_OK)
            else real_access(p, mode, **kw))
    else:
        real_access = None
    try:
        for call in (s3.load_full_df, lambda: s3.full_df,
                     lambda: s3.sample_combos(1, verbosity=0)):
            try:
                call()
            except OSError as e:
                assert str(e) == ("The file '{}' exists but cannot be "
                                  "written to".format(ro_path)), str(e)
            else:
                raise AssertionError("expected OSError")
        assert s3._full_df is None
    finally:
        if real_access is not None:
            os.access = real_access
        os.chmod(ro_path, 0o644)
    assert len(on_disk(ro_path, 'pickle')) == 2

    # delete_df with a backup
    s.delete_df(backup=True)
    assert not os.path.exists(ro_path)
    assert any(f.startswith('ro.pkl.BAK-') for f in os.listdir(tmp))

    # a given full_df is used as the starting table
    start = pd.DataFrame({'a': [1], 'b': [10], 'p': [10], 's': [21]})
    s = xyzpy.Sampler(make_runner(), default_combos=combos, full_df=start)
    s.sample_combos(2, verbosity=0)
    assert len(s.full_df) == 3 and len(start) == 1
    check_rows(s.full_df, A_CHOICES, B_CHOICES, 0)


def main():
    np.random.seed(1234)
    tmp = tempfile.mkdtemp(prefix='xyz-c15-demo-')
    try:
        for engine, fname in [('pickle', 'samples.pkl'),
                              ('csv', 'samples.csv')]:
            run_sample_combos(tmp, engine, fname)
            run_crop(tmp, engine, fname)
        run_bookkeeping(tmp)
    finally:
        shutil.rmtree(tmp, ignore_errors=True)
    print('PASS')


if __name__ == '__main__':
    main()
