"""Demo / check for refactoring t3 (``parse_into_cases``).

Run as ``cd <worktree> && /venv/bin/python /path/to/demo.py``.

Checks property C13 -- missing-data discovery reports exactly the locations
that have no data -- with the emphasis on ``xyzpy.parse_into_cases``: the
combos x cases expansion (order, key precedence, defaults, one-shot
iterables), filtering against a Dataset / DataArray / nothing with both null
criteria, requested locations whose coordinates are absent, and the
find -> harvest -> find loop, all against an independent brute force numpy
oracle.
"""
import itertools
import os
import sys
import tempfile
import warnings

sys.path.insert(0, os.getcwd())

import numpy as np
import pandas as pd
import xarray as xr

import xyzpy
from xyzpy import find_missing_cases, is_case_missing, parse_into_cases

assert os.path.abspath(xyzpy.__file__).startswith(os.getcwd()), xyzpy.__file__
warnings.filterwarnings('ignore')


# ------------------------------ the oracle --------------------------------- #

def nodata_mask(values, method):
    """Independent elementwise 'no data' test on a raw numpy array."""
    values = np.asarray(values)
    if method == 'isnull':
        return np.asarray(pd.isnull(values))
    if method == 'isfinite':
        return ~np.isfinite(values.astype(float))
    raise AssertionError(method)


def oracle_is_missing(ds, setting, method):
    """Brute force: positional indexing only, no ``.sel``."""
    if isinstance(ds, xr.DataArray):
        variables = [ds]
    else:
        variables = list(ds.data_vars.values())
    for k, v in setting.items():
        if k in ds.dims and v not in list(ds[k].values):
            return True
    for da in variables:
        index = tuple(
            list(ds[d].values).index(setting[d]) if d in setting
            else slice(None)
            for d in da.dims
        )
        if not nodata_mask(da.values[index], method).all():
            return False
    return True


def oracle_find_missing(ds, ignore, method):
    fn_args = tuple(d for d in ds.dims if d not in ignore)
    grid = itertools.product(*(list(ds[d].values) for d in fn_args))
    return fn_args, tuple(
        case for case in grid
        if oracle_is_missing(ds, dict(zip(fn_args, case)), method)
    )


# --------------------------- random datasets ------------------------------- #

def random_dataset(rng, method, strings=False):
    ndim = rng.integers(1, 5)
    names = ['a', 'b', 'c', 'd'][:ndim]
    coords = {}
    for i, n in enumerate(names):
        size = rng.integers(1, 4)
        if strings and i % 2 == 0:
            coords[n] = ['p', 'q', 'r'][:size]
        else:
            coords[n] = [10 * (i + 1) + j for j in range(size)]
    coords['t'] = [0.1, 0.2, 0.3]
    ds = xr.Dataset(coords=coords)
    shape = tuple(len(coords[n]) for n in names)

    nvar = rng.integers(1, 4)
    for v in range(nvar):
        internal = bool(rng.integers(0, 2))
        kind = rng.integers(0, 3) if method == 'isnull' else 0
        dims = tuple(names) + (('t',) if internal else ())
        shp = shape + ((3,) if internal else ())
        if kind == 2:
            # object (string / None) variable
            data = np.empty(shp, dtype=object)
            data[...] = 'z'
            null = None
        else:
            data = rng.normal(size=shp)
            null = np.nan
        # whole-cell nulls (shared between variables with prob.)
        cellmask = rng.random(shape) < 0.5
        if internal:
            data[cellmask, :] = null
            # partial-cell nulls
            part = rng.random(shp) < 0.2
            data[part] = null
        else:
            data[cellmask] = null
        if method == 'isfinite' and kind == 0:
            # infinities count as no data for isfinite (but not isnull)
            infm = rng.random(shp) < 0.15
            data[infm] = np.inf
        ds['v{}'.format(v)] = (dims, data)

    # make some cells null in every variable so something is missing
    allmask = rng.random(shape) < 0.4
    for name in list(ds.data_vars):
        da = ds[name]
        arr = da.values.copy()
        arr[allmask] = None if arr.dtype == object else np.nan
        ds[name] = (da.dims, arr)
    return ds


def same_cases(got, want):
    assert len(got) == len(want), (got, want)
    for g, w in zip(got, want):
        assert tuple(g) == tuple(w), (got, want)


def check_dataset(ds, method):
    # 1. is_case_missing at every grid location, Dataset and DataArray forms
    fn_args = tuple(d for d in ds.dims if d != 't')
    nmiss = 0
    for case in itertools.product(*(list(ds[d].values) for d in fn_args)):
        setting = dict(zip(fn_args, case))
        want = oracle_is_missing(ds, setting, method)
        got = is_case_missing(ds, setting, method=method)
        assert isinstance(got, bool) and got == want, (setting, got, want)
        nmiss += want
        for name in ds.data_vars:
            want_v = oracle_is_missing(ds[name], setting, method)
            got_v = is_case_missing(ds[name], setting, method=method)
            assert isinstance(got_v, bool) and got_v == want_v
        # partial setting (fewer keys than dimensions)
        part = dict(list(setting.items())[:1])
        assert (is_case_missing(ds, part, method=method) ==
                oracle_is_missing(ds, part, method))
    # 2. absent coordinate -> missing
    first = fn_args[0]
    absent = {first: 'nope' if ds[first].dtype.kind in 'UO' else -999}
    assert is_case_missing(ds, absent, method=method) is True
    # 3. find_missing_cases == oracle (order, no duplicates)
    args, cases = find_missing_cases(ds, ignore_dims='t', method=method)
    o_args, o_cases = oracle_find_missing(ds, {'t'}, method)
    assert args == o_args and isinstance(cases, tuple)
    same_cases(cases, o_cases)
    assert len(set(cases)) == len(cases) == nmiss
    return nmiss


# --------------------------------- tests ----------------------------------- #

def expand(combos, cases):
    """Independent expansion: cases slowest, last combo fastest."""
    combos = {} if combos is None else {k: list(v) for k, v in combos.items()}
    cases = [{}] if cases is None else list(cases)
    out = []
    for case in cases:
        partial = [dict(case)]
        for k, vals in combos.items():
            nxt = []
            for p in partial:
                for v in vals:
                    q = dict(p)
                    q[k] = v
                    nxt.append(q)
            partial = nxt
        out.extend(partial)
    return out


def same_dicts(got, want):
    assert isinstance(got, list)
    assert len(got) == len(want), (got, want)
    for g, w in zip(got, want):
        assert type(g) is dict
        assert g == w and list(g) == list(w), (g, w)


def test_random():
    rng = np.random.default_rng(1303)
    total = 0
    for i in range(60):
        method = ('isnull', 'isfinite')[i % 2]
        ds = random_dataset(rng, method, strings=(i % 3 == 0))
        total += check_dataset(ds, method)

        # split the parameter dimensions between combos and cases, and add
        # an absent coordinate value to each
        fn_args = [d for d in ds.dims if d != 't']
        k = int(rng.integers(0, len(fn_args) + 1))
        case_args, combo_args = fn_args[:k], fn_args[k:]

        def vals(d):
            extra = 'nope' if ds[d].dtype.kind in 'UO' else -5
            v = [x.item() for x in ds[d].values] + [extra]
            return [v[j] for j in rng.permutation(len(v))]

        combos = {d: vals(d) for d in reversed(combo_args)}
        if case_args:
            cases = [dict(zip(case_args, c))
                     for c in itertools.product(*(vals(d) for d in case_args))]
        else:
            cases = None
        if not combo_args and i % 2:
            combos = None
        full = expand(combos, cases)
        same_dicts(parse_into_cases(combos, cases), full)
        same_dicts(parse_into_cases(combos=combos, cases=cases, ds=None,
                                    method=method), full)
        want = [c for c in full if oracle_is_missing(ds, c, method)]
        got = parse_into_cases(combos, cases, ds=ds, method=method)
        same_dicts(got, want)
        # absent coordinates are always reported
        for c in full:
            if any(v in ('nope', -5) for v in c.values()):
                assert c in got
        # locations with any data never are
        for c in got:
            assert oracle_is_missing(ds, c, method)
        name = list(ds.data_vars)[0]
        same_dicts(parse_into_cases(combos, cases, ds[name], method),
                   [c for c in full if oracle_is_missing(ds[name], c, method)])
    assert total > 50


def example():
    ds = xr.Dataset(coords={'a': [1, 2, 3], 'b': ['u', 'v']})
    ds['x'] = (('a', 'b'), np.array([[0.1, np.nan],
                                     [np.inf, 0.2],
                                     [np.nan, np.nan]]))
    return ds


def test_defaults_and_expansion():
    same_dicts(parse_into_cases(), [{}])
    same_dicts(parse_into_cases(None, None, None), [{}])
    same_dicts(parse_into_cases({}, [{}]), [{}])
    same_dicts(parse_into_cases({}, []), [])
    same_dicts(parse_into_cases({'a': [1, 2]}, []), [])
    same_dicts(parse_into_cases({'a': []}, [{'b': 1}]), [])
    same_dicts(parse_into_cases({'a': [1, 2], 'b': []}), [])
    same_dicts(parse_into_cases(cases=[{'a': 1}, {'a': 1}]),
               [{'a': 1}, {'a': 1}])
    same_dicts(parse_into_cases({'b': 'uv', 'a': (2, 1)}),
               [{'b': 'u', 'a': 2}, {'b': 'u', 'a': 1},
                {'b': 'v', 'a': 2}, {'b': 'v', 'a': 1}])
    # combos take precedence over case entries but keep the case key order
    same_dicts(parse_into_cases({'a': [7, 8]}, [{'a': 1, 'c': 2}]),
               [{'a': 7, 'c': 2}, {'a': 8, 'c': 2}])
    # fresh dicts are returned, inputs are untouched
    case = {'a': 1}
    cases = [case]
    combos = {'b': ['u']}
    out = parse_into_cases(combos, cases)
    assert out == [{'a': 1, 'b': 'u'}] and out[0] is not case
    assert case == {'a': 1} and cases == [case] and combos == {'b': ['u']}
    out = parse_into_cases(None, cases)
    assert out == [case] and out[0] is not case
    # one-shot iterables
    gen = ({'a': i} for i in (3, 1))
    same_dicts(parse_into_cases({'b': ('v', 'u')}, gen),
               [{'a': 3, 'b': 'v'}, {'a': 3, 'b': 'u'},
                {'a': 1, 'b': 'v'}, {'a': 1, 'b': 'u'}])
    same_dicts(parse_into_cases({'b': iter(['v', 'u'])}, [{'a': 3}]),
               [{'a': 3, 'b': 'v'}, {'a': 3, 'b': 'u'}])
    same_dicts(parse_into_cases({'b': iter(['v', 'u'])}, [{'a': 3}, {'a': 1}]),
               [{'a': 3, 'b': 'v'}, {'a': 3, 'b': 'u'}])
    # mapping-like combos
    import collections
    od = collections.OrderedDict([('b', ['u']), ('a', [1, 2])])
    same_dicts(parse_into_cases(od), [{'b': 'u', 'a': 1}, {'b': 'u', 'a': 2}])
    # bad case entries fail the same way
    for bad in ([('a', 1)], 5):
        try:
            parse_into_cases({'b': [1]}, [bad])
        except TypeError:
            pass
        else:
            raise AssertionError('expected TypeError')
    try:
        parse_into_cases({'b': [1]}, 5)
    except TypeError:
        pass
    else:
        raise AssertionError('expected TypeError')


def test_filtering():
    ds = example()
    combos = {'b': ['v', 'u', 'w']}
    cases = [{'a': 3}, {'a': 1}, {'a': 4}, {'a': 2}]
    full = expand(combos, cases)
    assert len(full) == 12
    same_dicts(parse_into_cases(combos, cases), full)
    same_dicts(parse_into_cases(combos, cases, ds=ds), [
        {'a': 3, 'b': 'v'}, {'a': 3, 'b': 'u'}, {'a': 3, 'b': 'w'},
        {'a': 1, 'b': 'v'}, {'a': 1, 'b': 'w'},
        {'a': 4, 'b': 'v'}, {'a': 4, 'b': 'u'}, {'a': 4, 'b': 'w'},
        {'a': 2, 'b': 'w'},
    ])
    same_dicts(parse_into_cases(combos, cases, ds, 'isfinite'), [
        {'a': 3, 'b': 'v'}, {'a': 3, 'b': 'u'}, {'a': 3, 'b': 'w'},
        {'a': 1, 'b': 'v'}, {'a': 1, 'b': 'w'},
        {'a': 4, 'b': 'v'}, {'a': 4, 'b': 'u'}, {'a': 4, 'b': 'w'},
        {'a': 2, 'b': 'u'}, {'a': 2, 'b': 'w'},
    ])
    for obj in (ds, ds['x']):
        for method in ('isnull', 'isfinite'):
            want = [c for c in full if oracle_is_missing(obj, c, method)]
            same_dicts(parse_into_cases(combos, cases, obj, method), want)
            same_dicts(parse_into_cases(combos=combos, cases=iter(cases),
                                        ds=obj, method=method), want)
    # duplicates in the request are kept (one report per requested entry)
    same_dicts(parse_into_cases({'b': ['v', 'v']}, [{'a': 1}], ds),
               [{'a': 1, 'b': 'v'}] * 2)
    # partial locations (fewer keys than dimensions)
    same_dicts(parse_into_cases({'a': [1, 2, 3]}, ds=ds), [{'a': 3}])
    same_dicts(parse_into_cases(cases=[{'b': 'u'}, {'b': 'v'}], ds=ds), [])
    # the empty location: missing iff the whole dataset is null
    same_dicts(parse_into_cases(ds=ds), [])
    same_dicts(parse_into_cases(ds=ds * np.nan), [{}])
    # a fully populated dataset
    same_dicts(parse_into_cases({'a': [1, 2, 3], 'b': ['u', 'v']},
                                ds=ds.fillna(1.0)), [])
    # the method is only looked at when there is something to check
    same_dicts(parse_into_cases(combos, cases, method='bogus'), full)
    try:
        parse_into_cases(combos, cases, ds, 'bogus')
    except ValueError as e:
        assert str(e) == 'Unknown method: bogus'
    else:
        raise AssertionError('expected ValueError')
    same_dicts(parse_into_cases({'b': ['w']}, [{'a': 9}], ds, 'bogus'),
               [{'a': 9, 'b': 'w'}])


def test_find_harvest_find():
    def fn(a, b):
        return a + len(b), np.array([a, len(b), a * len(b)], dtype=float)

    runner = xyzpy.Runner(fn, var_names=['s', 'p'],
                          var_dims={'p': ['t']},
                          var_coords={'t': [0.1, 0.2, 0.3]})
    combos = {'a': [1, 2, 3, 4], 'b': ['x', 'yy', 'zzz']}
    with tempfile.TemporaryDirectory() as tmp:
        cwd = os.getcwd()
        os.chdir(tmp)
        try:
            for method in ('isnull', 'isfinite'):
                h = xyzpy.Harvester(runner, data_name=None)
                first = parse_into_cases(cases=[{'a': 1, 'b': 'x'},
                                                {'a': 2, 'b': 'yy'},
                                                {'a': 3, 'b': 'x'}])
                h.harvest_cases(first, verbosity=0)
                ds = h.full_ds
                todo = parse_into_cases(combos, ds=ds, method=method)
                same_dicts(todo, [c for c in expand(combos, None)
                                  if c not in first])
                assert len(todo) == 9
                # agrees with the grid search where the grids overlap
                args, cases = find_missing_cases(ds, 't', method)
                assert ([dict(zip(args, c)) for c in cases] ==
                        [c for c in todo if c['a'] != 4 and c['b'] != 'zzz'])
                h.harvest_cases(todo, verbosity=0)
                same_dicts(parse_into_cases(combos, ds=h.full_ds,
                                            method=method), [])
                assert find_missing_cases(h.full_ds, 't', method)[1] == ()
                # still reports locations outside the grid
                same_dicts(parse_into_cases({'a': [4, 5]}, [{'b': 'x'}],
                                            h.full_ds, method),
                           [{'b': 'x', 'a': 5}])
        finally:
            os.chdir(cwd)


if __name__ == '__main__':
    test_defaults_and_expansion()
    test_filtering()
    test_random()
    test_find_harvest_find()
    print('PASS')
