"""Demo for C08 / refactoring 2 (module level ``xyzpy.gen.cropping.grow``):
growing a batch writes exactly that batch's result, and only if the whole
batch succeeded and this process is (mpi) rank 0.

Run as:  cd <worktree> && /venv/bin/python /path/to/demo.py
"""
import os
import sys

sys.path.insert(0, os.getcwd())
WORKTREE = os.getcwd()

import contextlib
import io
import pickle
import random
import tempfile

import xyzpy
from xyzpy.gen import cropping
from xyzpy.gen.cropping import Crop
from xyzpy.gen.farming import XYZError

assert os.path.abspath(xyzpy.__file__).startswith(WORKTREE), xyzpy.__file__

MPI_VARS = ("OMPI_COMM_WORLD_RANK", "PMI_RANK")
for v in MPI_VARS:
    os.environ.pop(v, None)


def fn(a, b=0):
    return 10 * a + b


def other_fn(a, b=0):
    return -a


def make_failing(bad):
    def failing(a, b=0):
        if a in bad:
            raise RuntimeError("boom on a={}".format(a))
        return 10 * a + b

    return failing


CHECKS = [0]


def check(cond, msg):
    CHECKS[0] += 1
    if not cond:
        raise AssertionError(msg)


def read_pickle(fname):
    with open(fname, "rb") as f:
        return pickle.load(f)


def rfile(crop, i):
    return os.path.join(
        crop.location, "results", "xyz-result-{}.jbdmp".format(i)
    )


def bfile(crop, i):
    return os.path.join(
        crop.location, "batches", "xyz-batch-{}.jbdmp".format(i)
    )


def snapshot(crop):
    d = os.path.join(crop.location, "results")
    return {f: open(os.path.join(d, f), "rb").read() for f in os.listdir(d)}


@contextlib.contextmanager
def env(**kws):
    old = {k: os.environ.get(k) for k in kws}
    os.environ.update(kws)
    try:
        yield
    finally:
        for k, v in old.items():
            if v is None:
                os.environ.pop(k, None)
            else:
                os.environ[k] = v


@contextlib.contextmanager
def cwd(path):
    old = os.getcwd()
    os.chdir(path)
    try:
        yield
    finally:
        os.chdir(old)


def call_grow(*args, **kwargs):
    """Call ``cropping.grow`` capturing what it prints to stdout."""
    out, err = io.StringIO(), io.StringIO()
    with contextlib.redirect_stdout(out), contextlib.redirect_stderr(err):
        cropping.grow(*args, **kwargs)
    return out.getvalue()


def new_crop(tmp, name, n, batchsize=2):
    crop = Crop(fn=fn, name=name, parent_dir=tmp, batchsize=batchsize)
    crop.sow_combos({"a": list(range(n * batchsize))}, verbosity=0)
    expected = {
        i: tuple(fn(**c) for c in read_pickle(bfile(crop, i)))
        for i in range(1, n + 1)
    }
    return crop, expected


def check_only_changed(crop, before, i, expected_i, tag):
    """After a successful grow of batch ``i``: result i holds the expected
    values, every other file in results/ is byte-for-byte untouched and no
    stray files are left over."""
    after = snapshot(crop)
    name = "xyz-result-{}.jbdmp".format(i)
    check(set(after) == set(before) | {name}, tag + ": files " + str(after))
    for f in before:
        if f != name:
            check(after[f] == before[f], tag + ": touched " + f)
    res = read_pickle(rfile(crop, i))
    check(type(res) is tuple, tag + ": result is a tuple")
    check(res == expected_i, tag + ": result content")


def test_basic(tmp):
    for n in range(1, 9):
        for verbosity in (0, 1, 2):
            name = "basic{}v{}".format(n, verbosity)
            crop, expected = new_crop(tmp, name, n)
            rng = random.Random(n * 10 + verbosity)
            order = list(range(1, n + 1))
            rng.shuffle(order)
            done = set()
            for i in order:
                before = snapshot(crop)
                out = call_grow(i, crop=crop, verbosity=verbosity)
                if verbosity == 0:
                    check(out == "", name + ": silent")
                else:
                    check(
                        out
                        == "xyzpy: loaded batch {} of {}.\n"
                        "xyzpy: success - batch {} completed.\n".format(
                            i, name, i
                        ),
                        name + ": printed " + repr(out),
                    )
                check_only_changed(crop, before, i, expected[i], name)
                done.add(i)
                check(
                    crop.missing_results()
                    == tuple(j for j in range(1, n + 1) if j not in done),
                    name + ": missing",
                )
                check(
                    crop.is_ready_to_reap() == (len(done) == n),
                    name + ": ready",
                )
            # grow again (overwrite) with explicit other function
            i = order[0]
            before = snapshot(crop)
            call_grow(i, crop=crop, fn=other_fn, verbosity=0)
            check_only_changed(
                crop,
                before,
                i,
                tuple(other_fn(**c) for c in read_pickle(bfile(crop, i))),
                name + " regrow",
            )
            check(crop.num_results == n, name + ": num_results after regrow")


def test_failing(tmp):
    for n in (1, 2, 5, 8):
        for batchsize in (1, 3):
            name = "fail{}b{}".format(n, batchsize)
            crop, expected = new_crop(tmp, name, n, batchsize)
            for i in range(1, n + 1):
                cases = read_pickle(bfile(crop, i))
                for pos in sorted({0, len(cases) - 1}):
                    bad = {cases[pos]["a"]}
                    for verbosity in (0, 2):
                        before = snapshot(crop)
                        try:
                            call_grow(
                                i,
                                crop=crop,
                                fn=make_failing(bad),
                                verbosity=verbosity,
                            )
                        except RuntimeError as e:
                            check("boom" in str(e), name + ": error")
                        else:
                            raise AssertionError(name + ": did not raise")
                        check(snapshot(crop) == before, name + ": no write")
                        check(
                            not os.path.exists(rfile(crop, i)),
                            name + ": failed batch not recorded",
                        )
                        check(i in crop.missing_results(), name + ": missing")
                        check(not crop.is_ready_to_reap(), name + ": ready")
                # failing on a setting of *another* batch does not matter
                before = snapshot(crop)
                call_grow(i, crop=crop, fn=make_failing({-1}), verbosity=0)
                check_only_changed(crop, before, i, expected[i], name)
            check(crop.is_ready_to_reap(), name + ": all grown")

            # a failing re-grow keeps the already finished result
            before = snapshot(crop)
            bad = {read_pickle(bfile(crop, 1))[0]["a"]}
            try:
                call_grow(1, crop=crop, fn=make_failing(bad), verbosity=0)
            except RuntimeError:
                pass
            else:
                raise AssertionError("did not raise")
            check(snapshot(crop) == before, name + ": finished result kept")
            check(crop.is_ready_to_reap(), name + ": still ready")


def test_mpi(tmp):
    crop, expected = new_crop(tmp, "mpi", 4)
    combos = [
        # (environment, check_mpi, should write, detected rank or None)
        ({"OMPI_COMM_WORLD_RANK": "0"}, True, True, 0),
        ({"OMPI_COMM_WORLD_RANK": "1"}, True, False, 1),
        ({"OMPI_COMM_WORLD_RANK": "3"}, False, True, None),
        ({"PMI_RANK": "0"}, True, True, 0),
        ({"PMI_RANK": "2"}, True, False, 2),
        ({"PMI_RANK": "2"}, False, True, None),
        # OMPI takes precedence over PMI
        ({"OMPI_COMM_WORLD_RANK": "0", "PMI_RANK": "5"}, True, True, 0),
        ({"OMPI_COMM_WORLD_RANK": "4", "PMI_RANK": "0"}, True, False, 4),
        ({"OMPI_COMM_WORLD_RANK": "4", "PMI_RANK": "0"}, False, True, None),
        ({}, True, True, None),
        ({}, False, True, None),
    ]
    for k, (e, check_mpi, writes, rank) in enumerate(combos):
        for verbosity in (0, 1):
            i = 1 + k % 4
            if os.path.exists(rfile(crop, i)):
                os.remove(rfile(crop, i))
            before = snapshot(crop)
            tag = "mpi {} {} v{}".format(e, check_mpi, verbosity)
            with env(**e):
                out = call_grow(
                    i, crop=crop, check_mpi=check_mpi, verbosity=verbosity
                )
            if writes:
                check_only_changed(crop, before, i, expected[i], tag)
                check(i not in crop.missing_results(), tag + ": finished")
            else:
                check(snapshot(crop) == before, tag + ": must not write")
                check(i in crop.missing_results(), tag + ": still missing")
            if verbosity == 0:
                check(out == "", tag + ": silent")
            else:
                lines = ["xyzpy: loaded batch {} of mpi.".format(i)]
                if rank is not None:
                    lines.append("xyzpy: detected mpi rank {}.".format(rank))
                lines.append("xyzpy: success - batch {} completed.".format(i))
                check(
                    out == "\n".join(lines) + "\n", tag + ": out " + repr(out)
                )
    for v in MPI_VARS:
        check(v not in os.environ, "environment restored")

    # an invalid rank is an error and nothing is written
    os.remove(rfile(crop, 1)) if os.path.exists(rfile(crop, 1)) else None
    before = snapshot(crop)
    with env(PMI_RANK="not-a-number"):
        try:
            call_grow(1, crop=crop, verbosity=0)
        except ValueError:
            pass
        else:
            raise AssertionError("invalid rank should raise ValueError")
    check(snapshot(crop) == before, "invalid rank: nothing written")


def test_no_crop_given(tmp):
    crop, expected = new_crop(tmp, "fromcwd", 3)
    # inside the crop folder: name and location are inferred, function is
    # loaded from disk
    with cwd(crop.location):
        before = snapshot(crop)
        out = call_grow(2, verbosity=1)
        check(
            out
            == "xyzpy: loaded batch 2 of fromcwd.\n"
            "xyzpy: success - batch 2 completed.\n",
            "fromcwd: printed " + repr(out),
        )
        check_only_changed(crop, before, 2, expected[2], "fromcwd")
        before = snapshot(crop)
        call_grow(3, fn=other_fn, verbosity=0)
        check_only_changed(
            crop,
            before,
            3,
            tuple(other_fn(**c) for c in read_pickle(bfile(crop, 3))),
            "fromcwd other_fn",
        )
    check(crop.missing_results() == (1,), "fromcwd: missing")

    # anywhere else: refuse, and write nothing
    elsewhere = os.path.join(tmp, "elsewhere")
    os.makedirs(elsewhere)
    for d in (elsewhere, os.path.join(crop.location, "results")):
        with cwd(d):
            before = snapshot(crop)
            try:
                call_grow(1, verbosity=0)
            except XYZError as e:
                check("`grow` should be run in a" in str(e), "message")
                check(".xyz-{crop_name}" in str(e), "message unformatted")
            else:
                raise AssertionError("grow outside a crop must raise")
            check(snapshot(crop) == before, "elsewhere: nothing written")
            check(os.listdir(elsewhere) == [], "elsewhere: stays empty")
    check(crop.missing_results() == (1,), "fromcwd: missing unchanged")


def test_errors(tmp):
    crop, expected = new_crop(tmp, "errors", 2)
    before = snapshot(crop)
    # batch that was never sown
    try:
        call_grow(3, crop=crop, verbosity=0)
    except FileNotFoundError:
        pass
    else:
        raise AssertionError("unsown batch must raise")
    # empty batch file
    with open(bfile(crop, 2), "wb") as f:
        pickle.dump([], f)
    try:
        call_grow(2, crop=crop, verbosity=0)
    except ValueError as e:
        check("xyz-batch-2.jbdmp" in str(e), "empty batch: message")
        check(crop.location in str(e), "empty batch: location")
    else:
        raise AssertionError("empty batch must raise")
    check(snapshot(crop) == before, "errors: nothing written")
    check(crop.missing_results() == (1, 2), "errors: all missing")


def test_parallel(tmp):
    crop, expected = new_crop(tmp, "parallel", 2, batchsize=3)
    try:
        before = snapshot(crop)
        call_grow(1, crop=crop, num_workers=2, verbosity=0)
    except Exception as e:  # e.g. process pools not available here
        print("parallel grow unavailable ({!r}), skipped".format(e))
        return
    check_only_changed(crop, before, 1, expected[1], "parallel")
    check(crop.missing_results() == (2,), "parallel: missing")


def test_via_crop_methods(tmp):
    # Crop.grow / Crop.grow_missing dispatch to the same function
    for n in (1, 4, 8):
        crop, expected = new_crop(tmp, "methods{}".format(n), n)
        crop.grow(n, verbosity=0)
        check(
            crop.missing_results() == tuple(range(1, n)), "methods: missing"
        )
        with env(PMI_RANK="1"):
            # not rank 0: nothing gets recorded as finished
            crop.grow_missing(verbosity=0)
        check(
            crop.missing_results() == tuple(range(1, n)), "methods: rank 1"
        )
        crop.grow_missing(verbosity=0)
        check(crop.missing_results() == (), "methods: none missing")
        check(crop.is_ready_to_reap(), "methods: ready")
        for i in range(1, n + 1):
            check(read_pickle(rfile(crop, i)) == expected[i], "methods: res")


def main():
    with tempfile.TemporaryDirectory() as tmp:
        test_basic(tmp)
        test_failing(tmp)
        test_mpi(tmp)
        test_no_crop_given(tmp)
        test_errors(tmp)
        test_via_crop_methods(tmp)
        test_parallel(tmp)
    check(os.getcwd() == WORKTREE, "cwd restored")
    print("checks:", CHECKS[0])
    print("PASS")


if __name__ == "__main__":
    main()
