"""Demo for C13 (t8): missing-data discovery reports exactly the locations
that have no data.  Run as ``cd <worktree> && python /path/to/demo.py``.
Exits 0 and prints PASS when every check holds.
"""
import os
import sys

sys.path.insert(0, os.getcwd())

import itertools
import random
import shutil
import tempfile
import warnings

import numpy as np
import xarray as xr

import xyzpy
from xyzpy import find_missing_cases, is_case_missing, parse_into_cases

assert os.path.dirname(os.path.dirname(os.path.abspath(xyzpy.__file__))) \
    == os.path.abspath(os.getcwd()), xyzpy.__file__

warnings.filterwarnings('ignore')

FAILURES = []


def check(cond, msg):
    if not cond:
        FAILURES.append(msg)


# --------------------------------------------------------------------------- #
# an independent reference, straight on the numpy arrays                      #
# --------------------------------------------------------------------------- #

def entry_is_null(v, method):
    if method == 'isnull':
        return v is None or (isinstance(v, float) and v != v)
    return not np.isfinite(v)


def ref_missing(arrays, pdims, coords, method):
    """arrays: {name: (dims, ndarray)}, every one has all pdims first."""
    out = []
    for idx in itertools.product(*(range(len(coords[d])) for d in pdims)):
        every = True
        for dims, arr in arrays.values():
            cell = np.asarray(arr[idx], dtype=object).ravel()
            if not all(entry_is_null(v, method) for v in cell):
                every = False
                break
        if every:
            out.append(tuple(coords[d][i] for d, i in zip(pdims, idx)))
    return out


def random_dataset(rng, method):
    npd = rng.randint(1, 4)
    pdims = ['a', 'b', 'c', 'd'][:npd]
    rng.shuffle(pdims)
    coords = {}
    for d in pdims:
        n = rng.randint(1, 3)
        if rng.random() < 0.4:
            coords[d] = rng.sample(['p', 'q', 'r', 'ss', 'tt'], n)
        else:
            coords[d] = rng.sample([1, 2, 3, 5, 8, 13], n)
    internal = {'t': [0.1, 0.2, 0.3], 'w': [7, 9]}
    shape = tuple(len(coords[d]) for d in pdims)

    nv = rng.randint(1, 3)
    arrays = {}
    # a common 'hole' pattern plus per-variable and partial patterns
    holes = np.array([rng.random() < 0.45 for _ in range(int(np.prod(shape)))])
    holes = holes.reshape(shape)
    for name in ['x', 'y', 'z'][:nv]:
        idims = [i for i in ('t', 'w') if rng.random() < 0.35]
        dims = tuple(pdims) + tuple(idims)
        full = shape + tuple(len(internal[i]) for i in idims)
        as_str = (method == 'isnull') and rng.random() < 0.25
        if as_str:
            arr = np.empty(full, dtype=object)
            for ix in np.ndindex(*full):
                arr[ix] = rng.choice(['u', 'v', 'w'])
            null = None
        else:
            arr = np.array([rng.random() for _ in range(int(np.prod(full)))])
            arr = arr.reshape(full)
            null = np.nan
        for idx in np.ndindex(*shape):
            r = rng.random()
            if holes[idx] and r < 0.8:
                # whole cell
                if method == 'isfinite':
                    arr[idx] = rng.choice([np.nan, np.inf, -np.inf])
                else:
                    arr[idx] = null
            elif r < 0.12:
                # this variable only
                arr[idx] = null
            elif idims and r < 0.3:
                # part of the cell
                sub = tuple(0 for _ in idims)
                arr[idx + sub] = null
        arrays[name] = (dims, arr)

    ds = xr.Dataset(coords={**{d: coords[d] for d in pdims},
                            **{i: internal[i] for i in internal
                               if any(i in dm for dm, _ in arrays.values())}})
    for name, (dims, arr) in arrays.items():
        ds[name] = (dims, arr)
    return ds, pdims, coords, arrays


def plain(x):
    return x.item() if hasattr(x, 'item') else x


def run_random_checks():
    rng = random.Random(13)
    for trial in range(120):
        method = 'isnull' if trial % 2 == 0 else 'isfinite'
        ds, pdims, coords, arrays = random_dataset(rng, method)
        ignore = [d for d in ds.dims if d not in pdims]
        # the various spellings of ``ignore_dims``
        if len(ignore) == 1 and trial % 3 == 0:
            ignore_arg = ignore[0]
        elif trial % 3 == 1:
            ignore_arg = tuple(ignore)
        else:
            ignore_arg = set(ignore) or None

        m_args, m_cases = find_missing_cases(
            ds, ignore_dims=ignore_arg, method=method)
        tag = 'trial {} ({})'.format(trial, method)
        check(isinstance(m_args, tuple) and isinstance(m_cases, tuple),
              tag + ': tuples expected')
        check(m_args == tuple(d for d in ds.dims if d in pdims),
              tag + ': fn_args {} != dims {}'.format(m_args, pdims))
        arrays_in_order = {
            k: (dm, np.moveaxis(
                arr, [dm.index(d) for d in m_args], range(len(m_args))))
            for k, (dm, arr) in arrays.items()}
        expect = ref_missing(arrays_in_order, list(m_args), coords, method)
        got = [tuple(plain(v) for v in c) for c in m_cases]
        check(got == expect,
              tag + ': find_missing_cases gave {} expected {}'.format(
                  got, expect))
        check(len(set(got)) == len(got), tag + ': duplicates')

        # every single location through ``is_case_missing``
        for loc in itertools.product(*(coords[d] for d in m_args)):
            setting = dict(zip(m_args, loc))
            r = is_case_missing(ds, setting, method=method)
            check(type(r) is bool, tag + ': bool expected')
            check(r == (loc in expect),
                  tag + ': is_case_missing({}) = {}'.format(setting, r))
        # single data array
        name = sorted(arrays)[0]
        exp_da = ref_missing({name: arrays_in_order[name]}, list(m_args),
                             coords, method)
        for loc in itertools.product(*(coords[d] for d in m_args)):
            setting = dict(zip(m_args, loc))
            check(is_case_missing(ds[name], setting, method=method)
                  == (loc in exp_da), tag + ': DataArray {}'.format(setting))

        # requested combos and cases, some of them not in the dataset
        first, rest = m_args[0], m_args[1:]
        absent = 'zz' if isinstance(coords[first][0], str) else 99
        cases = [{first: v} for v in list(coords[first]) + [absent]]
        combos = {d: list(reversed(coords[d])) for d in rest}
        new = parse_into_cases(combos=combos, cases=cases, ds=ds,
                               method=method)
        exp_new = []
        for case in cases:
            for vals in itertools.product(*combos.values()):
                full = {**case, **dict(zip(combos, vals))}
                loc = tuple(full[d] for d in m_args)
                if case[first] == absent or loc in expect:
                    exp_new.append(full)
        check(new == exp_new, tag + ': parse_into_cases {} != {}'.format(
            new, exp_new))
        check([list(c) for c in new] == [list(c) for c in exp_new],
              tag + ': key order of the cases')
        # without a dataset nothing is filtered
        allc = parse_into_cases(combos=combos, cases=cases)
        check(len(allc) == len(cases) * int(np.prod(
            [len(v) for v in combos.values()] or [1])), tag + ': unfiltered')


def run_corner_checks():
    ds = xr.Dataset(coords={'a': [1, 2], 'time': [0.1, 0.2]})
    ds['x'] = (('a', 'time'), np.array([[np.nan, np.nan], [1.0, np.nan]]))
    # a several-letter name given as a plain string
    check(find_missing_cases(ds, ignore_dims='time') == (('a',), ((1,),)),
          'ignore_dims as a str')
    check(find_missing_cases(ds, ignore_dims=['time']) == (('a',), ((1,),)),
          'ignore_dims as a list')
    a, c = find_missing_cases(ds)
    check(a == ('a', 'time') and [tuple(map(plain, x)) for x in c]
          == [(1, 0.1), (1, 0.2), (2, 0.2)], 'no ignore_dims')
    a, c = find_missing_cases(ds, show_progbar=False, method='isfinite')
    check(len(c) == 3, 'isfinite on nan')
    # absent coordinates -> missing, whatever the method
    check(is_case_missing(ds, {'a': 3}) is True, 'absent coordinate')
    check(is_case_missing(ds, {'nope': 3}, method='bogus') is True,
          'absent dimension wins over the bad method')
    try:
        is_case_missing(ds, {'a': 1}, method='bogus')
    except ValueError as e:
        check(str(e) == 'Unknown method: bogus', 'message of ValueError')
    else:
        check(False, 'bad method should raise ValueError')
    try:
        find_missing_cases(ds, method='bogus')
    except ValueError:
        pass
    else:
        check(False, 'bad method should raise ValueError (find)')
    # partial location
    check(is_case_missing(ds, {'a': 1}) is True, 'partial location a=1')
    check(is_case_missing(ds, {'a': 2}) is False, 'partial location a=2')
    # inf counts as data for isnull only
    ds2 = xr.Dataset(coords={'a': [1, 2]})
    ds2['x'] = ('a', np.array([np.inf, np.nan]))
    ds2['y'] = ('a', np.array([np.nan, np.nan]))
    check(find_missing_cases(ds2)[1] == ((2,),), 'inf is data for isnull')
    check(find_missing_cases(ds2, method='isfinite')[1] == ((1,), (2,)),
          'inf is no data for isfinite')
    check(parse_into_cases({'a': [2, 1, 3]}, ds=ds2, method='isfinite')
          == [{'a': 2}, {'a': 1}, {'a': 3}], 'parse_into_cases isfinite')
    check(parse_into_cases({'a': [2, 1, 3]}, ds=ds2)
          == [{'a': 2}, {'a': 3}], 'parse_into_cases isnull')
    check(parse_into_cases() == [{}], 'parse_into_cases()')
    check(parse_into_cases(cases=[{'a': 1}, {'a': 2}], ds=ds2)
          == [{'a': 2}], 'cases only')
    check(parse_into_cases(combos={'a': []}, cases=[{'b': 1}]) == [],
          'empty combo')
    try:
        parse_into_cases(combos={'a': [1]}, cases=[[('b', 1)]])
    except TypeError:
        pass
    else:
        check(False, 'non-mapping case should raise TypeError')


def run_harvest_loop(tmp):
    def fn(a, b):
        x = float(len(str(a)) + b)
        y = np.array([x, 2 * x, 3 * x])
        return x, y

    for engine_name, avals in [('nums', [1, 2, 3]), ('strs', ['p', 'qq'])]:
        r = xyzpy.Runner(fn, var_names=['x', 'y'], var_dims={'y': ['t']},
                         var_coords={'t': [10, 20, 30]})
        h = xyzpy.Harvester(r, data_name=os.path.join(tmp, engine_name + '.h5'))
        bvals = [40, 50, 60]
        done = [(avals[0], 40), (avals[1], 60), (avals[-1], 50)]
        h.harvest_cases(done, verbosity=0)
        grid = list(itertools.product(sorted(avals), bvals))
        for method in ('isnull', 'isfinite'):
            args, cases = find_missing_cases(h.full_ds, ignore_dims='t',
                                             method=method)
            check(set(args) == {'a', 'b'}, 'harvest: args')
            got = [tuple(plain(v) for v in dict(zip(args, c)).values())
                   for c in cases]
            got_ab = [(dict(zip(args, c))['a'], dict(zip(args, c))['b'])
                      for c in cases]
            got_ab = [(plain(a), plain(b)) for a, b in got_ab]
            exp = [g for g in grid if g not in set(done)]
            check(sorted(got_ab) == sorted(exp) and len(got) == len(exp),
                  'harvest {}: missing {} expected {}'.format(
                      engine_name, got_ab, exp))
        h.harvest_cases([dict(zip(args, map(plain, c))) for c in cases],
                        verbosity=0)
        for method in ('isnull', 'isfinite'):
            args, cases = find_missing_cases(h.full_ds, ignore_dims={'t'},
                                             method=method)
            check(cases == (), 'harvest {}: still missing {}'.format(
                engine_name, cases))
        ondisk = xyzpy.load_ds(os.path.join(tmp, engine_name + '.h5'))
        check(find_missing_cases(ondisk, ignore_dims='t')[1] == (),
              'harvest {}: file incomplete'.format(engine_name))
        check(parse_into_cases({'a': avals + avals[:0], 'b': bvals + [70]},
                               ds=ondisk)
              == [{'a': a, 'b': 70} for a in avals], 'new b value only')
        ondisk.close()
        h.full_ds.close()


def main():
    tmp = tempfile.mkdtemp(prefix='c13_t8_')
    try:
        run_random_checks()
        run_corner_checks()
        run_harvest_loop(tmp)
    finally:
        shutil.rmtree(tmp, ignore_errors=True)

    if FAILURES:
        print('FAIL: {} check(s) failed'.format(len(FAILURES)))
        for f in FAILURES[:10]:
            print('  -', f)
        sys.exit(1)
    print('PASS')
    sys.exit(0)


if __name__ == '__main__':
    main()
