"""Crash-injection demo for property C10 of xyzpy (sow / grow / reap crops).

Run as ``cd <worktree> && /venv/bin/python /path/to/demo.py``.

A "kill" is simulated in-process: every file-system operation boundary used
by the crop machinery (mkdir, open-for-write, each partial write prefix,
close, rename, unlink, rmdir, and the netcdf / pickle writers used by
Harvester / Sampler) is a numbered tick.  At the chosen tick a ``Killed``
BaseException is raised and, from then on, every mutating operation silently
does nothing (a dead process does not run clean-up handlers).  All in-memory
objects are then thrown away and new ones are built from disk.

Checked for raw, Runner, Harvester and Sampler crops, for every tick in sow,
Crop.grow / grow / grow_missing and reap(+sync), and for a second kill during
the recovery:

  * a later reap either raises or returns exactly the uninterrupted results;
  * data already merged into the harvester / sampler file is still loadable
    and is exactly the old or the new full data;
  * the documented recovery (re-sow if the sown files are incomplete,
    check_bad, grow_missing, reap) reaches exactly the uninterrupted results
    and the same final files;
  * the order of file-system side effects of an uninterrupted run equals a
    recorded golden trace.

Plus a set of deterministic option / edge-case checks on the same code paths.
"""
import os
import sys

sys.path.insert(0, os.getcwd())

import re  # noqa: E402
import glob  # noqa: E402
import shutil  # noqa: E402
import pickle  # noqa: E402
import hashlib  # noqa: E402
import tempfile  # noqa: E402
import warnings  # noqa: E402
import contextlib  # noqa: E402

warnings.simplefilter("ignore")
os.environ["TQDM_DISABLE"] = "1"  # no progress bars on stderr

import numpy as np  # noqa: E402
import pandas as pd  # noqa: E402
import xarray as xr  # noqa: E402

import xyzpy  # noqa: E402
from xyzpy.gen import cropping, farming  # noqa: E402
from xyzpy.gen.farming import XYZError  # noqa: E402

assert os.path.dirname(os.path.abspath(xyzpy.__file__)) == os.path.join(
    os.getcwd(), "xyzpy"
), "xyzpy must be imported from the current directory"

_real_open = open
_real = {
    name: getattr(os, name)
    for name in ("replace", "rename", "remove", "unlink", "rmdir", "mkdir")
}
_real_to_netcdf = xr.Dataset.to_netcdf
_real_to_pickle = pd.DataFrame.to_pickle
_real_rmtree = shutil.rmtree
_real_copytree = shutil.copytree

CHECKS = {"states": 0, "kills": 0, "second_kills": 0, "misc": 0}


class Killed(BaseException):
    """The simulated SIGKILL."""


def fn(a, b):
    return a * 10.0 + b


# --------------------------------------------------------------------------- #
#                             fault injection                                 #
# --------------------------------------------------------------------------- #

_TMP_RGX = re.compile(r"\.\d+-[0-9a-f]{32}\.tmp")


def normname(path, root=None):
    path = str(path)
    if root is not None:
        path = path.replace(root, "<T>")
    return _TMP_RGX.sub(".<PID>-<UUID>.tmp", path)


class Injector:
    def __init__(self, root, kill_at=None):
        self.root = root
        self.kill_at = kill_at
        self.n = 0
        self.dead = False
        self.trace = []

    def norm(self, path):
        return normname(path, self.root)

    def tick(self, *label, on_kill=None):
        assert not self.dead
        self.n += 1
        self.trace.append(label)
        if self.n == self.kill_at:
            self.dead = True
            if on_kill is not None:
                on_kill()
            raise Killed(label)


class _DeadFile:
    def write(self, data):
        return len(data)

    def flush(self):
        pass

    def close(self):
        pass

    def __enter__(self):
        return self

    def __exit__(self, *exc):
        return False


class _FileProxy:
    """Writable file which turns every write into three flushed prefixes."""

    def __init__(self, f, inj, name):
        self._f, self._inj, self._name = f, inj, name

    def write(self, data):
        data = bytes(data)
        if self._inj.dead:
            return len(data)
        n = len(data)
        pos = 0
        digest = hashlib.sha1(data).hexdigest()[:12]
        if "xyz-batch" not in self._name and "xyz-result" not in self._name:
            # contents depend on tmp dir / demo path, do not record
            digest = "-"
        for k, cut in enumerate((n // 3, (2 * n) // 3, n)):
            self._f.write(data[pos:cut])
            self._f.flush()
            pos = cut
            self._inj.tick("write", self._name, k, digest)
        return n

    def flush(self):
        if not self._inj.dead:
            self._f.flush()

    def close(self):
        if self._f.closed:
            return
        if self._inj.dead:
            self._f.close()
            return
        self._inj.tick("close<", self._name)
        self._f.close()
        self._inj.tick("close>", self._name)

    def __enter__(self):
        return self

    def __exit__(self, *exc):
        self.close()
        return False


@contextlib.contextmanager
def inject(inj):
    """Route the file-system operations of the crop machinery via ``inj``."""

    def fake_open(fname, mode="r", *args, **kwargs):
        if not any(c in mode for c in "wax+"):
            return _real_open(fname, mode, *args, **kwargs)
        if inj.dead:
            return _DeadFile()
        name = inj.norm(fname)
        inj.tick("open<", name)
        f = _real_open(fname, mode, *args, **kwargs)
        try:
            inj.tick("open>", name)
        except Killed:
            f.close()
            raise
        return _FileProxy(f, inj, name)

    def wrap_os(opname):
        real = _real[opname]

        def wrapper(*args, **kwargs):
            if inj.dead:
                return None
            names = tuple(inj.norm(a) for a in args if isinstance(a, str))
            inj.tick(opname + "<", *names)
            out = real(*args, **kwargs)
            inj.tick(opname + ">", *names)
            return out

        return wrapper

    def wrap_writer(opname, real):
        def wrapper(obj, path=None, *args, **kwargs):
            if inj.dead:
                return None
            assert isinstance(path, str)
            name = inj.norm(path)
            inj.tick(opname + "<", name)

            def truncated(data):
                def doit():
                    with _real_open(path, "wb") as f:
                        f.write(data)

                return doit

            # file created / truncated but nothing written yet
            inj.tick(opname + ":created", name, on_kill=truncated(b""))
            out = real(obj, path, *args, **kwargs)
            with _real_open(path, "rb") as f:
                data = f.read()
            n = len(data)
            inj.tick(opname + ":prefix1", name, on_kill=truncated(data[: n // 3]))
            inj.tick(
                opname + ":prefix2", name, on_kill=truncated(data[: 2 * n // 3])
            )
            inj.tick(opname + ">", name)
            return out

        return wrapper

    cropping.open = fake_open
    for opname in _real:
        setattr(os, opname, wrap_os(opname))
    xr.Dataset.to_netcdf = wrap_writer("to_netcdf", _real_to_netcdf)
    pd.DataFrame.to_pickle = wrap_writer("to_pickle", _real_to_pickle)
    try:
        yield inj
    finally:
        del cropping.open
        for opname, real in _real.items():
            setattr(os, opname, real)
        xr.Dataset.to_netcdf = _real_to_netcdf
        pd.DataFrame.to_pickle = _real_to_pickle


def run_killed(root, kill_at, action):
    """Run ``action()`` and kill it at tick ``kill_at``. Returns the injector,
    and whether the kill happened (False if action has fewer ticks)."""
    inj = Injector(root, kill_at)
    with inject(inj):
        try:
            action()
        except Killed:
            return inj, True
    return inj, False


def run_counted(root, action):
    inj = Injector(root, None)
    with inject(inj):
        out = action()
    return inj, out


# --------------------------------------------------------------------------- #
#                               disk helpers                                  #
# --------------------------------------------------------------------------- #


def snapshot(root, snap):
    if os.path.exists(snap):
        _real_rmtree(snap)
    _real_copytree(root, snap)


def restore(snap, root):
    if os.path.exists(root):
        _real_rmtree(root)
    _real_copytree(snap, root)


def listing(root):
    out = []
    for dp, dns, fns in os.walk(root):
        dns.sort()
        rel = os.path.relpath(dp, root)
        out.append(("D", rel))
        for f in sorted(fns):
            out.append(("F", os.path.join(rel, normname(f))))
    return sorted(out)


def state_hash(root):
    h = hashlib.sha1()
    for dp, dns, fns in os.walk(root):
        dns.sort()
        rel = os.path.relpath(dp, root)
        h.update(("D" + rel + "\n").encode())
        for f in sorted(fns, key=normname):
            with _real_open(os.path.join(dp, f), "rb") as fh:
                c = hashlib.sha1(fh.read()).hexdigest()
            h.update(("F" + normname(f) + c + "\n").encode())
    return h.hexdigest()


def loadable(fname):
    try:
        with _real_open(fname, "rb") as f:
            pickle.load(f)
        return True
    except Exception:
        return False


# --------------------------------------------------------------------------- #
#                                scenarios                                    #
# --------------------------------------------------------------------------- #

COMBOS = {"a": [1, 2, 3], "b": [1, 2]}


class Scenario:
    """One kind of crop. All methods build fresh objects from disk, like a new
    process would."""

    name = None
    crop_name = "c"
    crop_opts = dict(batchsize=2)
    persistent = False  # has an on-disk merged data file
    use_module_grow = False

    def setup(self, root):
        pass

    # -- to be specialised -------------------------------------------------- #

    def make_crop(self, root, with_fn=True):
        raise NotImplementedError

    def sow(self, root):
        self.make_crop(root).sow_combos(COMBOS, verbosity=0)

    def same(self, x, y):
        raise NotImplementedError

    def load_disk(self, root):
        return None

    # -- generic ------------------------------------------------------------ #

    def location(self, root):
        return os.path.join(root, ".xyz-" + self.crop_name)

    def grow_first(self, root):
        crop = self.make_crop(root)
        if self.use_module_grow:
            cropping.grow(1, crop=crop, verbosity=0)
        else:
            crop.grow(1, verbosity=0)

    def grow_rest(self, root):
        self.make_crop(root).grow_missing(verbosity=0)

    def reap(self, root):
        return self.make_crop(root).reap()

    def phases(self):
        return [
            ("sow", self.sow),
            ("grow-first", self.grow_first),
            ("grow-missing", self.grow_rest),
            ("reap", self.reap),
        ]

    def attempt_reap(self, root):
        """What a later, unaware, process would do: just try to reap."""
        try:
            crop = self.make_crop(root, with_fn=False)
            return True, crop.reap()
        except Exception as e:
            return False, e

    def sown_complete(self, root):
        loc = self.location(root)
        info = os.path.join(loc, cropping.INFO_NM)
        if not (loadable(info) and loadable(os.path.join(loc, cropping.FNCT_NM))):
            return False
        with _real_open(info, "rb") as f:
            num_batches = pickle.load(f)["num_batches"]
        return all(
            loadable(os.path.join(loc, "batches", cropping.BTCH_NM.format(i)))
            for i in range(1, num_batches + 1)
        ) and os.path.isdir(os.path.join(loc, "results"))

    def recover(self, root):
        """The documented recovery."""
        if not self.sown_complete(root):
            self.sow(root)
        crop = self.make_crop(root)
        crop.check_bad(delete_bad=True)
        crop = self.make_crop(root)
        crop.grow_missing(verbosity=0)
        return self.make_crop(root).reap()


class RawScenario(Scenario):
    name = "raw"

    def make_crop(self, root, with_fn=True):
        return xyzpy.Crop(
            fn=fn if with_fn else None,
            name=self.crop_name,
            parent_dir=root,
            **self.crop_opts,
        )

    def same(self, x, y):
        return x == y


class RawRemainderScenario(RawScenario):
    name = "raw-num_batches"
    crop_opts = dict(num_batches=4)
    use_module_grow = True


class RunnerScenario(Scenario):
    name = "runner"

    def make_runner(self):
        return xyzpy.Runner(fn, var_names="out", constants={}, attrs={"k": 1})

    def make_crop(self, root, with_fn=True):
        return self.make_runner().Crop(
            name=self.crop_name, parent_dir=root, **self.crop_opts
        )

    def same(self, x, y):
        return isinstance(x, xr.Dataset) and x.identical(y)


class HarvesterScenario(RunnerScenario):
    name = "harvester"
    persistent = True

    def data_file(self, root):
        return os.path.join(root, "data.h5")

    def make_harvester(self, root):
        return xyzpy.Harvester(
            self.make_runner(), data_name=self.data_file(root)
        )

    def setup(self, root):
        # data merged before the crop is even sown
        self.make_harvester(root).harvest_combos(
            {"a": [10], "b": [1, 2]}, verbosity=0
        )

    def make_crop(self, root, with_fn=True):
        return self.make_harvester(root).Crop(
            name=self.crop_name, parent_dir=root, **self.crop_opts
        )

    def load_disk(self, root):
        return xyzpy.load_ds(self.data_file(root))

    def same_disk(self, x, y):
        return x.identical(y)


class SamplerScenario(RunnerScenario):
    name = "sampler"
    persistent = True

    def data_file(self, root):
        return os.path.join(root, "samples.pkl")

    def make_sampler(self, root):
        return xyzpy.Sampler(
            self.make_runner(),
            data_name=self.data_file(root),
            default_combos=COMBOS,
        )

    def setup(self, root):
        np.random.seed(1)
        self.make_sampler(root).sample_combos(2, verbosity=0)

    def make_crop(self, root, with_fn=True):
        return self.make_sampler(root).Crop(
            name=self.crop_name, parent_dir=root, **self.crop_opts
        )

    def sow(self, root):
        np.random.seed(7)
        self.make_crop(root).sow_samples(5, verbosity=0)

    def same(self, x, y):
        return isinstance(x, pd.DataFrame) and x.equals(y)

    def load_disk(self, root):
        return pd.read_pickle(self.data_file(root))

    def same_disk(self, x, y):
        return x.equals(y)

    def recover(self, root):
        # appending is not idempotent: if the samples were already synced
        # only the left-overs of the crop have to be removed
        if len(self.load_disk(root)) == 7:
            if os.path.exists(self.location(root)):
                _real_rmtree(self.location(root))
            return None
        return super().recover(root)


# --------------------------------------------------------------------------- #
#                              the main check                                 #
# --------------------------------------------------------------------------- #


def golden_of(trace):
    """Order of the side effects, deletions (whose order within ``rmtree``
    depends on the directory listing order) sorted at the end."""
    keep, deletes = [], []
    for lab in trace:
        op = lab[0]
        if op in ("unlink<", "remove<", "rmdir<"):
            deletes.append(" ".join(map(str, lab)))
        elif op.endswith("<") or op == "write":
            keep.append(tuple(map(str, lab)))
    # abbreviate the [open tmp, write x 3, close, rename onto target] groups
    out = []
    i = 0
    while i < len(keep):
        grp = keep[i:i + 6]
        tmp = grp[0][1]
        dst = tmp.replace(".<PID>-<UUID>.tmp", "")
        if (
            [g[0] for g in grp]
            == ["open<", "write", "write", "write", "close<", "replace<"]
            and tmp != dst
            and all(g[1] == tmp for g in grp)
            and [g[2] for g in grp[1:4]] == ["0", "1", "2"]
            and grp[5][2] == dst
        ):
            out.append("atomic-pickle {} {}".format(dst, grp[1][3]))
            i += 6
        else:
            out.append(" ".join(keep[i]))
            i += 1
    return out + sorted(deletes)


def check_state(sc, root, snap, expected, disk_before, disk_after, final_ls,
                verified, second, idx):
    """``root`` holds a post-kill state. Check everything about it."""
    h = state_hash(root)
    if h in verified:
        return
    verified.add(h)
    CHECKS["states"] += 1
    snapshot(root, snap)

    # merged data survives, exactly old or new
    if sc.persistent:
        disk = sc.load_disk(root)
        assert sc.same_disk(disk, disk_before) or sc.same_disk(
            disk, disk_after
        ), (sc.name, "merged data damaged")

    # a later reap is honest
    ok, res = sc.attempt_reap(root)
    if ok:
        assert sc.same(res, expected), (sc.name, "wrong data reaped", res)
        if isinstance(sc, HarvesterScenario):
            assert sc.same_disk(sc.load_disk(root), disk_after)
    else:
        assert isinstance(res, Exception)
    restore(snap, root)

    # the documented recovery reaches the uninterrupted results
    inj, res = run_counted(root, lambda: sc.recover(root))
    if res is not None:
        assert sc.same(res, expected), (sc.name, "recovery differs", res)
    if sc.persistent:
        assert sc.same_disk(sc.load_disk(root), disk_after)
    assert listing(root) == final_ls, (sc.name, listing(root), final_ls)

    # second kill, during the recovery
    if second and inj.n:
        stride = max(1, inj.n // 10)
        snap2 = snap + "-2"
        for j in range(1 + (idx % stride), inj.n + 1, stride):
            restore(snap, root)
            _, killed = run_killed(root, j, lambda: sc.recover(root))
            if not killed:
                continue
            CHECKS["second_kills"] += 1
            check_state(sc, root, snap2, expected, disk_before, disk_after,
                        final_ls, verified, False, 0)
        if os.path.exists(snap2):
            _real_rmtree(snap2)


def run_scenario(sc, top, golden):
    root = os.path.join(top, "work")
    base = os.path.join(top, "base")
    snap = os.path.join(top, "snap")
    os.mkdir(root)
    sc.setup(root)

    # uninterrupted reference run, recording the ticks of each phase
    snapshot(root, base + "-0")
    nticks = []
    trace = []
    disk_before = sc.load_disk(root)
    expected = None
    for i, (pname, phase) in enumerate(sc.phases()):
        inj, expected = run_counted(root, lambda: phase(root))
        assert inj.n > 0, (sc.name, pname, "no file-system ticks seen")
        nticks.append(inj.n)
        trace.extend(("phase " + pname,) + lab for lab in inj.trace)
        snapshot(root, base + "-{}".format(i + 1))
    disk_after = sc.load_disk(root)
    final_ls = listing(root)
    assert not os.path.exists(sc.location(root))
    got = golden_of([lab[1:] for lab in trace])
    if golden is None:
        print("GOLDEN[{!r}] = [".format(sc.name))
        for line in got:
            print("    {!r},".format(line))
        print("]")
    else:
        assert got == golden, (
            sc.name,
            "side effects differ from the recorded order",
            [(a, b) for a, b in zip(got, golden) if a != b][:3],
            len(got),
            len(golden),
        )

    # reference sanity: results are what calling the function gives
    if sc.name.startswith("raw"):
        assert expected == tuple(
            tuple(fn(a, b) for b in COMBOS["b"]) for a in COMBOS["a"]
        )
    elif sc.name in ("runner", "harvester"):
        direct = sc.make_runner().run_combos(COMBOS, verbosity=0)
        assert expected.identical(direct)
        if sc.persistent:
            assert sorted(disk_after["a"].values) == [1, 2, 3, 10]
            assert disk_after.sel(a=10).identical(disk_before.sel(a=10))
    else:
        assert len(disk_before) == 2 and len(disk_after) == 7
        assert disk_after.iloc[:2].equals(disk_before)
        assert (disk_after["out"] == disk_after["a"] * 10.0
                + disk_after["b"]).all()

    # kill every phase at every tick
    verified = set()
    idx = 0
    for i, (pname, phase) in enumerate(sc.phases()):
        for k in range(1, nticks[i] + 1):
            restore(base + "-{}".format(i), root)
            inj, killed = run_killed(root, k, lambda: phase(root))
            assert killed, (sc.name, pname, k)
            CHECKS["kills"] += 1
            idx += 1
            # harvester / sampler data is only touched by the reap phase
            db = disk_before
            check_state(sc, root, snap, expected, db, disk_after, final_ls,
                        verified, True, idx)
    return nticks


# --------------------------------------------------------------------------- #
#                      deterministic option / edge checks                     #
# --------------------------------------------------------------------------- #


def raises(exc, f, *args, **kwargs):
    try:
        f(*args, **kwargs)
    except exc as e:
        CHECKS["misc"] += 1
        return e
    raise AssertionError("{} not raised".format(exc))


def misc_checks(top):
    root = os.path.join(top, "misc")
    os.mkdir(root)
    full = tuple(tuple(fn(a, b) for b in COMBOS["b"]) for a in COMBOS["a"])
    nan = float("nan")

    def fresh(name, **opts):
        return xyzpy.Crop(fn=fn, name=name, parent_dir=root, **opts)

    def rfile(crop, i):
        return os.path.join(
            crop.location, "results", cropping.RSLT_NM.format(i)
        )

    def bfile(crop, i):
        return os.path.join(
            crop.location, "batches", cropping.BTCH_NM.format(i)
        )

    # ---- write_to_disk: atomic, private temporary name, nothing left over
    d = os.path.join(root, "w")
    os.mkdir(d)
    target = os.path.join(d, "x.jbdmp")
    cropping.write_to_disk({"v": 1}, target)
    inj, _ = run_counted(root, lambda: cropping.write_to_disk([1, 2], target))
    ops = [lab[0] for lab in inj.trace]
    assert ops == ["open<", "open>", "write", "write", "write", "close<",
                   "close>", "replace<", "replace>"], ops
    tmpname = inj.trace[0][1]
    assert tmpname == "<T>/w/x.jbdmp.<PID>-<UUID>.tmp", tmpname
    assert inj.trace[-1][1:] == (tmpname, "<T>/w/x.jbdmp")
    assert os.listdir(d) == ["x.jbdmp"]
    assert cropping.read_from_disk(target) == [1, 2]
    for k in range(1, inj.n + 1):
        # a killed writer never damages the previous contents
        cropping.write_to_disk({"v": 1}, target)
        _, killed = run_killed(
            root, k, lambda: cropping.write_to_disk([1, 2], target)
        )
        assert killed
        want = [1, 2] if k == inj.n else {"v": 1}
        assert cropping.read_from_disk(target) == want
        for f in os.listdir(d):
            if f != "x.jbdmp":
                assert _TMP_RGX.search(f) and str(os.getpid()) in f
                os.remove(os.path.join(d, f))
    raises(FileNotFoundError, cropping.write_to_disk, 1,
           os.path.join(root, "nodir", "x"))
    cropping.write_to_disk({"v": 1}, target)
    raises(Exception, cropping.write_to_disk, lambda: 0, target)  # unpicklable
    assert cropping.read_from_disk(target) == {"v": 1}
    CHECKS["misc"] += 3

    # ---- not sown / not grown / partially grown
    crop = fresh("m1", batchsize=2)
    raises(XYZError, crop.reap)
    crop.sow_combos(COMBOS, verbosity=0)
    assert crop.num_sown_batches == 3 and crop.num_results == 0
    assert crop.missing_results() == (1, 2, 3)
    raises(XYZError, crop.reap)
    raises(XYZError, crop.reap, allow_incomplete=True)  # needs one result
    crop.grow((1, 3), verbosity=0)
    assert crop.missing_results() == (2,)
    assert not crop.is_ready_to_reap()
    raises(XYZError, crop.reap)
    part = crop.reap(allow_incomplete=True)
    assert part[0] == full[0] and part[2] == full[2]
    assert all(x != x for x in part[1])
    assert os.path.isdir(crop.location)  # not cleaned up by default
    # sown function / batches / results have exactly these names
    assert sorted(os.listdir(crop.location)) == [
        "batches", "results", "xyz-function.clpkl", "xyz-settings.jbdmp"]
    assert sorted(os.listdir(os.path.join(crop.location, "batches"))) == [
        "xyz-batch-1.jbdmp", "xyz-batch-2.jbdmp", "xyz-batch-3.jbdmp"]
    assert sorted(os.listdir(os.path.join(crop.location, "results"))) == [
        "xyz-result-1.jbdmp", "xyz-result-3.jbdmp"]
    assert cropping.read_from_disk(bfile(crop, 2)) == [
        {"a": 2, "b": 1}, {"a": 2, "b": 2}]
    assert cropping.read_from_disk(rfile(crop, 3)) == (31.0, 32.0)

    # ---- check_bad: unloadable, wrong length, fine
    with _real_open(rfile(crop, 1), "rb") as f:
        good = f.read()
    with _real_open(rfile(crop, 1), "wb") as f:
        f.write(good[: len(good) // 2])
    cropping.write_to_disk((1.0,), rfile(crop, 3))
    raises(Exception, xyzpy.Crop(name="m1", parent_dir=root).reap,
           allow_incomplete=True)
    with contextlib.redirect_stdout(open(os.devnull, "w")):
        bad = crop.check_bad(delete_bad=False)
        assert sorted(bad) == ["1", "3"]
        assert os.path.exists(rfile(crop, 1))
        bad = crop.check_bad()
    assert sorted(bad) == ["1", "3"]
    assert crop.missing_results() == (1, 2, 3)
    with contextlib.redirect_stdout(open(os.devnull, "w")):
        assert crop.check_bad() == ()
    # an empty result is refused by the reaper
    crop.grow_missing(verbosity=0)
    cropping.write_to_disk((), rfile(crop, 2))
    raises(ValueError, crop.reap)
    cropping.write_to_disk(None, rfile(crop, 2))
    raises(ValueError, crop.reap)
    os.remove(rfile(crop, 2))
    os.mkdir(rfile(crop, 2))
    raises(Exception, crop.reap)
    raises(ValueError, crop.reap, wait=True)  # 'is not a file'
    os.rmdir(rfile(crop, 2))
    crop.grow_missing(verbosity=0)
    # an empty batch cannot be grown, nor stand in for missing results
    cropping.write_to_disk([], bfile(crop, 2))
    raises(ValueError, crop.grow, 2, verbosity=0)
    os.remove(rfile(crop, 2))
    raises(ValueError, crop.reap, allow_incomplete=True)
    cropping.write_to_disk([{"a": 2, "b": 1}, {"a": 2, "b": 2}], bfile(crop, 2))
    assert crop.reap(allow_incomplete=True, clean_up=False)[1] != full[1]
    crop.grow_missing(verbosity=0)
    assert crop.reap(wait=True, clean_up=False) == full
    assert os.path.isdir(crop.location)
    assert crop.reap(allow_incomplete=True, clean_up=True) == full
    assert not os.path.exists(crop.location)
    CHECKS["misc"] += 20

    # ---- stale temporary files of killed writers are never picked up
    crop = fresh("m2", num_batches=4)
    crop.sow_combos(COMBOS, verbosity=0)
    for i in (1, 2):
        with _real_open(rfile(crop, i) + ".123-" + "ab" * 16 + ".tmp",
                        "wb") as f:
            f.write(b"\x80\x04junk")
        with _real_open(bfile(crop, i) + ".123-" + "cd" * 16 + ".tmp",
                        "wb") as f:
            f.write(b"")
    assert crop.num_sown_batches == 4 and crop.num_results == 0
    assert [len(cropping.read_from_disk(bfile(crop, i)))
            for i in (1, 2, 3, 4)] == [2, 2, 1, 1]
    raises(XYZError, crop.reap)
    crop.grow_missing(verbosity=0)
    with contextlib.redirect_stdout(open(os.devnull, "w")):
        assert crop.check_bad() == ()
    assert crop.reap() == full
    assert not os.path.exists(crop.location)
    CHECKS["misc"] += 4

    # ---- module level grow: inside / outside a crop folder, verbosity, mpi
    crop = fresh("m3", batchsize=3)
    crop.sow_combos(COMBOS, verbosity=0)
    here = os.getcwd()
    try:
        os.chdir(crop.location)
        with contextlib.redirect_stdout(open(os.devnull, "w")):
            cropping.grow(1, verbosity=1)
        assert cropping.read_from_disk(rfile(crop, 1)) == (11.0, 12.0, 21.0)
        os.remove(rfile(crop, 1))
        os.chdir(root)
        raises(XYZError, cropping.grow, 1)
    finally:
        os.chdir(here)
    raises(FileNotFoundError, cropping.grow, 7, crop=crop, verbosity=0)
    env = dict(os.environ)
    try:
        os.environ["OMPI_COMM_WORLD_RANK"] = "1"
        cropping.grow(1, crop=crop, verbosity=0)
        assert not os.path.exists(rfile(crop, 1))  # only rank 0 saves
        os.environ["PMI_RANK"] = "0"  # OMPI takes precedence
        cropping.grow(1, crop=crop, verbosity=0)
        assert not os.path.exists(rfile(crop, 1))
        cropping.grow(1, crop=crop, verbosity=0, check_mpi=False)
        assert os.path.exists(rfile(crop, 1))
        del os.environ["OMPI_COMM_WORLD_RANK"]
        os.environ["PMI_RANK"] = "2"
        cropping.grow(2, crop=crop, verbosity=0)
        assert not os.path.exists(rfile(crop, 2))
        os.environ["PMI_RANK"] = "0"
        with contextlib.redirect_stdout(open(os.devnull, "w")):
            cropping.grow(2, crop=crop, verbosity=1, fn=lambda a, b: -1.0)
        assert cropping.read_from_disk(rfile(crop, 2)) == (-1.0,) * 3
    finally:
        os.environ.clear()
        os.environ.update(env)

    def boom(a, b):
        raise RuntimeError("boom")

    os.remove(rfile(crop, 2))
    raises(RuntimeError, cropping.grow, 2, crop=crop, fn=boom, verbosity=0)
    assert not os.path.exists(rfile(crop, 2))  # a failed batch saves nothing
    assert os.listdir(os.path.join(crop.location, "results")) == [
        "xyz-result-1.jbdmp"]
    crop.grow_missing(verbosity=0)
    assert crop.reap() == full
    CHECKS["misc"] += 10

    # ---- re-sowing keeps results; reaping raises if results left over
    crop = fresh("m4", batchsize=2)
    crop.sow_combos(COMBOS, verbosity=0)
    crop.grow(2, verbosity=0)
    crop2 = fresh("m4")
    crop2.sow_combos(COMBOS, verbosity=0)
    assert crop2.missing_results() == (1, 3)
    crop2.grow_missing(verbosity=0)
    # more results in a file than cases -> refuses
    cropping.write_to_disk((1.0, 2.0, 3.0), rfile(crop2, 3))
    raises(XYZError, crop2.reap)
    assert os.path.isdir(crop2.location)  # failed reap does not clean up
    cropping.write_to_disk((1.0,), rfile(crop2, 3))
    raises(Exception, crop2.reap)
    assert os.path.isdir(crop2.location)
    with contextlib.redirect_stdout(open(os.devnull, "w")):
        assert crop2.check_bad() == ("3",)
    crop2.grow_missing(verbosity=0)
    assert crop2.reap() == full
    CHECKS["misc"] += 5

    # ---- harvester: sync / overwrite / clean_up / allow_incomplete options
    def harvester(data_name="h.h5"):
        r = xyzpy.Runner(fn, var_names="out")
        dn = None if data_name is None else os.path.join(root, data_name)
        return xyzpy.Harvester(r, data_name=dn)

    h = harvester()
    raises(ValueError, fresh("m5").reap_harvest, None)
    raises(ValueError, fresh("m5").reap_samples, None)
    crop = h.Crop(name="m5", parent_dir=root, batchsize=2)
    crop.sow_combos(COMBOS, verbosity=0)
    crop.grow((1, 2), verbosity=0)
    raises(XYZError, crop.reap)
    assert not os.path.exists(os.path.join(root, "h.h5"))
    ds = crop.reap(allow_incomplete=True)  # synced, crop kept
    assert os.path.isdir(crop.location)
    assert bool(ds["out"].sel(a=3).isnull().all())
    on_disk = xyzpy.load_ds(os.path.join(root, "h.h5"))
    assert on_disk.identical(ds) and h.full_ds.identical(ds)
    assert os.listdir(root).count("h.h5.tmp") == 0
    crop.grow_missing(verbosity=0)
    ds_nosync = crop.reap(sync=False, clean_up=False)
    assert xyzpy.load_ds(os.path.join(root, "h.h5")).identical(on_disk)
    assert os.path.isdir(crop.location)
    direct = xyzpy.Runner(fn, var_names="out").run_combos(COMBOS, verbosity=0)
    assert ds_nosync.identical(direct)
    # conflicting data on disk: refuse, keep the crop and the old file
    other = harvester()
    other.add_ds(direct.copy(deep=True) + 1.0, overwrite=True)
    before = xyzpy.load_ds(os.path.join(root, "h.h5"))
    raises(xr.MergeError, h.Crop(name="m5", parent_dir=root).reap)
    assert os.path.isdir(crop.location)
    assert xyzpy.load_ds(os.path.join(root, "h.h5")).identical(before)
    h.Crop(name="m5", parent_dir=root).reap(overwrite=False, clean_up=False)
    assert xyzpy.load_ds(os.path.join(root, "h.h5")).identical(before)
    h.Crop(name="m5", parent_dir=root).reap(overwrite=True)
    assert not os.path.exists(crop.location)
    after = xyzpy.load_ds(os.path.join(root, "h.h5"))
    assert after["out"].equals(direct["out"])
    assert sorted(f for f in os.listdir(root) if f.startswith("h.")) == [
        "h.h5"]
    # no data_name: memory only; save refuses
    hm = harvester(None)
    crop = hm.Crop(name="m6", parent_dir=root, batchsize=6)
    crop.sow_combos(COMBOS, verbosity=0)
    crop.grow_missing(verbosity=0)
    assert crop.reap().identical(direct)
    assert hm.full_ds.identical(direct) and hm.full_ds is not hm.last_ds
    raises(XYZError, hm.save_full_ds)
    hm.add_ds(direct["out"], sync=False)  # DataArray accepted, idempotent
    assert hm.full_ds.identical(direct)
    # save_full_ds: with and without a new dataset, atomic via '.tmp'
    h2 = harvester("h2.h5")
    h2.add_ds(direct)
    inj, _ = run_counted(root, lambda: h2.save_full_ds())
    assert [lab[0] for lab in inj.trace if lab[0].endswith("<")] == [
        "to_netcdf<", "replace<"]
    assert inj.trace[0][1] == "<T>/h2.h5.tmp"
    assert inj.trace[-1][1:] == ("<T>/h2.h5.tmp", "<T>/h2.h5")
    for k in range(1, inj.n):
        _, killed = run_killed(
            root, k, lambda: h2.save_full_ds(direct.copy(deep=True) * 2.0))
        assert killed
        assert xyzpy.load_ds(os.path.join(root, "h2.h5")).identical(direct)
    h2 = harvester("h2.h5")
    h2.save_full_ds(direct.copy(deep=True) * 2.0)
    assert xyzpy.load_ds(os.path.join(root, "h2.h5"))["out"].equals(
        direct["out"] * 2.0)
    assert h2.full_ds["out"].equals(direct["out"] * 2.0)
    assert not os.path.exists(os.path.join(root, "h2.h5.tmp"))
    # read only file: refuses (only meaningful when not running as root)
    if os.geteuid() != 0:
        os.chmod(os.path.join(root, "h2.h5"), 0o444)
        raises(OSError, harvester("h2.h5").add_ds, direct)
        os.chmod(os.path.join(root, "h2.h5"), 0o644)
    CHECKS["misc"] += 20

    # ---- sampler options
    def sampler(data_name="s.pkl"):
        r = xyzpy.Runner(fn, var_names="out")
        dn = None if data_name is None else os.path.join(root, data_name)
        return xyzpy.Sampler(r, data_name=dn, default_combos=COMBOS)

    s = sampler()
    crop = s.Crop(name="m7", parent_dir=root, batchsize=2)
    np.random.seed(3)
    crop.sow_samples(5, verbosity=0)
    crop.grow((1, 3), verbosity=0)
    raises(XYZError, crop.reap)
    df = crop.reap(sync=False, allow_incomplete=True)
    assert len(df) == 5 and int(df["out"].isnull().sum()) == 2
    assert not os.path.exists(os.path.join(root, "s.pkl"))
    assert s.last_df is None
    crop.grow_missing(verbosity=0)
    df = crop.reap(clean_up=False)
    assert os.path.isdir(crop.location)
    assert pd.read_pickle(os.path.join(root, "s.pkl")).equals(df)
    assert s.last_df is df and s.full_df.equals(df)
    inj, _ = run_counted(root, lambda: s.save_full_df())
    assert [lab[0] for lab in inj.trace if lab[0].endswith("<")] == [
        "to_pickle<", "replace<"]
    assert inj.trace[-1][1:] == ("<T>/s.pkl.tmp", "<T>/s.pkl")
    for k in range(1, inj.n):
        _, killed = run_killed(root, k, lambda: sampler().add_df(df))
        assert killed
        assert pd.read_pickle(os.path.join(root, "s.pkl")).equals(df)
    df2 = s.Crop(name="m7", parent_dir=root).reap()
    assert not os.path.exists(crop.location)
    assert df2.equals(df)
    assert len(pd.read_pickle(os.path.join(root, "s.pkl"))) == 10
    assert sorted(f for f in os.listdir(root) if f.startswith("s.")) == [
        "s.pkl"]
    sm = sampler(None)
    sm.add_df({"a": [1], "b": [2], "out": [12.0]})
    sm.add_df({"a": [1], "b": [1], "out": [11.0]}, sync=False)
    assert len(sm.full_df) == 2
    raises(TypeError, sm.save_full_df)  # no data_name
    CHECKS["misc"] += 12


# --------------------------------------------------------------------------- #

# order of the file-system side effects of an uninterrupted sow / grow / reap
# ("atomic-pickle X d" = open a private 'X.<pid>-<uuid>.tmp', write, close,
# rename onto X; d = digest of the pickled bytes for batch / result files)
GOLDEN = {}
GOLDEN['raw'] = [
    'mkdir< <T>/.xyz-c',
    'mkdir< <T>/.xyz-c/batches',
    'mkdir< <T>/.xyz-c/results',
    'atomic-pickle <T>/.xyz-c/xyz-function.clpkl -',
    'atomic-pickle <T>/.xyz-c/xyz-settings.jbdmp -',
    'atomic-pickle <T>/.xyz-c/batches/xyz-batch-1.jbdmp c3e6418365bb',
    'atomic-pickle <T>/.xyz-c/batches/xyz-batch-2.jbdmp 0cb27433e46f',
    'atomic-pickle <T>/.xyz-c/batches/xyz-batch-3.jbdmp 584147dbb574',
    'atomic-pickle <T>/.xyz-c/results/xyz-result-1.jbdmp 5ca7dbc8086b',
    'atomic-pickle <T>/.xyz-c/results/xyz-result-2.jbdmp 98bec1a18b67',
    'atomic-pickle <T>/.xyz-c/results/xyz-result-3.jbdmp 92235c6c6291',
    'rmdir< <T>/.xyz-c',
    'rmdir< batches',
    'rmdir< results',
    'unlink< xyz-batch-1.jbdmp',
    'unlink< xyz-batch-2.jbdmp',
    'unlink< xyz-batch-3.jbdmp',
    'unlink< xyz-function.clpkl',
    'unlink< xyz-result-1.jbdmp',
    'unlink< xyz-result-2.jbdmp',
    'unlink< xyz-result-3.jbdmp',
    'unlink< xyz-settings.jbdmp',
]
GOLDEN['raw-num_batches'] = [
    'mkdir< <T>/.xyz-c',
    'mkdir< <T>/.xyz-c/batches',
    'mkdir< <T>/.xyz-c/results',
    'atomic-pickle <T>/.xyz-c/xyz-function.clpkl -',
    'atomic-pickle <T>/.xyz-c/xyz-settings.jbdmp -',
    'atomic-pickle <T>/.xyz-c/batches/xyz-batch-1.jbdmp c3e6418365bb',
    'atomic-pickle <T>/.xyz-c/batches/xyz-batch-2.jbdmp 0cb27433e46f',
    'atomic-pickle <T>/.xyz-c/batches/xyz-batch-3.jbdmp aafa35981cf1',
    'atomic-pickle <T>/.xyz-c/batches/xyz-batch-4.jbdmp cceb2c00ab99',
    'atomic-pickle <T>/.xyz-c/results/xyz-result-1.jbdmp 5ca7dbc8086b',
    'atomic-pickle <T>/.xyz-c/results/xyz-result-2.jbdmp 98bec1a18b67',
    'atomic-pickle <T>/.xyz-c/results/xyz-result-3.jbdmp 49d161649bd6',
    'atomic-pickle <T>/.xyz-c/results/xyz-result-4.jbdmp e9c19f223a9f',
    'rmdir< <T>/.xyz-c',
    'rmdir< batches',
    'rmdir< results',
    'unlink< xyz-batch-1.jbdmp',
    'unlink< xyz-batch-2.jbdmp',
    'unlink< xyz-batch-3.jbdmp',
    'unlink< xyz-batch-4.jbdmp',
    'unlink< xyz-function.clpkl',
    'unlink< xyz-result-1.jbdmp',
    'unlink< xyz-result-2.jbdmp',
    'unlink< xyz-result-3.jbdmp',
    'unlink< xyz-result-4.jbdmp',
    'unlink< xyz-settings.jbdmp',
]
GOLDEN['runner'] = [
    'mkdir< <T>/.xyz-c',
    'mkdir< <T>/.xyz-c/batches',
    'mkdir< <T>/.xyz-c/results',
    'atomic-pickle <T>/.xyz-c/xyz-function.clpkl -',
    'atomic-pickle <T>/.xyz-c/xyz-settings.jbdmp -',
    'atomic-pickle <T>/.xyz-c/batches/xyz-batch-1.jbdmp c3e6418365bb',
    'atomic-pickle <T>/.xyz-c/batches/xyz-batch-2.jbdmp 0cb27433e46f',
    'atomic-pickle <T>/.xyz-c/batches/xyz-batch-3.jbdmp 584147dbb574',
    'atomic-pickle <T>/.xyz-c/results/xyz-result-1.jbdmp 5ca7dbc8086b',
    'atomic-pickle <T>/.xyz-c/results/xyz-result-2.jbdmp 98bec1a18b67',
    'atomic-pickle <T>/.xyz-c/results/xyz-result-3.jbdmp 92235c6c6291',
    'rmdir< <T>/.xyz-c',
    'rmdir< batches',
    'rmdir< results',
    'unlink< xyz-batch-1.jbdmp',
    'unlink< xyz-batch-2.jbdmp',
    'unlink< xyz-batch-3.jbdmp',
    'unlink< xyz-function.clpkl',
    'unlink< xyz-result-1.jbdmp',
    'unlink< xyz-result-2.jbdmp',
    'unlink< xyz-result-3.jbdmp',
    'unlink< xyz-settings.jbdmp',
]
GOLDEN['harvester'] = [
    'mkdir< <T>/.xyz-c',
    'mkdir< <T>/.xyz-c/batches',
    'mkdir< <T>/.xyz-c/results',
    'atomic-pickle <T>/.xyz-c/xyz-function.clpkl -',
    'atomic-pickle <T>/.xyz-c/xyz-settings.jbdmp -',
    'atomic-pickle <T>/.xyz-c/batches/xyz-batch-1.jbdmp c3e6418365bb',
    'atomic-pickle <T>/.xyz-c/batches/xyz-batch-2.jbdmp 0cb27433e46f',
    'atomic-pickle <T>/.xyz-c/batches/xyz-batch-3.jbdmp 584147dbb574',
    'atomic-pickle <T>/.xyz-c/results/xyz-result-1.jbdmp 5ca7dbc8086b',
    'atomic-pickle <T>/.xyz-c/results/xyz-result-2.jbdmp 98bec1a18b67',
    'atomic-pickle <T>/.xyz-c/results/xyz-result-3.jbdmp 92235c6c6291',
    'to_netcdf< <T>/data.h5.tmp',
    'replace< <T>/data.h5.tmp <T>/data.h5',
    'rmdir< <T>/.xyz-c',
    'rmdir< batches',
    'rmdir< results',
    'unlink< xyz-batch-1.jbdmp',
    'unlink< xyz-batch-2.jbdmp',
    'unlink< xyz-batch-3.jbdmp',
    'unlink< xyz-function.clpkl',
    'unlink< xyz-result-1.jbdmp',
    'unlink< xyz-result-2.jbdmp',
    'unlink< xyz-result-3.jbdmp',
    'unlink< xyz-settings.jbdmp',
]
GOLDEN['sampler'] = [
    'mkdir< <T>/.xyz-c',
    'mkdir< <T>/.xyz-c/batches',
    'mkdir< <T>/.xyz-c/results',
    'atomic-pickle <T>/.xyz-c/xyz-function.clpkl -',
    'atomic-pickle <T>/.xyz-c/xyz-settings.jbdmp -',
    'atomic-pickle <T>/.xyz-c/batches/xyz-batch-1.jbdmp 6e3a1fc35030',
    'atomic-pickle <T>/.xyz-c/batches/xyz-batch-2.jbdmp 6e3a1fc35030',
    'atomic-pickle <T>/.xyz-c/batches/xyz-batch-3.jbdmp 6f8af84216d0',
    'atomic-pickle <T>/.xyz-c/results/xyz-result-1.jbdmp e23aa97fda1c',
    'atomic-pickle <T>/.xyz-c/results/xyz-result-2.jbdmp e23aa97fda1c',
    'atomic-pickle <T>/.xyz-c/results/xyz-result-3.jbdmp 32e28888e9d3',
    'to_pickle< <T>/samples.pkl.tmp',
    'replace< <T>/samples.pkl.tmp <T>/samples.pkl',
    'rmdir< <T>/.xyz-c',
    'rmdir< batches',
    'rmdir< results',
    'unlink< xyz-batch-1.jbdmp',
    'unlink< xyz-batch-2.jbdmp',
    'unlink< xyz-batch-3.jbdmp',
    'unlink< xyz-function.clpkl',
    'unlink< xyz-result-1.jbdmp',
    'unlink< xyz-result-2.jbdmp',
    'unlink< xyz-result-3.jbdmp',
    'unlink< xyz-settings.jbdmp',
]


def main():
    print_golden = "--print-golden" in sys.argv
    top = tempfile.mkdtemp(prefix="xyz-c10-demo-")
    here = os.getcwd()
    real_stderr = sys.stderr
    sys.stderr = open(os.devnull, "w")  # progress bars of the reaps
    try:
        misc_checks(top)
        for cls in (RawScenario, RawRemainderScenario, RunnerScenario,
                    HarvesterScenario, SamplerScenario):
            sc = cls()
            sub = os.path.join(top, sc.name)
            os.mkdir(sub)
            golden = None if print_golden else GOLDEN[sc.name]
            nticks = run_scenario(sc, sub, golden)
            if not print_golden:
                print("{:<16} ticks per phase {}".format(sc.name, nticks))
    finally:
        sys.stderr = real_stderr
        os.chdir(here)
        _real_rmtree(top, ignore_errors=True)
    leftovers = glob.glob(os.path.join(here, ".xyz-*"))
    assert not leftovers, leftovers
    if not print_golden:
        # (the number of *distinct* post-kill states varies a little from
        # run to run, as some file contents are not byte-reproducible)
        print({k: v for k, v in CHECKS.items() if k != "states"})
        print("PASS")


if __name__ == "__main__":
    main()
