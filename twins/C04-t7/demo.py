"""Demo for the C04 twin t7: the sow side of a Crop -- how the settings are
divided into batches (choose_batch_settings), what the Sower writes, and the
settings file (save_info) -- checked against direct in-process sweeps.

Run as:  cd <worktree> && /venv/bin/python /path/to/demo.py
"""
import os
import sys

sys.path.insert(0, os.getcwd())

import itertools
import math
import pickle
import random
import shutil
import subprocess
import tempfile

import numpy as np

import xyzpy
from xyzpy.gen import cropping
from xyzpy.gen.cropping import Crop, Sower, XYZError
from xyzpy.gen.combo_runner import combo_runner, combo_runner_core
from xyzpy.gen.prepare import parse_cases
from xyzpy.gen.case_runner import case_runner

assert os.path.abspath(xyzpy.__file__).startswith(os.getcwd()), xyzpy.__file__

CHECKS = [0]


def check(cond, msg=""):
    CHECKS[0] += 1
    if not cond:
        raise AssertionError(msg)


def fn(a, b, c=0):
    return a + 10 * b + 100 * c


def fn2(a, b):
    return a + 10 * b, float(a * b) / 2


def same(x, y):
    """Exact comparison of nested tuples, nan == nan."""
    if isinstance(x, (tuple, list)):
        return (
            isinstance(y, (tuple, list))
            and len(x) == len(y)
            and all(same(i, j) for i, j in zip(x, y))
        )
    if isinstance(x, float) and math.isnan(x):
        return isinstance(y, float) and math.isnan(y)
    return type(x) is type(y) and x == y


def load(fname):
    with open(fname, "rb") as f:
        return pickle.load(f)


def fresh(name, parent):
    """A crop as a new process would make it: name and directory only."""
    return Crop(name=name, parent_dir=parent)


def read_batches(crop):
    """All the batch files of a crop, checked to be numbered 1..k."""
    bdir = os.path.join(crop.location, "batches")
    names = sorted(os.listdir(bdir))
    k = len(names)
    check(
        names == sorted("xyz-batch-{}.jbdmp".format(i) for i in range(1, k + 1)),
        names,
    )
    return [
        load(os.path.join(bdir, "xyz-batch-{}.jbdmp".format(i)))
        for i in range(1, k + 1)
    ]


def expected_sizes(n, batchsize=None, num_batches=None):
    """Independent statement of how n settings are divided."""
    if num_batches is None:
        bs = 1 if batchsize is None else batchsize
        sizes = [bs] * (n // bs)
        if n % bs:
            sizes.append(n % bs)
        return sizes, bs, len(sizes), 0
    nb = min(n, num_batches)
    q, r = divmod(n, nb)
    return [q + 1] * r + [q] * (nb - r), q, nb, r


def expected_order(settings, shuffle):
    if not shuffle:
        return list(settings)
    random.seed(int(shuffle))
    en = list(enumerate(settings))
    random.shuffle(en)
    return [s for _, s in en]


def divisions_grid(tmp):
    """Every batchsize in 1..n+1 and num_batches in 1..n+2 for a few grids:
    sizes of the batches, their contents and order, the settings file, and the
    final result."""
    grids = [
        {"a": [1, 2, 3], "b": [10, 20, 30, 40]},  # 12
        {"a": [5], "b": [7]},  # 1
        {"b": [3, 1, 2], "a": [4, 9]},  # 6, given unsorted
    ]
    k = 0
    for combos in grids:
        n = 1
        for v in combos.values():
            n *= len(v)
        expected = combo_runner(fn, combos, constants={"c": 1})
        sorted_combos = sorted(combos.items())
        settings = [
            dict(zip([x for x, _ in sorted_combos], vals), c=1)
            for vals in itertools.product(*[v for _, v in sorted_combos])
        ]
        # sown order is over the sorted arguments; the result is indexed the
        # same way, so compare with the direct run over sorted combos
        expected = combo_runner(fn, dict(sorted_combos), constants={"c": 1})

        divs = [dict()]
        divs += [dict(batchsize=b) for b in range(1, n + 2)]
        divs += [dict(num_batches=m) for m in range(1, n + 3)]
        shuffles = [False, True, 3]
        for j, kw in enumerate(divs):
            shuffle = shuffles[j % 3]
            via_ctor = j % 2 == 0
            k += 1
            name = "div{}".format(k)
            if via_ctor:
                crop = Crop(
                    fn=fn, name=name, parent_dir=tmp, shuffle=shuffle, **kw
                )
                crop.sow_combos(
                    combos, constants={"c": 1}, shuffle=None, verbosity=0
                )
            else:
                crop = Crop(fn=fn, name=name, parent_dir=tmp)
                crop.sow_combos(
                    combos,
                    constants={"c": 1},
                    shuffle=shuffle,
                    verbosity=0,
                    **kw,
                )

            sizes, bs, nb, rem = expected_sizes(n, **kw)
            check(crop.batchsize == bs, (kw, crop.batchsize, bs))
            check(crop.num_batches == nb, (kw, crop.num_batches, nb))
            check(crop._batch_remainder == rem)
            check(type(crop.batchsize) is int and type(crop.num_batches) is int)

            batches = read_batches(crop)
            check([len(b) for b in batches] == sizes, (kw, sizes))
            flat = [s for b in batches for s in b]
            check(flat == expected_order(settings, shuffle), (kw, shuffle))
            check(all(isinstance(b, list) for b in batches))

            info = load(os.path.join(crop.location, "xyz-settings.jbdmp"))
            check(
                list(info)
                == [
                    "combos",
                    "cases",
                    "fn_args",
                    "constants",
                    "batchsize",
                    "num_batches",
                    "_batch_remainder",
                    "shuffle",
                    "farmer",
                ]
            )
            check([(x, list(v)) for x, v in info["combos"]]
                  == [(x, list(v)) for x, v in sorted_combos])
            check(info["cases"] is None or info["cases"] == ())
            check(info["fn_args"] is None)
            check(info["constants"] == {"c": 1})
            check(info["batchsize"] == bs and info["num_batches"] == nb)
            check(info["_batch_remainder"] == rem)
            check(info["shuffle"] == shuffle and
                  type(info["shuffle"]) is type(shuffle))
            check(info["farmer"] is None)
            check(
                sorted(os.listdir(crop.location))
                == ["batches", "results", "xyz-function.clpkl",
                    "xyz-settings.jbdmp"]
            )

            # a re-created crop knows the same division
            c2 = fresh(name, tmp)
            check(
                (c2.batchsize, c2.num_batches, c2._batch_remainder)
                == (bs, nb, rem)
            )
            check(c2.fn is not None and c2.fn(1, 2, 3) == 321)

            ids = list(range(1, nb + 1))
            random.Random(k).shuffle(ids)
            half = len(ids) // 2
            c2.grow(ids[:half])
            fresh(name, tmp).grow(ids[half:])
            if ids:
                fresh(name, tmp).grow(ids[0])  # again
            got = fresh(name, tmp).reap()
            check(same(got, expected), (kw, shuffle))
            check(not os.path.exists(crop.location))


def divisions_cases(tmp):
    """The same for case lists (sow_cases), with and without extra combos."""
    cases = [(i, (i * 7) % 5) for i in range(1, 8)]  # 7 cases
    # the raw reap of a case crop is the grid over the union of the case
    # coordinates (nan where no case was given), like the core runner gives
    parsed = parse_cases(cases, ("a", "b"))
    direct = combo_runner_core(fn, None, {}, cases=parsed, verbosity=0)
    direct_c = combo_runner_core(
        fn, [("c", [1, 2])], {}, cases=parsed, verbosity=0
    )
    flat = case_runner(fn, ("a", "b"), cases, verbosity=0)
    check([v for row in direct for v in row if not math.isnan(v)]
          == list(flat))
    k = 0
    for with_combos in (False, True):
        n = 14 if with_combos else 7
        divs = [dict()]
        divs += [dict(batchsize=b) for b in (1, 2, 3, n - 1, n, n + 1)]
        divs += [dict(num_batches=m) for m in (1, 2, 3, 4, n - 1, n, n + 2)]
        for j, kw in enumerate(divs):
            k += 1
            shuffle = [False, True, 9][j % 3]
            name = "cas{}".format(k)
            crop = Crop(fn=fn, name=name, parent_dir=tmp, shuffle=shuffle)
            crop.sow_cases(
                ("a", "b"),
                cases,
                combos=[("c", [1, 2])] if with_combos else None,
                verbosity=0,
                **kw,
            )
            sizes, bs, nb, rem = expected_sizes(n, **kw)
            check(
                (crop.batchsize, crop.num_batches, crop._batch_remainder)
                == (bs, nb, rem),
                kw,
            )
            batches = read_batches(crop)
            check([len(b) for b in batches] == sizes)
            settings = []
            for a, b in cases:
                if with_combos:
                    for c in (1, 2):
                        settings.append({"a": a, "b": b, "c": c})
                else:
                    settings.append({"a": a, "b": b})
            flat = [s for b in batches for s in b]
            check(flat == expected_order(settings, shuffle))
            info = crop.load_info()
            check(info["fn_args"] == ("a", "b"))
            check(info["shuffle"] == shuffle)

            c2 = fresh(name, tmp)
            c2.grow(tuple(range(nb, 0, -1))[: nb // 2])
            c2.grow_missing()
            got = fresh(name, tmp).reap()
            check(same(got, direct_c if with_combos else direct), kw)


def batch_setting_errors(tmp):
    """The checks on batchsize / num_batches and what they leave behind."""
    combos = [("a", [1, 2, 3])]

    def make(**kw):
        return Crop(fn=fn, name="err", parent_dir=tmp, save_fn=False, **kw)

    for kw, exc, msg in [
        (dict(batchsize=0.5), TypeError, "`batchsize` must be an integer."),
        (dict(batchsize="2"), TypeError, "`batchsize` must be an integer."),
        (dict(batchsize=0), ValueError, "`batchsize` must be >= 1."),
        (dict(batchsize=-1), ValueError, "`batchsize` must be >= 1."),
        (dict(num_batches=1.5), TypeError, "`num_batches` must be an integer."),
        (dict(num_batches=0), ValueError, "`num_batches` must be >= 1."),
        (dict(num_batches=-2), ValueError, "`num_batches` must be >= 1."),
        (dict(batchsize=1, num_batches=2), ValueError, "cannot both"),
        (dict(batchsize=2, num_batches=3), ValueError, "cannot both"),
        (dict(batchsize=3, num_batches=2), ValueError, "cannot both"),
    ]:
        c = make(**kw)
        try:
            c.choose_batch_settings(combos=combos)
            check(False, kw)
        except exc as e:
            check(msg in str(e), (kw, str(e)))
        check(c._batch_remainder is None)
        # nothing was written
        check(not os.path.exists(c.location))
        if "batchsize" in kw:
            check(c.batchsize == kw["batchsize"])
        if "num_batches" in kw and "batchsize" not in kw:
            # capped at n before being checked
            check(c.num_batches == min(3, kw["num_batches"]))
            check(c.batchsize is None)

    # a non-number num_batches fails in the capping itself
    c = make(num_batches="2")
    try:
        c.choose_batch_settings(combos=combos)
        check(False)
    except TypeError as e:
        check("must be an integer" not in str(e))
    check(c.num_batches == "2")

    # compatible pairs are accepted and left alone
    for kw in [
        dict(batchsize=1, num_batches=3),
        dict(batchsize=2, num_batches=2),
        dict(batchsize=3, num_batches=1),
        dict(batchsize=4, num_batches=1),  # one batch, not full
        dict(batchsize=2, num_batches=2),
    ]:
        c = make(**kw)
        c.choose_batch_settings(combos=combos)
        check((c.batchsize, c.num_batches) == (kw["batchsize"],
                                               kw["num_batches"]))
        check(c._batch_remainder is None)

    # a too large float that caps to the int n passes, as does a bool
    c = make(num_batches=20.0)
    c.choose_batch_settings(combos=combos)
    check((c.batchsize, c.num_batches, c._batch_remainder) == (1, 3, 0))
    c = make(batchsize=True)
    c.choose_batch_settings(combos=combos)
    check((c.batchsize, c.num_batches, c._batch_remainder) == (True, 3, 0))

    # counting: cases times combos, empty means one
    c = make(batchsize=4)
    c.choose_batch_settings(
        combos=[("a", [1, 2, 3]), ("b", [1, 2])], cases=[{"z": 1}] * 5
    )
    check(c.num_batches == 8)  # ceil(30 / 4)
    c = make(num_batches=4)
    c.choose_batch_settings(cases=[{"z": 1}] * 10)
    check((c.batchsize, c._batch_remainder) == (2, 2))
    c = make()
    c.choose_batch_settings()
    check((c.batchsize, c.num_batches, c._batch_remainder) == (1, 1, 0))
    c = make(num_batches=3)
    c.choose_batch_settings(combos=[], cases=())
    check((c.batchsize, c.num_batches, c._batch_remainder) == (1, 1, 0))


def resowing(tmp):
    """A sown crop re-created from disk has both numbers set; re-sowing the
    same number of settings is accepted (remainder included), another number
    is refused before anything is overwritten."""
    combos = {"a": [1, 2, 3], "b": [10, 20, 30, 40]}
    for k, kw in enumerate([dict(batchsize=5), dict(num_batches=5)]):
        name = "resow{}".format(k)
        crop = Crop(fn=fn, name=name, parent_dir=tmp, **kw)
        crop.sow_combos(combos, verbosity=0)
        first = read_batches(crop)
        crop.grow(1)

        c2 = Crop(fn=fn, name=name, parent_dir=tmp)
        check(c2.batchsize is not None and c2.num_batches is not None)
        before = (c2.batchsize, c2.num_batches, c2._batch_remainder)
        try:
            c2.sow_combos({"a": [1, 2, 3], "b": list(range(9))}, verbosity=0)
            check(False)
        except ValueError as e:
            check("cannot both" in str(e))
        check(read_batches(crop) == first)
        still = load(os.path.join(crop.location, "xyz-settings.jbdmp"))
        check(list(still["combos"][1][1]) == [10, 20, 30, 40])

        # same number of settings, new constant: batches rewritten alike
        c2.sow_combos(combos, constants={"c": 5}, verbosity=0, shuffle=True)
        check((c2.batchsize, c2.num_batches, c2._batch_remainder) == before)
        again = read_batches(c2)
        check([len(b) for b in again] == [len(b) for b in first])
        check(all(s["c"] == 5 for b in again for s in b))
        check(c2.num_results == 1)  # the result stayed
        c3 = fresh(name, tmp)
        c3.grow(list(range(1, c3.num_batches + 1)))
        got = fresh(name, tmp).reap()
        check(same(got, combo_runner(fn, combos, constants={"c": 5})))

    # both given by hand and compatible: the remainder was never decided,
    # which the sower cannot use
    crop = Crop(
        fn=fn, name="both", parent_dir=tmp, batchsize=4, num_batches=3
    )
    try:
        crop.sow_combos(combos, verbosity=0)
        check(False)
    except TypeError:
        pass
    # (the first setting was already collected and is flushed on exit)
    check(read_batches(crop) == [[{"a": 1, "b": 10}]])
    check(crop.load_info()["_batch_remainder"] is None)


def sower_directly(tmp):
    """The Sower on its own: full batches are written as soon as they are
    full, the overfill on exit, nothing for an empty sow."""
    crop = Crop(fn=fn, name="sower", parent_dir=tmp, num_batches=3)
    crop.choose_batch_settings(combos=[("a", range(8))])
    check((crop.batchsize, crop._batch_remainder) == (2, 2))
    crop.prepare()
    bdir = os.path.join(crop.location, "batches")

    seen = []
    with Sower(crop) as sow:
        check(isinstance(sow, Sower))
        for i in range(8):
            check(sow(a=i) is None)
            seen.append(sorted(os.listdir(bdir)))
            check(not any(x.endswith(".tmp") for x in os.listdir(bdir)))
    # sizes 3, 3, 2 -> files appear after calls 3, 6 and 8
    counts = [len(s) for s in seen]
    check(counts == [0, 0, 1, 1, 1, 2, 2, 3], counts)
    check(sow._batch_counter == 3 and sow._counter == 0)
    check(sow._batch_cases == [])
    batches = read_batches(crop)
    check(batches == [
        [{"a": 0}, {"a": 1}, {"a": 2}],
        [{"a": 3}, {"a": 4}, {"a": 5}],
        [{"a": 6}, {"a": 7}],
    ])

    # an overfill (more calls than planned) goes into extra batches
    shutil.rmtree(bdir)
    os.makedirs(bdir)
    with Sower(crop) as sow:
        for i in range(11):
            sow(a=i, b=-i)
    check([len(b) for b in read_batches(crop)] == [3, 3, 2, 2, 1])

    # no calls -> no files
    shutil.rmtree(bdir)
    os.makedirs(bdir)
    with Sower(crop):
        pass
    check(os.listdir(bdir) == [])

    # an exception inside still flushes what was collected, and propagates
    try:
        with Sower(crop) as sow:
            sow(a=1)
            raise KeyError("boom")
    except KeyError:
        pass
    check(read_batches(crop) == [[{"a": 1}]])
    crop.delete_all()


def farmers(tmp):
    """Crops of a Runner / Harvester / Sampler: the farmer is saved without its
    function, comes back in a fresh crop, and the reaped data equals the
    direct run."""
    combos = {"a": [1, 2, 3], "b": [10, 20, 30, 40]}

    runner = xyzpy.Runner(
        fn2, var_names=["x", "y"], constants={}, attrs={"who": "demo"}
    )
    expected = runner.run_combos(combos, verbosity=0)

    for k, (kw, shuffle) in enumerate(
        [(dict(batchsize=5), 4), (dict(num_batches=5), False), (dict(), True)]
    ):
        name = "farm{}".format(k)
        r = xyzpy.Runner(
            fn2, var_names=["x", "y"], constants={}, attrs={"who": "demo"}
        )
        crop = r.Crop(name=name, parent_dir=tmp, **kw)
        crop.sow_combos(combos, shuffle=shuffle, verbosity=0)
        check(r.fn is fn2)  # the live farmer keeps its function
        info = crop.load_info()
        check(isinstance(info["farmer"], bytes))
        saved = cropping.from_pickle(info["farmer"])
        check(isinstance(saved, xyzpy.Runner) and saved.fn is None)
        check(saved._var_names == r._var_names and saved._attrs == r._attrs)
        check(info["shuffle"] == shuffle)

        # grown by a genuinely fresh process knowing name and directory
        code = (
            "import os, sys; sys.path.insert(0, os.getcwd()); import xyzpy; "
            "c = xyzpy.Crop(name={!r}, parent_dir={!r}); "
            "print(type(c.farmer).__name__, c.farmer.fn is c.fn, "
            "c.batchsize, c.num_batches, c._batch_remainder); "
            "c.grow_missing(verbosity=0)"
        ).format(name, tmp)
        out = subprocess.run(
            [sys.executable, "-W", "ignore", "-c", code],
            capture_output=True,
            text=True,
            check=True,
        ).stdout
        check(
            out.split()
            == ["Runner", "True", str(crop.batchsize), str(crop.num_batches),
                str(crop._batch_remainder)],
            out,
        )
        c2 = fresh(name, tmp)
        check(isinstance(c2.farmer, xyzpy.Runner))
        ds = c2.reap()
        check(ds.identical(expected), (ds, expected))
        check(c2.farmer.last_ds is ds)

    # harvester
    r = xyzpy.Runner(fn2, var_names=["x", "y"])
    h = xyzpy.Harvester(r, os.path.join(tmp, "harvest.h5"))
    crop = h.Crop(name="harv", parent_dir=tmp, num_batches=5)
    crop.sow_combos(combos, shuffle=2, verbosity=0)
    saved = cropping.from_pickle(crop.load_info()["farmer"])
    check(isinstance(saved, xyzpy.Harvester) and saved.fn is None)
    check(h.runner.fn is fn2)
    fresh("harv", tmp).grow([5, 3, 1])
    fresh("harv", tmp).grow_missing(num_workers=2)
    ds = crop.reap()
    check(ds.identical(xyzpy.Runner(fn2, var_names=["x", "y"])
                       .run_combos(combos, verbosity=0)))

    # sampler: the sown cases are the sampled ones; compare with running
    # exactly those cases directly
    r = xyzpy.Runner(fn2, var_names=["x", "y"])
    s = xyzpy.Sampler(
        r, os.path.join(tmp, "samples.pkl"),
        default_combos={"a": [1, 2, 3], "b": [10, 20, 30, 40]},
    )
    crop = s.Crop(name="samp", parent_dir=tmp, batchsize=4)
    np.random.seed(0)
    crop.sow_samples(10, verbosity=0)
    check((crop.batchsize, crop.num_batches, crop._batch_remainder)
          == (4, 3, 0))
    info = crop.load_info()
    check(len(info["cases"]) == 10 and info["fn_args"] == ("a", "b"))
    check([len(b) for b in read_batches(crop)] == [4, 4, 2])
    check(isinstance(cropping.from_pickle(info["farmer"]), xyzpy.Sampler))
    c2 = fresh("samp", tmp)
    c2.grow((3, 2))
    c2.grow_missing()
    df = crop.reap()
    got = sorted(zip(df["a"], df["b"], df["x"], df["y"]))
    want = sorted(
        (c["a"], c["b"]) + fn2(c["a"], c["b"]) for c in info["cases"]
    )
    check(got == want, (got, want))


def main():
    tmp = tempfile.mkdtemp(prefix="c04-t7-")
    real_stderr = sys.stderr
    sys.stderr = open(os.devnull, "w")  # hide progress bars
    try:
        divisions_grid(tmp)
        divisions_cases(tmp)
        batch_setting_errors(tmp)
        resowing(tmp)
        sower_directly(tmp)
        farmers(tmp)
    finally:
        sys.stderr.close()
        sys.stderr = real_stderr
        shutil.rmtree(tmp, ignore_errors=True)
    print("checks:", CHECKS[0])
    print("PASS")


if __name__ == "__main__":
    main()
