"""Demo for C14 / t7: save_merge_ds, merge_sync_conflict_datasets
(xyzpy/manage.py) and Harvester.load_full_ds / save_full_ds / delete_ds
(xyzpy/gen/farming.py).

Run as:  cd <worktree> && /venv/bin/python /path/to/demo.py
"""
import os
import sys

sys.path.insert(0, os.getcwd())

import contextlib
import glob
import io
import re
import shutil
import tempfile

import numpy as np
import xarray as xr

import xyzpy
from xyzpy import (Runner, Harvester, save_ds, load_ds, save_merge_ds,
                   merge_sync_conflict_datasets)
from xyzpy.utils import XYZError

assert os.path.abspath(xyzpy.__file__).startswith(os.getcwd()), xyzpy.__file__

EXT = {'h5netcdf': '.h5', 'joblib': '.dmp'}
ENGINES = ['h5netcdf', 'joblib']

n_checks = 0


def check(cond, msg):
    global n_checks
    n_checks += 1
    if not cond:
        raise AssertionError(msg)


def raises(exc_type, fn, *args, **kwargs):
    try:
        fn(*args, **kwargs)
    except exc_type as e:
        return e
    except BaseException as e:  # pragma: no cover
        raise AssertionError("expected {} got {!r}".format(exc_type, e))
    raise AssertionError("expected {} but nothing raised".format(exc_type))


def listing(d):
    return sorted(os.listdir(d))


def read_bytes(p):
    with open(p, 'rb') as f:
        return f.read()


def piece(xs, vals, name='f', **attrs):
    return xr.Dataset({name: ('x', np.asarray(vals))},
                      coords={'x': list(xs)}, attrs=attrs)


def same(a, b):
    """identical up to NaN == NaN (which xarray's identical honours)."""
    return a.identical(b)


# --------------------------------------------------------------------------- #
#                                save_merge_ds                                #
# --------------------------------------------------------------------------- #

def demo_save_merge(tmp):
    for engine in ENGINES:
        for with_ext in (False, True):
            d = tempfile.mkdtemp(dir=tmp)
            base = os.path.join(d, 'merged')
            fname = base + EXT[engine] if with_ext else base
            disk = base + EXT[engine]
            kw = {} if engine == 'h5netcdf' else {'engine': engine}

            ds1 = piece([1, 2], [10.0, 20.0])
            ds2 = piece([3], [30.0])
            clash = piece([2, 4], [99.0, 40.0])

            # no file yet: merged with an empty dataset and saved
            ret = save_merge_ds(ds1, fname, **kw)
            check(ret is None, 'returns None')
            check(listing(d) == [os.path.basename(disk)], listing(d))
            check(same(load_ds(fname, engine=engine), ds1), 'first')

            # disjoint: plain merge
            save_merge_ds(ds2, fname, **kw)
            want = piece([1, 2, 3], [10.0, 20.0, 30.0])
            check(same(load_ds(base, engine=engine), want), 'second')
            check(listing(d) == [os.path.basename(disk)], listing(d))

            # conflicting, overwrite=None: error, file untouched
            before = read_bytes(disk)
            raises(xr.MergeError, save_merge_ds, clash, fname, **kw)
            raises(xr.MergeError, save_merge_ds, clash, fname,
                   overwrite=None, **kw)
            check(read_bytes(disk) == before, 'untouched after MergeError')

            # overwrite=False: old data wins
            save_merge_ds(clash, fname, overwrite=False, **kw)
            want = piece([1, 2, 3, 4], [10.0, 20.0, 30.0, 40.0])
            check(same(load_ds(disk, engine=engine), want), 'old wins')

            # overwrite=True: new data wins
            save_merge_ds(piece([2, 5], [-2.0, 50.0]), fname,
                          overwrite=True, **kw)
            want = piece([1, 2, 3, 4, 5], [10.0, -2.0, 30.0, 40.0, 50.0])
            check(same(load_ds(disk, engine=engine), want), 'new wins')

            # only True / False by identity select the combine_first paths
            raises(xr.MergeError, save_merge_ds, clash, fname, overwrite=1,
                   **kw)
            raises(xr.MergeError, save_merge_ds, clash, fname, overwrite=0,
                   **kw)

            # new variables, complex values and NaN holes
            z = xr.Dataset({'z': ('x', np.array([1j, np.nan, 2 + 2j]))},
                           coords={'x': [1, 3, 7]})
            save_merge_ds(z, fname, **kw)
            got = load_ds(fname, engine=engine)
            check(list(got['x'].values) == [1, 2, 3, 4, 5, 7], 'union')
            check(np.array_equal(
                got['z'].values,
                np.array([1j, np.nan, np.nan, np.nan, np.nan, 2 + 2j]),
                equal_nan=True), got['z'].values)
            check(np.array_equal(
                got['f'].values, [10.0, -2.0, 30.0, 40.0, 50.0, np.nan],
                equal_nan=True), got['f'].values)
            check(listing(d) == [os.path.basename(disk)], listing(d))

    # attributes: rewritten on the way to netcdf, kept by joblib
    for engine in ENGINES:
        d = tempfile.mkdtemp(dir=tmp)
        fname = os.path.join(d, 'attrs')
        # (a plain merge keeps the attributes of what was on disk,
        # combine_first those of the dataset whose data wins)
        save_merge_ds(piece([1], [1.0], a=None), fname, engine=engine)
        check(load_ds(fname, engine=engine).attrs == {}, 'empty one first')
        new = piece([2], [2.0], a=None, b=True, c=False, d=3)
        save_merge_ds(new, fname, engine=engine, overwrite=True)
        got = load_ds(fname, engine=engine)
        if engine == 'joblib':
            check(got.attrs == dict(a=None, b=True, c=False, d=3), got.attrs)
            check(got.attrs['a'] is None and got.attrs['b'] is True, 'ident')
        else:
            check(got.attrs == dict(a='None', b='True', c='False', d=3),
                  got.attrs)
        check(new.attrs == dict(a=None, b=True, c=False, d=3),
              'the dataset handed in is not the one written')
        save_merge_ds(piece([3], [3.0], e=None), fname, engine=engine)
        check(load_ds(fname, engine=engine).attrs == got.attrs, 'old attrs')
        save_merge_ds(piece([4], [4.0], e=None), fname, engine=engine,
                      overwrite=False)
        check(load_ds(fname, engine=engine).attrs == got.attrs, 'old attrs 2')

    # the engine keyword decides where it looks: another engine's file
    # with the same base name is not seen
    d = tempfile.mkdtemp(dir=tmp)
    fname = os.path.join(d, 'two')
    save_merge_ds(piece([1], [1.0]), fname)
    save_merge_ds(piece([1], [5.0]), fname, engine='joblib')   # no clash
    check(listing(d) == ['two.dmp', 'two.h5'], listing(d))
    check(same(load_ds(fname), piece([1], [1.0])), 'h5 kept')
    check(same(load_ds(fname, engine='joblib'), piece([1], [5.0])), 'dmp')
    # unknown engine, no extension: fails before anything is read or written
    raises(KeyError, save_merge_ds, piece([1], [1.0]),
           os.path.join(d, 'three'), engine='bogus')
    check(listing(d) == ['two.dmp', 'two.h5'], listing(d))

    # the dtype a file was stored with is not re-applied to merged data
    d = tempfile.mkdtemp(dir=tmp)
    fname = os.path.join(d, 'dtypes')
    save_merge_ds(piece([1, 2], [1, 2]), fname)
    save_merge_ds(piece([2.5], [7]), fname)
    got = load_ds(fname)
    check(list(got['x'].values) == [1.0, 2.0, 2.5], got['x'].values)
    check(np.array_equal(got['f'].values, [1.0, 2.0, 7.0]), got['f'].values)

    # extra keywords reach save_ds -> joblib.dump
    d = tempfile.mkdtemp(dir=tmp)
    fname = os.path.join(d, 'kw')
    save_merge_ds(piece([1], [1.0]), fname, engine='joblib', compress=3)
    save_merge_ds(piece([2], [2.0]), fname, engine='joblib', compress=3)
    check(same(load_ds(fname, engine='joblib'), piece([1, 2], [1.0, 2.0])),
          'kw')
    raises(TypeError, save_merge_ds, piece([3], [3.0]), fname,
           engine='joblib', bogus=1)


# --------------------------------------------------------------------------- #
#                        merge_sync_conflict_datasets                         #
# --------------------------------------------------------------------------- #

def run_sync(*args, **kwargs):
    buf = io.StringIO()
    with contextlib.redirect_stdout(buf):
        ret = merge_sync_conflict_datasets(*args, **kwargs)
    check(ret is None, 'returns None')
    return buf.getvalue()


def demo_sync_conflicts(tmp):
    nothing = 'Nothing to do - need multiple files to merge.\n'

    for engine in ENGINES:
        ext = EXT[engine]

        # fewer than two files: message only
        d = tempfile.mkdtemp(dir=tmp)
        check(run_sync(os.path.join(d, 'data*'), engine=engine) == nothing,
              'none')
        save_ds(piece([1], [1.0]), os.path.join(d, 'data'), engine=engine)
        before = read_bytes(os.path.join(d, 'data' + ext))
        check(run_sync(os.path.join(d, 'data*'), engine=engine) == nothing,
              'single')
        check(listing(d) == ['data' + ext], listing(d))
        check(read_bytes(os.path.join(d, 'data' + ext)) == before, 'kept')

        # three files with new information, merged into the shortest name
        for combine_first in (False, True):
            d = tempfile.mkdtemp(dir=tmp)
            orig = os.path.join(d, 'data' + ext)
            c1 = os.path.join(d, 'data.sync-conflict-A' + ext)
            c2 = os.path.join(d, 'data.sync-conflict-BBB' + ext)
            save_ds(piece([1, 2], [1.0, np.nan]), orig, engine=engine)
            save_ds(piece([2, 3], [2.0, 3.0]), c1, engine=engine)
            save_ds(piece([4], [4.0 + 0j], name='z'), c2, engine=engine)
            out = run_sync(os.path.join(d, 'data*'), engine=engine,
                           combine_first=combine_first)
            check(out == "Merging:\n{}\ninto ->\n{}\n\n".format(
                [orig, c1, c2], orig), out)
            check(listing(d) == ['data' + ext], listing(d))
            got = load_ds(orig, engine=engine)
            check(list(got['x'].values) == [1, 2, 3, 4], got['x'].values)
            check(np.array_equal(got['f'].values, [1.0, 2.0, 3.0, np.nan],
                                 equal_nan=True), got['f'].values)
            check(np.array_equal(
                got['z'].values, [np.nan, np.nan, np.nan, 4.0 + 0j],
                equal_nan=True), got['z'].values)

        # real conflicts: merge refuses (and removes nothing), combine_first
        # prefers the earlier (shorter named) files
        d = tempfile.mkdtemp(dir=tmp)
        orig = os.path.join(d, 'data' + ext)
        c1 = os.path.join(d, 'data.conflict1' + ext)
        c2 = os.path.join(d, 'data.conflict-22' + ext)
        save_ds(piece([1, 2], [1.0, 2.0]), orig, engine=engine)
        save_ds(piece([2, 3], [-2.0, 3.0]), c1, engine=engine)
        save_ds(piece([3, 4], [-3.0, 4.0]), c2, engine=engine)
        three = listing(d)
        before = read_bytes(orig)
        buf = io.StringIO()
        with contextlib.redirect_stdout(buf):
            raises(xr.MergeError, merge_sync_conflict_datasets,
                   os.path.join(d, 'data*'), engine=engine)
        check(buf.getvalue().startswith('Merging:\n'), 'printed first')
        check(listing(d) == three and read_bytes(orig) == before, 'kept all')
        run_sync(os.path.join(d, 'data*'), engine=engine, combine_first=True)
        check(listing(d) == ['data' + ext], listing(d))
        check(same(load_ds(orig, engine=engine),
                   piece([1, 2, 3, 4], [1.0, 2.0, 3.0, 4.0])), 'earlier wins')

        # no new information: the original is not rewritten, conflicts go
        for combine_first in (False, True):
            d = tempfile.mkdtemp(dir=tmp)
            orig = os.path.join(d, 'data' + ext)
            c1 = os.path.join(d, 'data.copy' + ext)
            c2 = os.path.join(d, 'data.subset' + ext)
            full = piece([1, 2, 3], [1.0, np.nan, 3.0], note='hello')
            save_ds(full, orig, engine=engine)
            save_ds(full, c1, engine=engine)
            save_ds(piece([1, 3], [1.0, 3.0], note='hello'), c2,
                    engine=engine)
            before = read_bytes(orig)
            stat = os.stat(orig)
            out = run_sync(os.path.join(d, 'data*'), engine=engine,
                           combine_first=combine_first)
            check(out.startswith('Merging:\n'), out)
            check(listing(d) == ['data' + ext], listing(d))
            check(read_bytes(orig) == before, 'same bytes')
            after = os.stat(orig)
            check((after.st_mtime_ns, after.st_ino) ==
                  (stat.st_mtime_ns, stat.st_ino), 'not rewritten')

    # default engine, and a pattern whose matches all lack nothing
    d = tempfile.mkdtemp(dir=tmp)
    save_ds(piece([1], [1.0]), os.path.join(d, 'ab'))
    save_ds(piece([2], [2.0]), os.path.join(d, 'abc'))
    run_sync(os.path.join(d, 'ab*.h5'))
    check(listing(d) == ['ab.h5'], listing(d))
    check(same(load_ds(os.path.join(d, 'ab')), piece([1, 2], [1.0, 2.0])),
          'default engine')


# --------------------------------------------------------------------------- #
#                                  Harvester                                  #
# --------------------------------------------------------------------------- #

def fn(a, b):
    return a + b, a - 1j * b


def make_runner():
    return Runner(fn, var_names=['sum', 'cdiff'])


def demo_harvester(tmp):
    for engine in ENGINES:
        ext = EXT[engine]
        for with_ext in (False, True):
            d = tempfile.mkdtemp(dir=tmp)
            base = os.path.join(d, 'harvest')
            data_name = base + ext if with_ext else base
            disk = base + ext

            h = Harvester(make_runner(), data_name, engine=engine)
            # nothing on disk yet: loading is a no-op
            check(h.load_full_ds() is None and h._full_ds is None, 'noop')
            check(h.full_ds is None, 'still nothing')
            check(listing(d) == [], listing(d))

            h.harvest_combos({'a': [1, 2], 'b': [10, 20]}, verbosity=0)
            check(listing(d) == [os.path.basename(disk)], listing(d))
            h.harvest_combos({'a': [3], 'b': [10, 20]}, verbosity=0)
            check(listing(d) == [os.path.basename(disk)], listing(d))

            on_disk = load_ds(data_name, engine=engine)
            check(same(on_disk, h.full_ds), 'disk == memory')
            check(list(on_disk['a'].values) == [1, 2, 3], 'a')
            check(np.array_equal(on_disk['sum'].values,
                                 [[11, 21], [12, 22], [13, 23]]), 'sum')
            check(np.array_equal(
                on_disk['cdiff'].values,
                np.array([[a - 10j, a - 20j] for a in (1, 2, 3)])), 'cdiff')

            # a second harvester on the same name finds the data, and picks
            # up what the first one adds afterwards
            h2 = Harvester(make_runner(), data_name, engine=engine)
            check(same(h2.full_ds, on_disk), 'h2 loads')
            h.harvest_combos({'a': [4], 'b': [10, 20]}, verbosity=0)
            check(list(h2.full_ds['a'].values) == [1, 2, 3], 'cached')
            check(h2.load_full_ds() is None, 'returns None')
            check(list(h2.full_ds['a'].values) == [1, 2, 3, 4], 'reloaded')

            # conflicting data: error and nothing changed on disk
            before = read_bytes(disk)
            bad = h.full_ds.copy(deep=True)
            bad['sum'][0, 0] = -1
            raises(xr.MergeError, h.add_ds, bad)
            check(read_bytes(disk) == before and
                  listing(d) == [os.path.basename(disk)], 'untouched')
            h.add_ds(bad, overwrite=False)
            check(int(load_ds(disk, engine=engine)['sum'][0, 0]) == 11, 'old')
            h.add_ds(bad, overwrite=True)
            check(int(load_ds(disk, engine=engine)['sum'][0, 0]) == -1, 'new')
            check(listing(d) == [os.path.basename(disk)], listing(d))

            # save_full_ds with no argument re-saves what is in memory,
            # with one it replaces it; no temporary is left behind
            check(h.save_full_ds() is None, 'returns None')
            check(listing(d) == [os.path.basename(disk)], listing(d))
            small = h.full_ds.isel(a=[0]).load()
            h.save_full_ds(small)
            check(h._full_ds is small, 'replaced in memory')
            check(same(load_ds(disk, engine=engine), small), 'and on disk')
            check(listing(d) == [os.path.basename(disk)], listing(d))

            # the engine can be overridden per call: another file appears
            other = [e for e in ENGINES if e != engine][0]
            if not with_ext:
                h.save_full_ds(engine=other)
                check(listing(d) == sorted([os.path.basename(disk),
                                            'harvest' + EXT[other]]),
                      listing(d))
                check(same(load_ds(base, engine=other).drop_attrs(),
                           small.drop_attrs()), 'other engine')
                h3 = Harvester(make_runner(), data_name, engine=engine)
                h3.load_full_ds(engine=other)
                check(same(h3._full_ds.drop_attrs(), small.drop_attrs()),
                      'load with other engine')
                os.remove(base + EXT[other])

            # delete with a backup, then without
            h.delete_ds(backup=True)
            names = listing(d)
            check(len(names) == 1 and re.fullmatch(
                re.escape(os.path.basename(disk)) + r'\.BAK-\d{8}-\d{6}',
                names[0]), names)
            bak = os.path.join(d, names[0])
            check(same(load_ds(bak, engine=engine), small), 'backup content')
            os.remove(bak)
            raises(FileNotFoundError, h.delete_ds)
            raises(FileNotFoundError, h.delete_ds, backup=True)
            check(listing(d) == [], listing(d))
            h.save_full_ds()
            check(listing(d) == [os.path.basename(disk)], listing(d))
            check(h.delete_ds() is None, 'returns None')
            check(listing(d) == [], listing(d))

    # chunks: loaded lazily, same values, merged and saved back
    d = tempfile.mkdtemp(dir=tmp)
    data_name = os.path.join(d, 'lazy')
    h = Harvester(make_runner(), data_name)
    h.harvest_combos({'a': [1, 2], 'b': [10, 20]}, verbosity=0)
    eager = load_ds(data_name)
    for chunks, how in ((1, 'init'), ({'a': 1}, 'call')):
        if how == 'init':
            hl = Harvester(make_runner(), data_name, chunks=chunks)
            hl.load_full_ds()
        else:
            hl = Harvester(make_runner(), data_name)
            hl.load_full_ds(chunks=chunks)
        try:
            check(hl._full_ds['sum'].chunks is not None, 'lazy')
            check(same(hl._full_ds.compute(), eager), 'lazy == eager')
        finally:
            hl._full_ds.close()
    hl = Harvester(make_runner(), data_name, chunks=1)
    hl.harvest_combos({'a': [3], 'b': [10, 20]}, verbosity=0)
    check(hl.full_ds['sum'].chunks is not None, 'still lazy')
    hl.full_ds.close()
    check(list(load_ds(data_name)['a'].values) == [1, 2, 3], 'lazy merge')
    check(listing(d) == ['lazy.h5'], listing(d))

    # engine=None means the default engine
    check(Harvester(make_runner(), data_name, engine=None).engine ==
          'h5netcdf', 'default engine')

    # no data_name: nothing can be saved, data stays in memory
    h = Harvester(make_runner())
    e = raises(XYZError, h.save_full_ds)
    check("data_name" in str(e), str(e))
    raises(XYZError, h.save_full_ds, eager, engine='joblib')
    check(h._full_ds is None, 'not even set')
    h.harvest_combos({'a': [1], 'b': [2]}, verbosity=0)
    check(int(h.full_ds['sum'][0, 0]) == 3, 'in memory only')

    # a file that is there but cannot be written to
    d = tempfile.mkdtemp(dir=tmp)
    data_name = os.path.join(d, 'readonly')
    h = Harvester(make_runner(), data_name)
    h.harvest_combos({'a': [1], 'b': [2]}, verbosity=0)
    real_access = os.access
    os.access = lambda path, mode: False
    try:
        h2 = Harvester(make_runner(), data_name)
        e = raises(OSError, h2.load_full_ds)
        check(str(e) == "The file '{}' exists but cannot be written "
              "to".format(data_name), str(e))
        check(h2._full_ds is None, 'nothing loaded')
        raises(OSError, h2.harvest_combos, {'a': [5], 'b': [2]},
               verbosity=0)
        # ... and a missing one is still just skipped
        h4 = Harvester(make_runner(), os.path.join(d, 'missing'))
        check(h4.load_full_ds() is None and h4._full_ds is None, 'skipped')
    finally:
        os.access = real_access
    check(list(load_ds(data_name)['a'].values) == [1], 'unchanged')
    check(listing(d) == ['readonly.h5'], listing(d))

    # an interrupted save leaves the old file as it was
    d = tempfile.mkdtemp(dir=tmp)
    data_name = os.path.join(d, 'atomic')
    h = Harvester(make_runner(), data_name)
    h.harvest_combos({'a': [1], 'b': [2]}, verbosity=0)
    before = read_bytes(data_name + '.h5')
    unsavable = xr.Dataset({'o': ('x', np.array([object()], dtype=object))})
    raises(Exception, h.save_full_ds, unsavable)
    check(read_bytes(data_name + '.h5') == before, 'old data intact')
    check('atomic.h5' in listing(d), listing(d))
    for leftover in glob.glob(data_name + '.h5.tmp*'):
        os.remove(leftover)


def main():
    tmp = tempfile.mkdtemp(prefix='xyz_c14_t7_')
    try:
        demo_save_merge(tmp)
        demo_sync_conflicts(tmp)
        demo_harvester(tmp)
    finally:
        shutil.rmtree(tmp, ignore_errors=True)
    check(not os.path.exists(tmp), 'cleaned up')
    print("checks:", n_checks)
    print("PASS")


if __name__ == '__main__':
    main()
