"""Demo for C12 (a crop is deleted only after its data is safely delivered).

Exercises every reaping entry point (plain function, Runner, Harvester,
Sampler) over clean_up x allow_incomplete x wait, with failures injected at
each stage of the reap followed by a corrected retry.

Run as:  cd <worktree> && /venv/bin/python /path/to/demo.py
"""
import os
import sys

sys.path.insert(0, os.getcwd())

import itertools
import math
import pickle
import shutil
import tempfile
import threading
import warnings

import numpy as np
import xarray as xr

import xyzpy
from xyzpy import Crop, Runner, Harvester, Sampler
from xyzpy.gen.farming import XYZError

assert os.path.dirname(os.path.dirname(os.path.abspath(xyzpy.__file__))) == \
    os.path.abspath(os.getcwd()), xyzpy.__file__

warnings.simplefilter("ignore")

A = [1, 2, 3]
B = [10, 20, 30, 40]
COMBOS = (("a", A), ("b", B))
NBATCH = 4  # 12 cases in batches of 3
CHECKS = [0]
TRACE = []


def check(cond, msg):
    CHECKS[0] += 1
    if not cond:
        raise AssertionError(msg)


def fn_sum(a, b):
    return a + b


def fn_two(a, b):
    return a + b, a * b


def snapshot(location):
    """Relative path -> bytes of every file below the crop directory."""
    snap = {}
    for root, dirs, files in os.walk(location):
        for d in dirs:
            snap[os.path.relpath(os.path.join(root, d), location) + "/"] = None
        for f in files:
            p = os.path.join(root, f)
            with open(p, "rb") as fh:
                snap[os.path.relpath(p, location)] = fh.read()
    return snap


def expected_tuple(missing_cases=()):
    return tuple(
        tuple(
            (float("nan") if (a, b) in missing_cases else a + b) for b in B
        )
        for a in A
    )


def same_nested(x, y):
    fx = list(itertools.chain.from_iterable(x))
    fy = list(itertools.chain.from_iterable(y))
    if len(fx) != len(fy):
        return False
    for u, v in zip(fx, fy):
        if isinstance(v, float) and math.isnan(v):
            if not (isinstance(u, float) and math.isnan(u)):
                return False
        elif u != v:
            return False
    return True


def expected_ds(missing_cases=()):
    data = np.array(expected_tuple(missing_cases), dtype=float)
    return data


def ds_matches(ds, missing_cases=()):
    got = ds["sum"].transpose("a", "b").values.astype(float)
    exp = expected_ds(missing_cases)
    return (
        list(ds["a"].values) == A
        and list(ds["b"].values) == B
        and np.array_equal(got, exp, equal_nan=True)
    )


def cases_of_batch(i):
    flat = [(a, b) for a in A for b in B]
    return flat[3 * (i - 1): 3 * i]


def effective(clean_up, allow_incomplete):
    return (not allow_incomplete) if clean_up is None else clean_up


def make(kind, tdir, name="c", fn=fn_sum, var_names="sum"):
    """Return (crop, farmer, data_file)."""
    data = None
    if kind == "none":
        farmer = None
        crop = Crop(fn=fn, name=name, parent_dir=tdir, batchsize=3)
    else:
        runner = Runner(fn, var_names=var_names)
        if kind == "runner":
            farmer = runner
        elif kind == "harvester":
            data = os.path.join(tdir, name + ".h5")
            farmer = Harvester(runner, data_name=data)
        elif kind == "sampler":
            data = os.path.join(tdir, name + ".pkl")
            farmer = Sampler(runner, data_name=data)
        crop = farmer.Crop(name=name, parent_dir=tdir, batchsize=3)
    if kind == "sampler":
        # deterministic 'samples': exactly the grid, as explicit cases
        crop.sow_cases(("a", "b"), [(a, b) for a in A for b in B])
    else:
        crop.sow_combos(COMBOS)
    check(crop.num_batches == NBATCH, "num_batches")
    return crop, farmer, data


def result_ok(kind, res, missing_cases=()):
    if kind == "none":
        return same_nested(res, expected_tuple(missing_cases))
    if kind == "sampler":
        rows = {(int(r.a), int(r.b)): r.sum for r in res.itertuples()}
        if len(res) != 12:
            return False
        for (a, b), v in rows.items():
            if (a, b) in missing_cases:
                if not (isinstance(v, float) and math.isnan(v)):
                    return False
            elif v != a + b:
                return False
        return True
    return ds_matches(res, missing_cases)


def disk_ok(kind, data, missing_cases=()):
    if kind == "harvester":
        with xr.open_dataset(data, engine="h5netcdf") as ds:
            ds = ds.load()
        return ds_matches(ds, missing_cases)
    if kind == "sampler":
        import pandas as pd
        return result_ok(kind, pd.read_pickle(data), missing_cases)
    return True


def expect_raises(excs, f, *args, **kwargs):
    try:
        f(*args, **kwargs)
    except excs as e:
        CHECKS[0] += 1
        TRACE.append((type(e).__name__, str(e)[:60]))
        return e
    except BaseException as e:  # noqa
        raise AssertionError(
            "expected {} but got {!r}".format(excs, e)) from e
    raise AssertionError("expected {} but nothing was raised".format(excs))


KINDS = ["none", "runner", "harvester", "sampler"]


# --------------------------------------------------------------------------- #
def matrix_complete(tdir):
    """Complete crops: deletion follows clean_up / allow_incomplete exactly."""
    n = 0
    for kind, clean_up, allow_incomplete, wait in itertools.product(
        KINDS, [None, True, False], [False, True], [False, True]
    ):
        n += 1
        sub = os.path.join(tdir, "mc{}".format(n))
        os.mkdir(sub)
        crop, farmer, data = make(kind, sub)
        crop.grow_missing()
        before = snapshot(crop.location)
        res = crop.reap(
            clean_up=clean_up, allow_incomplete=allow_incomplete, wait=wait
        )
        tag = (kind, clean_up, allow_incomplete, wait)
        check(result_ok(kind, res), "wrong result {}".format(tag))
        check(disk_ok(kind, data), "wrong disk data {}".format(tag))
        gone = effective(clean_up, allow_incomplete)
        check(os.path.exists(crop.location) == (not gone),
              "crop dir existence {}".format(tag))
        if not gone:
            check(snapshot(crop.location) == before,
                  "kept crop altered {}".format(tag))
        if kind == "runner":
            check(farmer.last_ds is res, "runner last_ds")
        if kind == "harvester":
            check(farmer.last_ds is res, "harvester last_ds")
        if kind == "sampler":
            check(farmer.last_df is res, "sampler last_df")


def matrix_incomplete(tdir):
    """One batch missing: refusal keeps everything, allow_incomplete fills
    with nan and deletes only when told to."""
    n = 0
    for kind, clean_up, allow_incomplete in itertools.product(
        KINDS, [None, True, False], [False, True]
    ):
        n += 1
        sub = os.path.join(tdir, "mi{}".format(n))
        os.mkdir(sub)
        crop, farmer, data = make(kind, sub)
        for i in (1, 2, 4):
            crop.grow(i)
        before = snapshot(crop.location)
        tag = (kind, clean_up, allow_incomplete)
        if not allow_incomplete:
            e = expect_raises(
                XYZError, crop.reap, clean_up=clean_up, allow_incomplete=False
            )
            check("not ready to reap" in str(e), "message {}".format(tag))
            check(snapshot(crop.location) == before,
                  "refused reap altered crop {}".format(tag))
            if data is not None:
                check(not os.path.exists(data), "data written {}".format(tag))
            # corrected retry
            crop.grow_missing()
            res = crop.reap(clean_up=clean_up)
            check(result_ok(kind, res), "retry result {}".format(tag))
            check(disk_ok(kind, data), "retry disk {}".format(tag))
            check(os.path.exists(crop.location) ==
                  (not effective(clean_up, False)), "retry dir {}".format(tag))
        else:
            missing = cases_of_batch(3)
            res = crop.reap(clean_up=clean_up, allow_incomplete=True)
            check(result_ok(kind, res, missing), "nan result {}".format(tag))
            check(disk_ok(kind, data, missing), "nan disk {}".format(tag))
            gone = effective(clean_up, True)
            check(os.path.exists(crop.location) == (not gone),
                  "incomplete dir {}".format(tag))
            if not gone:
                check(snapshot(crop.location) == before,
                      "kept crop altered {}".format(tag))
                if kind in ("none", "runner"):
                    # finishing later delivers the exact results
                    crop.grow_missing()
                    res = crop.reap()
                    check(result_ok(kind, res), "late result {}".format(tag))
                    check(not os.path.exists(crop.location), "late dir")


def waiting(tdir):
    """wait=True blocks for the missing batch and then cleans up as asked."""
    n = 0
    for kind, clean_up in itertools.product(KINDS, [None, False]):
        n += 1
        sub = os.path.join(tdir, "w{}".format(n))
        os.mkdir(sub)
        crop, farmer, data = make(kind, sub)
        for i in (1, 3, 4):
            crop.grow(i)
        grower = Crop(name="c", parent_dir=sub)
        t = threading.Timer(0.5, grower.grow, args=(2,))
        t.start()
        try:
            res = crop.reap(wait=True, clean_up=clean_up)
        finally:
            t.join()
        check(result_ok(kind, res), "wait result {}".format((kind, clean_up)))
        check(disk_ok(kind, data), "wait disk")
        check(os.path.exists(crop.location) == (clean_up is False), "wait dir")

    # something that is not a file where a result should be
    sub = os.path.join(tdir, "wdir")
    os.mkdir(sub)
    crop, _, _ = make("runner", sub)
    for i in (1, 3, 4):
        crop.grow(i)
    bogus = os.path.join(crop.location, "results", "xyz-result-2.jbdmp")
    os.mkdir(bogus)
    before = snapshot(crop.location)
    e = expect_raises(ValueError, crop.reap, wait=True, clean_up=True)
    check(str(e) == "{} is not a file.".format(bogus), "not-a-file message")
    check(snapshot(crop.location) == before, "not-a-file altered crop")
    os.rmdir(bogus)
    crop.grow(2)
    check(result_ok("runner", crop.reap(wait=True)), "not-a-file retry")
    check(not os.path.exists(crop.location), "not-a-file retry dir")


def loading_failures(tdir):
    """Unreadable / empty results at the loading stage."""
    n = 0
    for kind, clean_up, how in itertools.product(
        KINDS, [None, True], ["garbage", "empty", "none"]
    ):
        n += 1
        sub = os.path.join(tdir, "lf{}".format(n))
        os.mkdir(sub)
        crop, farmer, data = make(kind, sub)
        crop.grow_missing()
        bad = os.path.join(crop.location, "results", "xyz-result-3.jbdmp")
        if how == "garbage":
            with open(bad, "wb") as f:
                f.write(b"this is not a pickle")
        elif how == "empty":
            xyzpy.gen.cropping.write_to_disk((), bad)
        else:
            xyzpy.gen.cropping.write_to_disk(None, bad)
        before = snapshot(crop.location)
        tag = (kind, clean_up, how)
        if how == "garbage":
            expect_raises(pickle.UnpicklingError, crop.reap, clean_up=clean_up)
        else:
            e = expect_raises(ValueError, crop.reap, clean_up=clean_up)
            check(str(e) == "Something not right: result {} contains no data "
                  "upon read from disk.".format(bad), "message {}".format(tag))
        check(snapshot(crop.location) == before,
              "failed load altered crop {}".format(tag))
        if data is not None:
            check(not os.path.exists(data), "data written {}".format(tag))
        # the documented way out: find the bad result, regrow it
        if how == "garbage":
            check(crop.check_bad() == ("3",), "check_bad {}".format(tag))
        else:
            os.remove(bad)
        crop.grow_missing()
        res = crop.reap(clean_up=clean_up)
        check(result_ok(kind, res), "reload result {}".format(tag))
        check(disk_ok(kind, data), "reload disk {}".format(tag))
        check(not os.path.exists(crop.location), "reload dir {}".format(tag))

    # allow_incomplete with nothing grown: no stand-in can be inferred
    sub = os.path.join(tdir, "lf-none")
    os.mkdir(sub)
    crop, _, data = make("harvester", sub)
    before = snapshot(crop.location)
    e = expect_raises(XYZError, crop.reap, allow_incomplete=True, clean_up=True)
    check("all-nan" in str(e), "all-nan message")
    check(snapshot(crop.location) == before, "all-nan altered crop")
    check(not os.path.exists(data), "all-nan wrote data")


def construction_failures(tdir):
    """A wrong output description fails while building the dataset."""
    for n, (kind, clean_up) in enumerate(
        itertools.product(["runner", "harvester"], [None, True])
    ):
        sub = os.path.join(tdir, "cf{}".format(n))
        os.mkdir(sub)
        # function gives two outputs, only one is described
        crop, farmer, data = make(kind, sub, fn=fn_two, var_names=["sum"])
        crop.grow_missing()
        before = snapshot(crop.location)
        expect_raises(ValueError, crop.reap, clean_up=clean_up)
        check(snapshot(crop.location) == before, "bad description altered")
        if data is not None:
            check(not os.path.exists(data), "bad description wrote data")
        # corrected description
        good = Runner(fn_two, var_names=["sum", "prod"])
        if kind == "runner":
            ds = crop.reap_runner(good, clean_up=clean_up)
        else:
            ds = crop.reap_harvest(
                Harvester(good, data_name=data), clean_up=clean_up
            )
        check(ds_matches(ds), "corrected description sum")
        prod = ds["prod"].transpose("a", "b").values
        check(np.array_equal(prod, np.outer(A, B)), "corrected prod")
        check(not os.path.exists(crop.location), "corrected description dir")

    # direct use without parsing, to_df and explicit var_names
    sub = os.path.join(tdir, "cf-direct")
    os.mkdir(sub)
    crop, _, _ = make("none", sub)
    crop.grow_missing()
    before = snapshot(crop.location)
    expect_raises(TypeError, crop.reap_combos_to_ds,
                  var_names=["x", "y"], clean_up=True)
    check(snapshot(crop.location) == before, "direct bad description altered")
    ds = crop.reap_combos_to_ds(
        var_names=["sum"], constants={"k": 3}, attrs={"m": 4}, clean_up=False
    )
    check(ds_matches(ds) and ds.attrs["k"] == 3 and ds.attrs["m"] == 4,
          "direct to ds")
    check(snapshot(crop.location) == before, "direct kept crop altered")
    df = crop.reap_combos_to_ds(var_names=["sum"], to_df=True)
    check(len(df) == 12 and (df["sum"] == df["a"] + df["b"]).all(), "to_df")
    check(not os.path.exists(crop.location), "direct default clean up")

    # no farmer given to the explicit entry points
    sub = os.path.join(tdir, "cf-nofarmer")
    os.mkdir(sub)
    crop, _, _ = make("none", sub)
    crop.grow_missing()
    before = snapshot(crop.location)
    expect_raises(ValueError, crop.reap_harvest, None, clean_up=True)
    expect_raises(ValueError, crop.reap_samples, None, clean_up=True)
    check(snapshot(crop.location) == before, "missing farmer altered crop")


def harvest_failures(tdir):
    """Merge conflicts and save errors leave the crop for a retry."""
    for n, clean_up in enumerate([None, True]):
        # ---- merge conflict with data already on disk
        sub = os.path.join(tdir, "hf{}".format(n))
        os.mkdir(sub)
        crop, harv, data = make("harvester", sub)
        crop.grow_missing()
        old = xr.Dataset(
            {"sum": (("a", "b"), np.full((3, 4), -1))},
            coords={"a": A, "b": B},
        )
        old.to_netcdf(data, engine="h5netcdf")
        with open(data, "rb") as f:
            data_before = f.read()
        before = snapshot(crop.location)
        expect_raises(xr.MergeError, crop.reap, clean_up=clean_up)
        check(snapshot(crop.location) == before, "conflict altered crop")
        with open(data, "rb") as f:
            check(f.read() == data_before, "conflict altered data file")
        # overwrite=False: keeps old data, reap counts as delivered
        res = crop.reap(overwrite=False, clean_up=False)
        check(ds_matches(res), "overwrite=False returns the new data")
        with xr.open_dataset(data, engine="h5netcdf") as ds:
            check((ds["sum"].values == -1).all(), "overwrite=False on disk")
        check(snapshot(crop.location) == before, "clean_up=False altered crop")
        harv._full_ds.close()
        # corrected retry
        res = crop.reap(overwrite=True, clean_up=clean_up)
        check(ds_matches(res) and disk_ok("harvester", data), "overwrite=True")
        check(not os.path.exists(crop.location), "overwrite=True dir")
        harv._full_ds.close()

        # ---- save error: the target directory does not exist (yet)
        sub = os.path.join(tdir, "hs{}".format(n))
        os.mkdir(sub)
        runner = Runner(fn_sum, var_names="sum")
        data = os.path.join(sub, "later", "data.h5")
        harv = Harvester(runner, data_name=data)
        crop = harv.Crop(name="c", parent_dir=sub, batchsize=3)
        crop.sow_combos(COMBOS)
        crop.grow_missing()
        before = snapshot(crop.location)
        expect_raises(OSError, crop.reap, clean_up=clean_up)
        check(snapshot(crop.location) == before, "save error altered crop")
        check(not os.path.exists(data), "save error left a data file")
        os.mkdir(os.path.dirname(data))
        res = crop.reap(clean_up=clean_up)
        check(ds_matches(res) and disk_ok("harvester", data), "save retry")
        check(not os.path.exists(crop.location), "save retry dir")
        check(os.listdir(os.path.dirname(data)) == ["data.h5"], "tmp left")
        harv._full_ds.close()

        # ---- sampler save error
        sub = os.path.join(tdir, "ss{}".format(n))
        os.mkdir(sub)
        data = os.path.join(sub, "later", "data.pkl")
        samp = Sampler(Runner(fn_sum, var_names="sum"), data_name=data)
        crop = samp.Crop(name="c", parent_dir=sub, batchsize=3)
        crop.sow_cases(("a", "b"), [(a, b) for a in A for b in B])
        crop.grow_missing()
        before = snapshot(crop.location)
        expect_raises(OSError, crop.reap, clean_up=clean_up)
        check(snapshot(crop.location) == before, "df save error altered crop")
        os.mkdir(os.path.dirname(data))
        res = crop.reap(clean_up=clean_up)
        check(result_ok("sampler", res) and disk_ok("sampler", data),
              "df save retry")
        check(not os.path.exists(crop.location), "df save retry dir")
        check(os.listdir(os.path.dirname(data)) == ["data.pkl"], "df tmp left")

    # ---- sync=False: nothing written, deletion still follows clean_up
    for n, (kind, clean_up) in enumerate(
        itertools.product(["harvester", "sampler"], [None, True, False])
    ):
        sub = os.path.join(tdir, "ns{}".format(n))
        os.mkdir(sub)
        crop, farmer, data = make(kind, sub)
        crop.grow_missing()
        res = crop.reap(sync=False, clean_up=clean_up)
        check(result_ok(kind, res), "sync=False result")
        check(not os.path.exists(data), "sync=False wrote data")
        check(os.path.exists(crop.location) == (clean_up is False),
              "sync=False dir")

    # ---- a second crop merged into the same file, first data retained
    sub = os.path.join(tdir, "two")
    os.mkdir(sub)
    crop, harv, data = make("harvester", sub)
    crop.grow_missing()
    crop.reap()
    crop2 = harv.Crop(name="c2", parent_dir=sub, batchsize=2)
    crop2.sow_combos((("a", [4]), ("b", B)))
    crop2.grow_missing()
    crop2.reap()
    check(not os.path.exists(crop2.location), "second crop dir")
    harv._full_ds.close()
    with xr.open_dataset(data, engine="h5netcdf") as ds:
        ds = ds.load()
    check(list(ds["a"].values) == A + [4], "merged coords")
    check(np.array_equal(
        ds["sum"].transpose("a", "b").values,
        np.add.outer(np.array(A + [4]), np.array(B))), "merged values")


def reaper_direct(tdir):
    """The Reaper itself: lazy, ordered loading; stand-ins sized like the
    sown batch; leftovers refused."""
    from xyzpy.gen import cropping
    from xyzpy.gen.cropping import Reaper

    sub = os.path.join(tdir, "rd")
    os.mkdir(sub)
    # 12 cases in 5 batches -> uneven batch sizes
    crop = Crop(fn=fn_sum, name="r", parent_dir=sub, num_batches=5)
    crop.sow_combos(COMBOS)
    sizes = [
        len(cropping.read_from_disk(
            os.path.join(crop.location, "batches",
                         "xyz-batch-{}.jbdmp".format(i))))
        for i in range(1, 6)
    ]
    check(sum(sizes) == 12 and len(set(sizes)) > 1, "uneven batches")
    for i in (1, 2, 4, 5):
        crop.grow(i)
    flat = [a + b for a in A for b in B]

    reads = []
    real_read = cropping.read_from_disk

    def logging_read(fname):
        reads.append(os.path.relpath(fname, crop.location))
        return real_read(fname)

    cropping.read_from_disk = logging_read
    try:
        # ---- no default: a missing file is an error only when reached
        reaper = Reaper(crop, num_batches=5)
        check(reads == [], "nothing read on construction")
        got = []
        with reaper as fn:
            check(fn is reaper, "context gives the reaper")
            for k in range(sizes[0]):
                got.append(fn(a=None, b=None))
                check(reads == ["results/xyz-result-1.jbdmp"], "lazy first")
            for k in range(sizes[1]):
                got.append(fn())
            check(reads == ["results/xyz-result-1.jbdmp",
                            "results/xyz-result-2.jbdmp"], "lazy second")
            expect_raises(FileNotFoundError, fn)
        check(got == flat[:sizes[0] + sizes[1]], "ordered results")

        # ---- stand-in for the missing batch, sized from the batch file
        del reads[:]
        marker = object()
        reaper = Reaper(crop, num_batches=5, default_result=marker)
        with reaper as fn:
            got = [fn() for _ in range(12)]
        lo = sizes[0] + sizes[1]
        check(got[:lo] == flat[:lo] and got[lo + sizes[2]:] ==
              flat[lo + sizes[2]:], "real results around the stand-ins")
        check(all(g is marker for g in got[lo:lo + sizes[2]]), "stand-ins")
        check(reads == ["results/xyz-result-1.jbdmp",
                        "results/xyz-result-2.jbdmp",
                        "batches/xyz-batch-3.jbdmp",
                        "results/xyz-result-4.jbdmp",
                        "results/xyz-result-5.jbdmp"], "read order")

        # ---- ``None`` is a legitimate stand-in
        reaper = Reaper(crop, num_batches=5, default_result=None)
        with reaper as fn:
            got = [fn() for _ in range(12)]
        check(got[lo:lo + sizes[2]] == [None] * sizes[2], "None stand-ins")

        # ---- when waiting the stand-in is never used
        del reads[:]
        grower = Crop(name="r", parent_dir=sub)
        reaper = Reaper(crop, num_batches=5, wait=True, default_result=marker)
        t = threading.Timer(0.5, grower.grow, args=(3,))
        t.start()
        try:
            with reaper as fn:
                got = [fn() for _ in range(12)]
        finally:
            t.join()
        check(got == flat, "waited for the real results")
        check([r for r in reads if r.startswith("results")] ==
              ["results/xyz-result-{}.jbdmp".format(i) for i in range(1, 6)],
              "wait read order")

        # ---- leftovers
        reaper = Reaper(crop, num_batches=5)
        try:
            with reaper as fn:
                fn()
        except XYZError as e:
            check(str(e) == "Not all results reaped!", "leftover message")
        else:
            raise AssertionError("leftovers accepted")
        # fewer batches asked for than exist: just those are delivered
        with Reaper(crop, num_batches=2) as fn:
            got = [fn() for _ in range(lo)]
        check(got == flat[:lo], "first two batches")
        # exhausted
        expect_raises(StopIteration, fn)
        # bad batch count is refused at construction
        expect_raises(TypeError, Reaper, crop, num_batches="5")
    finally:
        cropping.read_from_disk = real_read
    check(len(os.listdir(os.path.join(crop.location, "results"))) == 5,
          "direct reaping deletes nothing")


def save_paths(tdir):
    """Harvester.save_full_ds: atomic file replacement, failed writes, and
    the directory-store ('zarr') branch with a stand-in writer."""
    from xyzpy.gen import farming

    def new_ds(offset, a=A):
        return xr.Dataset(
            {"sum": (("a", "b"), np.add.outer(np.array(a), np.array(B))
                     + offset)},
            coords={"a": a, "b": B},
        )

    # ---- a write that dies half way: old data and crop both survive
    sub = os.path.join(tdir, "sp")
    os.mkdir(sub)
    crop, harv, data = make("harvester", sub)
    crop.grow_missing()
    new_ds(0, a=[7]).to_netcdf(data, engine="h5netcdf")
    with open(data, "rb") as f:
        data_before = f.read()
    before = snapshot(crop.location)
    real_save = farming.save_ds
    calls = []

    def dying_save(ds, file_name, engine="h5netcdf", **kwargs):
        calls.append(os.path.basename(file_name))
        with open(file_name, "wb") as f:
            f.write(b"partial")
        raise RuntimeError("disk full")

    farming.save_ds = dying_save
    try:
        for clean_up in (None, True):
            e = expect_raises(RuntimeError, crop.reap, clean_up=clean_up)
            check(str(e) == "disk full", "injected error propagates")
            check(snapshot(crop.location) == before, "dead write altered crop")
            with open(data, "rb") as f:
                check(f.read() == data_before, "dead write altered data")
    finally:
        farming.save_ds = real_save
    check(calls == ["c.h5.tmp", "c.h5.tmp"], "written next to the target")
    # the data reaped so far is what the harvester now holds; start afresh
    # as a new process would
    os.remove(data + ".tmp")
    harv._full_ds.close()
    harv = Harvester(Runner(fn_sum, var_names="sum"), data_name=data)
    res = crop.reap_harvest(harv)
    check(ds_matches(res), "retry after dead write")
    check(not os.path.exists(crop.location), "retry after dead write dir")
    check(sorted(os.listdir(sub)) == ["c.h5"], "no temporary left")
    harv._full_ds.close()
    with xr.open_dataset(data, engine="h5netcdf") as ds:
        ds = ds.load()
    check(list(ds["a"].values) == A + [7], "old and new data on disk")

    # ---- plain saves: current dataset / replacement dataset / no name
    data2 = os.path.join(sub, "plain.h5")
    h = Harvester(Runner(fn_sum, var_names="sum"), data_name=data2,
                  full_ds=new_ds(0))
    h.save_full_ds()
    with xr.open_dataset(data2, engine="h5netcdf") as ds:
        check(ds_matches(ds.load()), "saved current dataset")
    replacement = new_ds(100)
    h.save_full_ds(replacement)
    check(h._full_ds is replacement, "replacement held")
    with xr.open_dataset(data2, engine="h5netcdf") as ds:
        check((ds["sum"].values == new_ds(100)["sum"].values).all(),
              "saved replacement")
    check(sorted(os.listdir(sub)) == ["c.h5", "plain.h5"], "no temporaries")
    e = expect_raises(
        XYZError, Harvester(Runner(fn_sum, var_names="sum")).save_full_ds)
    check("data_name" in str(e), "no data name message")

    # ---- directory store branch, with stand-in writer and reader
    log = []

    def store_save(ds, file_name, engine="h5netcdf", **kwargs):
        log.append(("save", os.path.basename(file_name), engine,
                    sorted(os.listdir(file_name))
                    if os.path.isdir(file_name) else None))
        os.makedirs(file_name, exist_ok=True)
        with open(os.path.join(file_name, "n{}".format(len(log))), "wb") as f:
            pickle.dump(ds.load(), f)

    def store_load(file_name, engine="h5netcdf", **kwargs):
        log.append(("load", os.path.basename(file_name), engine))
        newest = sorted(os.listdir(file_name))[-1]
        with open(os.path.join(file_name, newest), "rb") as f:
            return pickle.load(f)

    real_load = farming.load_ds
    farming.save_ds, farming.load_ds = store_save, store_load
    try:
        for clean_up in (None, False):
            subz = os.path.join(tdir, "spz{}".format(clean_up))
            os.mkdir(subz)
            store = os.path.join(subz, "store.zarr")
            hz = Harvester(Runner(fn_sum, var_names="sum"), data_name=store,
                           engine="zarr")
            cz = hz.Crop(name="z", parent_dir=subz, batchsize=3)
            cz.sow_combos(COMBOS)
            cz.grow_missing()
            del log[:]
            # 1: no store yet
            res = cz.reap(clean_up=False)
            check(ds_matches(res), "store reap")
            check(log == [("save", "store.zarr", "zarr", None)], "first save")
            check(os.path.exists(cz.location), "store kept crop")
            # 2: store exists and a new dataset supersedes it -> cleared
            del log[:]
            res = cz.reap(clean_up=clean_up)
            check(log == [("load", "store.zarr", "zarr"),
                          ("save", "store.zarr", "zarr", None)],
                  "store cleared before the new write: {}".format(log))
            check(len(os.listdir(store)) == 1, "one generation in store")
            check(os.path.exists(cz.location) == (clean_up is False),
                  "store crop dir")
            # 3: re-saving the current dataset writes in place
            del log[:]
            hz.save_full_ds()
            check(log[0][0] == "save" and log[0][3] is not None
                  and len(log[0][3]) == 1, "in place: {}".format(log))
            check(len(os.listdir(store)) == 2, "store not cleared")
            check(ds_matches(store_load(store)), "store content")
            del log[:]
    finally:
        farming.save_ds, farming.load_ds = real_save, real_load


def main():
    tdir = tempfile.mkdtemp(prefix="c12-demo-")
    try:
        matrix_complete(tdir)
        matrix_incomplete(tdir)
        waiting(tdir)
        loading_failures(tdir)
        construction_failures(tdir)
        harvest_failures(tdir)
        reaper_direct(tdir)
        save_paths(tdir)
    finally:
        shutil.rmtree(tdir, ignore_errors=True)
    print("{} checks".format(CHECKS[0]))
    print("PASS")


if __name__ == "__main__":
    main()
    if os.environ.get("C12_TRACE"):
        for t in TRACE:
            print(t)
