import sys
import os

sys.path.insert(0, os.getcwd())

import contextlib
import io
import itertools
import math
import tempfile
import threading
import time
import warnings

warnings.filterwarnings("ignore")

import numpy as np
import pandas as pd
import xarray as xr

import xyzpy
from xyzpy import Runner, Harvester, Sampler
from xyzpy.gen import cropping
from xyzpy.gen.cropping import Crop, Reaper, XYZError, read_from_disk

_here = os.path.realpath(os.getcwd())
_used = os.path.realpath(os.path.dirname(os.path.dirname(xyzpy.__file__)))
assert _here == _used, (
    "demo must import the xyzpy of the current directory, got %s" % _used
)

CHECKS = [0]


def ok(cond, msg=""):
    CHECKS[0] += 1
    if not cond:
        raise AssertionError(msg)


@contextlib.contextmanager
def quiet():
    """Swallow the progress bars / prints of xyzpy."""
    with contextlib.redirect_stderr(io.StringIO()):
        with contextlib.redirect_stdout(io.StringIO()):
            yield


# --------------------------- functions to sweep ---------------------------- #


def f_scalar(a, b):
    return a * 10 + b


def f_float(a, b):
    return a + b / 16


def f_array(a, b):
    return [a * 10 + b + 0.5 * i for i in range(3)]


def f_array_bool(a, b):
    return [a * 10 + b + 0.5 * i for i in range(3)], (a + b) % 2 == 0


def f_bool(a, b):
    return (a + b) % 2 == 0


def f_str(a, b):
    return "s%d_%d" % (a, b)


def f_dataset(a, b):
    return xr.Dataset({"x": (["t1", "t2"], np.full((2, 3), a * 10.0 + b))})


# ------------------------ independent expectations ------------------------- #


def placeholder_for(exact):
    """What a missing position must look like, given what the exact result
    at that position would have been (written independently of xyzpy).
    """
    if isinstance(exact, xr.Dataset):
        return xr.Dataset(
            {
                k: (v.dims, np.full(v.shape, np.nan))
                for k, v in exact.data_vars.items()
            }
        )
    if isinstance(exact, (bool, str)):
        return None
    if isinstance(exact, (tuple, list)):
        return tuple(np.full(np.shape(x), np.nan) for x in exact)
    return np.nan


def canon(x):
    """Canonical, comparable form of a single result."""
    if isinstance(x, xr.Dataset):
        return (
            "ds",
            tuple(
                (k, tuple(v.dims), canon(v.values))
                for k, v in sorted(x.data_vars.items())
            ),
        )
    if x is None:
        return ("none",)
    if isinstance(x, (bool, np.bool_)):
        return ("bool", bool(x))
    if isinstance(x, str):
        return ("str", x)
    if isinstance(x, np.ndarray):
        if x.ndim == 0:
            return canon(x.item())
        return ("seq", tuple(canon(e) for e in x))
    if isinstance(x, (tuple, list)):
        return ("seq", tuple(canon(e) for e in x))
    x = float(x)
    if math.isnan(x):
        return ("nan",)
    return ("num", x)


def snapshot(location):
    """Names, sizes and modification times of everything in a crop."""
    snap = {}
    for root, dirs, files in os.walk(location):
        for nm in dirs + files:
            p = os.path.join(root, nm)
            st = os.stat(p)
            snap[os.path.relpath(p, location)] = (
                st.st_size if os.path.isfile(p) else -1,
                st.st_mtime_ns if os.path.isfile(p) else -1,
            )
    return snap


def proper_subsets(n):
    ids = range(1, n + 1)
    for k in range(1, n):
        for sub in itertools.combinations(ids, k):
            yield sub


def batch_of_each_case(crop):
    """Read the sown batch files directly: {(a, b): batch number}."""
    where = {}
    sizes = {}
    for i in range(1, crop.num_batches + 1):
        cases = read_from_disk(
            os.path.join(crop.location, "batches", "xyz-batch-%d.jbdmp" % i)
        )
        sizes[i] = len(cases)
        for kws in cases:
            key = (kws["a"], kws["b"])
            assert key not in where
            where[key] = i
    return where, sizes


REFUSAL = "This crop is not ready to reap yet"


def assert_refused(crop, **reap_opts):
    """Without allow_incomplete (nor wait) an incomplete crop is refused and
    left completely untouched.
    """
    before = snapshot(crop.location)
    try:
        with quiet():
            crop.reap(**reap_opts)
    except XYZError as e:
        ok(REFUSAL in str(e), str(e))
        ok("allow_incomplete=True" in str(e), str(e))
    else:
        raise AssertionError("incomplete crop was not refused")
    ok(snapshot(crop.location) == before, "refused reap touched the crop")


def check_raw(results, fn, A, B, where, finished):
    """Raw nested tuple: exact at finished positions, placeholder elsewhere."""
    ok(isinstance(results, tuple) and len(results) == len(A))
    n_exact = 0
    for ia, a in enumerate(A):
        ok(len(results[ia]) == len(B))
        for ib, b in enumerate(B):
            got = results[ia][ib]
            exact = fn(a, b)
            if where[a, b] in finished:
                ok(canon(got) == canon(exact), ("exact", a, b, got, exact))
                n_exact += 1
            else:
                exp = placeholder_for(exact)
                ok(canon(got) == canon(exp), ("missing", a, b, got, exp))
    return n_exact


# ------------------------------ raw reaping -------------------------------- #


def raw_partial_reaps(
    fn, A, B, crop_opts, shuffle=False, last_short=False, full_cycle=True,
    subsets=None,
):
    """For every non-empty proper subset of finished batches of a fresh crop:
    refusal, exact partial reap, nothing deleted, continue growing, exact
    full reap.
    """
    combos = [("a", A), ("b", B)]
    n_subsets = 0

    with tempfile.TemporaryDirectory() as td:
        with quiet():
            probe = Crop(fn=fn, name="probe", parent_dir=td, **crop_opts)
            probe.sow_combos(combos, shuffle=shuffle, verbosity=0)
        nb = probe.num_batches
        where, sizes = batch_of_each_case(probe)
        ok(sum(sizes.values()) == len(A) * len(B))
        ok(len(where) == len(A) * len(B))

    for finished in (proper_subsets(nb) if subsets is None else subsets):
        n_subsets += 1
        with tempfile.TemporaryDirectory() as td:
            with quiet():
                sower = Crop(fn=fn, name="c", parent_dir=td, **crop_opts)
                sower.sow_combos(combos, shuffle=shuffle, verbosity=0)
                sower.grow(finished, verbosity=0)
            ok(batch_of_each_case(sower)[0] == where)

            # a completely fresh handle on the crop, as another process has
            crop = Crop(name="c", parent_dir=td)
            ok(crop.num_batches == nb)
            missing = tuple(i for i in range(1, nb + 1) if i not in finished)
            ok(crop.missing_results() == missing)
            ok(crop.num_results == len(finished))
            ok(crop.num_sown_batches == nb)
            ok(not crop.is_ready_to_reap())

            assert_refused(crop)
            assert_refused(crop, wait=False, allow_incomplete=False)
            assert_refused(crop, clean_up=True)

            before = snapshot(crop.location)

            if last_short and (nb not in finished):
                # known quirk of this version: when ``batchsize`` does not
                # divide the number of cases and the short, last batch is
                # missing, too many placeholders are generated
                try:
                    with quiet():
                        crop.reap(allow_incomplete=True)
                except XYZError as e:
                    ok("Not all results reaped!" in str(e))
                else:
                    raise AssertionError("expected the known quirk")
                ok(snapshot(crop.location) == before)
                continue

            with quiet():
                res = crop.reap(allow_incomplete=True)
            n_exact = check_raw(res, fn, A, B, where, finished)
            ok(n_exact == sum(sizes[i] for i in finished))
            ok(snapshot(crop.location) == before, "partial reap touched crop")

            # the same through the explicit method, and a second time
            with quiet():
                res2 = crop.reap_combos(allow_incomplete=True, clean_up=False)
            ok(canon(res2) == canon(res))
            ok(snapshot(crop.location) == before)

            if not full_cycle:
                continue

            # growing can continue ...
            with quiet():
                crop.grow_missing(verbosity=0)
            ok(crop.missing_results() == ())
            ok(crop.is_ready_to_reap())
            after = snapshot(crop.location)
            ok(all(after[k] == v for k, v in before.items()))
            ok(len(after) == len(before) + len(missing))

            # ... a 'partial' reap of the now complete crop is exact and
            # still does not delete anything ...
            with quiet():
                res = crop.reap(allow_incomplete=True)
            check_raw(res, fn, A, B, where, set(range(1, nb + 1)))
            ok(snapshot(crop.location) == after)

            # ... and the later full reap is exact, and cleans up
            with quiet():
                res = Crop(name="c", parent_dir=td).reap()
            check_raw(res, fn, A, B, where, set(range(1, nb + 1)))
            ok(not os.path.exists(crop.location))

    return n_subsets


def run_raw_suite():
    A2, B3, B5 = [1, 2], [1, 2, 3], [1, 2, 3, 4, 5]
    total = 0

    # (fn, A, B, crop options, shuffle, last batch short)
    table = [
        (f_scalar, A2, B3, dict(batchsize=2), False, False),
        (f_scalar, A2, B3, dict(batchsize=2), True, False),
        (f_scalar, A2, B5, dict(num_batches=3), False, False),
        (f_scalar, A2, B5, dict(num_batches=3), 7, False),
        (f_scalar, A2, B5, dict(num_batches=4), True, False),
        (f_scalar, A2, B5, dict(batchsize=5), False, False),
        (f_scalar, A2, B5, dict(batchsize=3), False, True),
        (f_scalar, A2, B5, dict(batchsize=4), 3, True),
        (f_float, A2, B5, dict(num_batches=4), False, False),
        (f_array, A2, B5, dict(num_batches=3), False, False),
        (f_array_bool, A2, B5, dict(num_batches=4), True, False),
        (f_bool, A2, B5, dict(num_batches=3), False, False),
        (f_str, A2, B5, dict(num_batches=4), False, False),
        (f_str, A2, B3, dict(batchsize=1), True, False),
        (f_dataset, A2, B3, dict(batchsize=2), False, False),
        (f_dataset, A2, B5, dict(num_batches=3), 2, False),
    ]
    for fn, A, B, opts, shuffle, last_short in table:
        total += raw_partial_reaps(fn, A, B, opts, shuffle, last_short)

    # up to 7 batches, exhaustively (lighter cycle to keep this quick)
    B7 = [1, 2, 3, 4, 5, 6, 7]
    total += raw_partial_reaps(
        f_scalar, [1], B7, dict(batchsize=1), False, full_cycle=False
    )
    total += raw_partial_reaps(
        f_scalar, A2, B5, dict(num_batches=7), True, full_cycle=False
    )
    total += raw_partial_reaps(
        f_str, A2, B7, dict(num_batches=7), False, full_cycle=False,
        subsets=[(1,), (7,), (2, 3, 5), (1, 2, 3, 4, 5, 6), (2, 3, 4, 5, 6, 7)]
    )
    return total


def run_raw_cases_suite():
    """Crops sown from explicit cases rather than combos: the raw results are
    laid out on the (sorted a) x (sorted b) grid, positions which are not a
    case at all are always the placeholder.
    """
    cases = [(1, 5), (2, 4), (3, 3), (4, 2), (5, 1), (6, 0), (7, 9)]
    A = sorted(set(a for a, _ in cases))
    B = sorted(set(b for _, b in cases))

    def check(res, where, finished):
        ok(len(res) == len(A))
        for ia, a in enumerate(A):
            ok(len(res[ia]) == len(B))
            for ib, b in enumerate(B):
                got = res[ia][ib]
                if (a, b) in where and where[a, b] in finished:
                    ok(canon(got) == canon(f_scalar(a, b)), (a, b, got))
                else:
                    ok(canon(got) == ("nan",), (a, b, got))

    n = 0
    for opts in [dict(num_batches=3), dict(num_batches=4), dict(batchsize=1)]:
        with tempfile.TemporaryDirectory() as td:
            with quiet():
                probe = Crop(fn=f_scalar, name="p", parent_dir=td, **opts)
                probe.sow_cases(("a", "b"), cases, verbosity=0)
            nb = probe.num_batches
            where, sizes = batch_of_each_case(probe)
        ok(sorted(where) == sorted(cases))
        if nb == 7:
            subsets = [(1,), (7,), (2, 4, 6), (1, 2, 3, 4, 5, 6)]
        else:
            subsets = proper_subsets(nb)
        for finished in subsets:
            n += 1
            with tempfile.TemporaryDirectory() as td:
                with quiet():
                    crop = Crop(fn=f_scalar, name="c", parent_dir=td, **opts)
                    crop.sow_cases(("a", "b"), cases, verbosity=0)
                    crop.grow(finished, verbosity=0)
                assert_refused(crop)
                before = snapshot(crop.location)
                with quiet():
                    res = crop.reap(allow_incomplete=True)
                check(res, where, finished)
                ok(snapshot(crop.location) == before)
                with quiet():
                    crop.grow_missing(verbosity=0)
                    res = crop.reap()
                check(res, where, set(range(1, nb + 1)))
                ok(not os.path.exists(crop.location))
    return n


# ------------------------ Dataset / DataFrame reaping ---------------------- #


def check_ds(ds, fn, A, B, where, finished, kind):
    ok(isinstance(ds, xr.Dataset))
    ok(list(ds["a"].values) == list(A) and list(ds["b"].values) == list(B))
    for a in A:
        for b in B:
            done = where[a, b] in finished
            exact = fn(a, b)
            pt = ds.sel(a=a, b=b)
            if kind == "scalar":
                v = pt["x"].item()
                ok(v == exact if done else math.isnan(v), (a, b, v))
            elif kind == "str":
                v = pt["x"].item()
                if done:
                    ok(v == exact, (a, b, v))
                else:
                    ok(v is None or (isinstance(v, float) and math.isnan(v)))
            elif kind == "array":
                v = pt["x"].values
                ok(v.shape == (3,))
                ok(list(v) == exact if done else np.isnan(v).all(), (a, b, v))
            elif kind == "array_bool":
                v, w = pt["x"].values, pt["y"].item()
                ok(v.shape == (3,))
                if done:
                    ok(list(v) == exact[0] and w == exact[1], (a, b, v, w))
                else:
                    ok(np.isnan(v).all())
                    ok(w is None or math.isnan(w))
            elif kind == "dataset":
                v = pt["x"].values
                ok(v.shape == (2, 3))
                if done:
                    ok((v == exact["x"].values).all())
                else:
                    ok(np.isnan(v).all())
            else:
                raise ValueError(kind)


def check_df(df, fn, A, B, where, finished):
    ok(isinstance(df, pd.DataFrame))
    ok(len(df) == len(A) * len(B))
    seen = set()
    for _, row in df.iterrows():
        a, b = int(row["a"]), int(row["b"])
        seen.add((a, b))
        if where[a, b] in finished:
            ok(row["x"] == fn(a, b))
        else:
            ok(math.isnan(row["x"]))
    ok(seen == set(itertools.product(A, B)))


def labelled_partial_reaps(kind, crop_opts, shuffle=False, subsets=None):
    A, B = [1, 2], [1, 2, 3, 4, 5]
    combos = [("a", A), ("b", B)]
    fn, ropts = {
        "scalar": (f_scalar, dict(var_names="x")),
        "str": (f_str, dict(var_names="x")),
        "array": (
            f_array,
            dict(var_names="x", var_dims={"x": ["t"]},
                 var_coords={"t": [0, 1, 2]}),
        ),
        "array_bool": (
            f_array_bool,
            dict(var_names=["x", "y"], var_dims={"x": ["t"]},
                 var_coords={"t": [0, 1, 2]}),
        ),
        "dataset": (f_dataset, dict(var_names=None)),
    }[kind]

    with tempfile.TemporaryDirectory() as td:
        with quiet():
            probe = Runner(fn, **ropts).Crop(name="p", parent_dir=td,
                                             **crop_opts)
            probe.sow_combos(combos, shuffle=shuffle, verbosity=0)
        nb = probe.num_batches
        where, sizes = batch_of_each_case(probe)

    everything = set(range(1, nb + 1))
    n = 0
    for finished in (proper_subsets(nb) if subsets is None else subsets):
        n += 1
        with tempfile.TemporaryDirectory() as td:
            runner = Runner(fn, **ropts)
            with quiet():
                crop = runner.Crop(name="c", parent_dir=td, **crop_opts)
                crop.sow_combos(combos, shuffle=shuffle, verbosity=0)
                crop.grow(finished, verbosity=0)

            assert_refused(crop)
            before = snapshot(crop.location)

            # Dataset via the farmer dispatch of ``reap``
            with quiet():
                ds = crop.reap(allow_incomplete=True)
            check_ds(ds, fn, A, B, where, finished, kind)
            ok(runner.last_ds is ds)
            ok(snapshot(crop.location) == before)

            # Dataset via the explicit method
            with quiet():
                ds2 = crop.reap_combos_to_ds(allow_incomplete=True, **ropts)
            ok(ds2.identical(ds))
            ok(snapshot(crop.location) == before)

            # raw, from a labelled crop
            with quiet():
                raw = crop.reap_combos(allow_incomplete=True)
            check_raw(raw, fn, A, B, where, finished)
            ok(snapshot(crop.location) == before)

            # DataFrame
            if kind == "scalar":
                with quiet():
                    df = crop.reap_runner(
                        runner, allow_incomplete=True, to_df=True
                    )
                check_df(df, fn, A, B, where, finished)
                ok(runner._last_df is df)
                ok(snapshot(crop.location) == before)

            # continue growing, then the full reap is exact and cleans up
            with quiet():
                crop.grow_missing(verbosity=0)
                ds = crop.reap(allow_incomplete=True)
            check_ds(ds, fn, A, B, where, everything, kind)
            ok(os.path.isdir(crop.location))
            with quiet():
                if kind == "scalar" and len(finished) % 2:
                    df = crop.reap_runner(runner, to_df=True)
                    check_df(df, fn, A, B, where, everything)
                else:
                    ds = crop.reap()
                    check_ds(ds, fn, A, B, where, everything, kind)
            ok(not os.path.exists(crop.location))
    return n


def run_labelled_suite():
    n = 0
    n += labelled_partial_reaps("scalar", dict(num_batches=3))
    n += labelled_partial_reaps("scalar", dict(num_batches=4), shuffle=True)
    n += labelled_partial_reaps("scalar", dict(batchsize=5), shuffle=3)
    n += labelled_partial_reaps("str", dict(num_batches=3))
    n += labelled_partial_reaps("array", dict(num_batches=4))
    n += labelled_partial_reaps("array_bool", dict(num_batches=3), True)
    n += labelled_partial_reaps("dataset", dict(num_batches=4))
    n += labelled_partial_reaps(
        "scalar", dict(num_batches=7),
        subsets=[(4,), (1, 7), (2, 3, 4, 5, 6, 7), (1, 2, 3, 4, 5, 6)],
    )
    return n


def run_harvester_sampler_suite():
    A, B = [1, 2], [1, 2, 3, 4, 5]
    combos = [("a", A), ("b", B)]
    n = 0

    # Harvester: partial dataset is merged to disk, crop is kept; once grown
    # fully the complete data overwrite-merges and the crop is cleaned up
    for finished in proper_subsets(3):
        for clean_up in (None, False):
            n += 1
            with tempfile.TemporaryDirectory() as td:
                runner = Runner(f_scalar, var_names="x")
                harvester = Harvester(runner, os.path.join(td, "h.h5"))
                with quiet():
                    crop = harvester.Crop(name="c", parent_dir=td,
                                          num_batches=3)
                    crop.sow_combos(combos, verbosity=0)
                    crop.grow(finished, verbosity=0)
                where, _ = batch_of_each_case(crop)
                assert_refused(crop)
                before = snapshot(crop.location)
                with quiet():
                    ds = crop.reap(allow_incomplete=True, clean_up=clean_up)
                check_ds(ds, f_scalar, A, B, where, finished, "scalar")
                check_ds(harvester.full_ds, f_scalar, A, B, where, finished,
                         "scalar")
                ok(snapshot(crop.location) == before)
                with quiet():
                    crop.grow_missing(verbosity=0)
                    ds = crop.reap()
                check_ds(ds, f_scalar, A, B, where, {1, 2, 3}, "scalar")
                check_ds(harvester.full_ds, f_scalar, A, B, where, {1, 2, 3},
                         "scalar")
                ok(not os.path.exists(crop.location))

    # Sampler: dataframe of random samples
    for finished in proper_subsets(3):
        n += 1
        with tempfile.TemporaryDirectory() as td:
            runner = Runner(f_scalar, var_names="x")
            sampler = Sampler(
                runner, os.path.join(td, "s.pkl"),
                default_combos={"a": [1, 2, 3], "b": [4, 5, 6, 7]},
            )
            with quiet():
                crop = sampler.Crop(name="c", parent_dir=td, num_batches=3)
                crop.sow_samples(8, verbosity=0)
                crop.grow(finished, verbosity=0)
            # which sample (row) is in which batch
            rows = []
            for i in range(1, 4):
                for kws in read_from_disk(os.path.join(
                    crop.location, "batches", "xyz-batch-%d.jbdmp" % i
                )):
                    rows.append((i, kws["a"], kws["b"]))
            ok(len(rows) == 8)
            assert_refused(crop)
            before = snapshot(crop.location)
            with quiet():
                df = crop.reap(allow_incomplete=True)
            ok(len(df) == 8)
            for (i, a, b), (_, row) in zip(rows, df.iterrows()):
                ok((row["a"], row["b"]) == (a, b))
                if i in finished:
                    ok(row["x"] == f_scalar(a, b))
                else:
                    ok(math.isnan(row["x"]))
            ok(snapshot(crop.location) == before)
            with quiet():
                crop.grow_missing(verbosity=0)
                df = crop.reap_samples(sampler, sync=False)
            ok(len(df) == 8)
            for (i, a, b), (_, row) in zip(rows, df.iterrows()):
                ok((row["a"], row["b"], row["x"]) == (a, b, f_scalar(a, b)))
            ok(not os.path.exists(crop.location))
    return n


def run_core():
    counts = {}
    counts["raw"] = run_raw_suite()
    counts["raw_cases"] = run_raw_cases_suite()
    counts["labelled"] = run_labelled_suite()
    counts["harvester_sampler"] = run_harvester_sampler_suite()
    return counts


# ------------- extras: the Reaper (lazy loader of batch results) ----------- #


class _Missing(object):
    def __repr__(self):
        return "<MISSING>"


def reaper_collect(crop, n, **reaper_opts):
    with Reaper(crop, num_batches=crop.num_batches, **reaper_opts) as reap_fn:
        ok(reap_fn.crop is crop)
        # arbitrary keyword arguments are ignored, results come in sown order
        return [reap_fn(a=i, anything="goes") for i in range(n)]


def run_reaper_direct_suite():
    A, B = [1, 2], [1, 2, 3, 4, 5]
    combos = [("a", A), ("b", B)]
    N = len(A) * len(B)
    n = 0

    for opts, shuffle in [
        (dict(num_batches=3), False),
        (dict(num_batches=4), True),
        (dict(batchsize=5), False),
        (dict(num_batches=7), 5),
        (dict(batchsize=1), False),
    ]:
        with tempfile.TemporaryDirectory() as td:
            with quiet():
                crop = Crop(fn=f_scalar, name="c", parent_dir=td, **opts)
                crop.sow_combos(combos, shuffle=shuffle, verbosity=0)
            nb = crop.num_batches
            # the sown order of the cases, batch by batch
            sown = []
            for i in range(1, nb + 1):
                for kws in read_from_disk(os.path.join(
                    crop.location, "batches", "xyz-batch-%d.jbdmp" % i
                )):
                    sown.append((i, kws["a"], kws["b"]))
            ok(len(sown) == N)
            resdir = os.path.join(crop.location, "results")

            # includes the empty and the full set of finished batches here,
            # since an explicit default needs no finished result to infer from
            ids = range(1, nb + 1)
            all_subsets = itertools.chain.from_iterable(
                itertools.combinations(ids, k) for k in range(nb + 1)
            )
            if nb > 5:
                all_subsets = [s for j, s in enumerate(all_subsets)
                               if j % 5 == 0 or len(s) in (0, 1, nb - 1, nb)]
            for finished in all_subsets:
                n += 1
                for f in os.listdir(resdir):
                    os.remove(os.path.join(resdir, f))
                with quiet():
                    crop.grow(finished, verbosity=0)
                before = snapshot(crop.location)

                for default in (_Missing(), None, np.nan, "n/a"):
                    got = reaper_collect(crop, N, default_result=default)
                    for (i, a, b), g in zip(sown, got):
                        if i in finished:
                            ok(g == f_scalar(a, b))
                        else:
                            ok(g is default)
                    ok(snapshot(crop.location) == before)

                # asking for too few results is detected on exit
                if N > 1:
                    try:
                        reaper_collect(crop, N - 1, default_result=None)
                    except XYZError as e:
                        ok("Not all results reaped!" in str(e))
                    else:
                        raise AssertionError("leftovers not detected")

                # asking for too many as well (generator exhausted)
                try:
                    reaper_collect(crop, N + 1, default_result=None)
                except StopIteration:
                    ok(True)
                else:
                    raise AssertionError("expected StopIteration")

                # without a default a missing file is an error when (and only
                # when) its first result is asked for
                reaper = Reaper(crop, num_batches=nb)
                first_missing = next(
                    (j for j, (i, _, _) in enumerate(sown)
                     if i not in finished), None
                )
                got = []
                try:
                    for j in range(N):
                        got.append(reaper())
                except Exception as e:
                    ok(not isinstance(e, XYZError))
                    ok(len(got) == first_missing, (len(got), first_missing))
                else:
                    ok(first_missing is None)
                    ok(reaper.__exit__(None, None, None) is None)
                ok(got == [f_scalar(a, b) for _, a, b in sown[:len(got)]])
                ok(snapshot(crop.location) == before)
    return n


def run_reaper_bad_files_suite():
    combos = [("a", [1, 2]), ("b", [1, 2, 3])]
    with tempfile.TemporaryDirectory() as td:
        with quiet():
            crop = Crop(fn=f_scalar, name="c", parent_dir=td, batchsize=2)
            crop.sow_combos(combos, verbosity=0)
            crop.grow([1, 3], verbosity=0)
        bad = os.path.join(crop.location, "results", "xyz-result-2.jbdmp")
        # infer (and cache) the placeholder from the good results only
        ok(math.isnan(crop.all_nan_result))

        for content in ((), [], None):
            cropping.write_to_disk(content, bad)
            for opts in (dict(), dict(default_result=None), dict(wait=True),
                         dict(wait=True, default_result=np.nan)):
                try:
                    reaper_collect(crop, 6, **opts)
                except ValueError as e:
                    ok("Something not right: result" in str(e))
                    ok(bad in str(e))
                    ok("no data upon read from disk." in str(e))
                else:
                    raise AssertionError("empty result file not detected")
            # ... including through the public API
            for kws in (dict(), dict(allow_incomplete=True), dict(wait=True)):
                try:
                    with quiet():
                        crop.reap(**kws)
                except ValueError as e:
                    ok(bad in str(e))
                else:
                    raise AssertionError("empty result file not detected")
            ok(os.path.isfile(bad))

        # when waiting, something which is not a file is an error
        os.remove(bad)
        os.mkdir(bad)
        for opts in (dict(wait=True), dict(wait=True, default_result=None)):
            try:
                reaper_collect(crop, 6, **opts)
            except ValueError as e:
                ok(str(e) == "{} is not a file.".format(bad))
            else:
                raise AssertionError("directory not detected")
        # when not waiting it simply counts as missing
        got = reaper_collect(crop, 6, default_result="?")
        ok(got == [11, 12, "?", "?", 22, 23])
        os.rmdir(bad)
    return 1


def run_reaper_wait_suite():
    """wait=True never substitutes placeholders: it blocks until the batch
    appears, whether or not allow_incomplete is also given.
    """
    A, B = [1, 2], [1, 2, 3, 4, 5]
    combos = [("a", A), ("b", B)]
    n = 0
    for kws, deleted in [
        (dict(wait=True), True),
        (dict(wait=True, allow_incomplete=True), False),
        (dict(wait=True, allow_incomplete=True, clean_up=True), True),
        (dict(wait=True, clean_up=False), False),
    ]:
        n += 1
        with tempfile.TemporaryDirectory() as td:
            with quiet():
                crop = Crop(fn=f_scalar, name="c", parent_dir=td,
                            num_batches=4)
                crop.sow_combos(combos, verbosity=0)
                crop.grow([2, 4], verbosity=0)
            where, _ = batch_of_each_case(crop)
            other = Crop(name="c", parent_dir=td)

            def late_grower():
                time.sleep(0.5)
                other.grow([3], verbosity=0)
                time.sleep(0.3)
                other.grow([1], verbosity=0)

            th = threading.Thread(target=late_grower)
            t0 = time.time()
            th.start()
            try:
                with quiet():
                    res = crop.reap(**kws)
            finally:
                th.join()
            ok(time.time() - t0 >= 0.5)
            check_raw(res, f_scalar, A, B, where, {1, 2, 3, 4})
            ok(os.path.exists(crop.location) == (not deleted))
    return n


def run_extras():
    return {
        "reaper_direct": run_reaper_direct_suite(),
        "reaper_bad_files": run_reaper_bad_files_suite(),
        "reaper_wait": run_reaper_wait_suite(),
    }


if __name__ == "__main__":
    t0 = time.time()
    counts = run_core()
    counts.update(run_extras())
    print("scenarios:", counts)
    print("checks: %d in %.1fs" % (CHECKS[0], time.time() - t0))
    print("PASS")
    sys.exit(0)
