"""Demo / check for property C18 (infiniplot draws each data slice once,
correctly styled and correctly placed).

Run as:  cd <worktree> && /venv/bin/python /path/to/demo.py

The checks use an oracle that is computed independently (numpy level) from the
*input* dataset and compared with the matplotlib artists that infiniplot
created: the number of lines in each panel, their x / y data, their styles,
error bars / bands, heat-map meshes and histogram values.
"""

import os
import sys

sys.path.insert(0, os.getcwd())

import itertools
import shutil
import tempfile
import warnings

import matplotlib

matplotlib.use("Agg")

import numpy as np
import xarray as xr
from matplotlib import colors as mcolors
from matplotlib import pyplot as plt
from matplotlib.collections import QuadMesh

import xyzpy
from xyzpy.plot import infiniplot as ipmod
from xyzpy.plot.plotter_matplotlib import to_colors

assert os.path.abspath(xyzpy.__file__).startswith(os.getcwd()), xyzpy.__file__

warnings.simplefilter("ignore")

N_CHECKS = 0


def check(cond, msg=""):
    global N_CHECKS
    N_CHECKS += 1
    if not cond:
        raise AssertionError(msg)


def eqnan(a, b):
    a = np.asarray(a)
    b = np.asarray(b)
    if a.shape != b.shape:
        return False
    if a.dtype.kind in "fc" or b.dtype.kind in "fc":
        return bool(np.array_equal(a, b, equal_nan=True))
    return bool(np.array_equal(a, b))


def closenan(a, b):
    a = np.asarray(a, dtype=float)
    b = np.asarray(b, dtype=float)
    return a.shape == b.shape and bool(
        np.allclose(a, b, rtol=1e-12, atol=1e-12, equal_nan=True)
    )


# --------------------------------------------------------------------------- #
#                                  datasets                                   #
# --------------------------------------------------------------------------- #


def make_ds(seed=0, nan_pattern="scattered"):
    """4 dimensional dataset (a, b, c, x) with a repeat dimension (r)."""
    rng = np.random.default_rng(seed)
    shape = (3, 2, 2, 7, 4)
    y = rng.normal(size=shape)
    e = rng.uniform(0.1, 0.5, size=shape)
    if nan_pattern == "scattered":
        # gaps in the middle of some lines
        y[0, 0, 0, 2, :] = np.nan
        y[1, 1, 0, 0, :] = np.nan
        y[1, 1, 0, 6, :] = np.nan
        y[2, 0, 1, 3:5, :] = np.nan
        y[0, 1, 1, 1, 0] = np.nan
        # a whole slice that has no data at all -> must not be drawn
        y[2, 1, 1, :, :] = np.nan
    elif nan_pattern == "dead_coord":
        # coordinate a=20 has no data at all -> dropped from the mapping
        y[1] = np.nan
        y[0, 0, 1, 4, :] = np.nan
    ds = xr.Dataset(
        {
            "y": (("a", "b", "c", "x", "r"), y),
            "e": (("a", "b", "c", "x", "r"), e),
            "unused": (("a", "q"), rng.normal(size=(3, 2))),
        },
        coords={
            "a": [10, 20, 30],
            "b": ["p", "q"],
            "c": [0.5, 1.5],
            "x": np.linspace(0.0, 3.0, 7),
            "r": np.arange(4),
            "q": [0, 1],
        },
    )
    return ds


def make_ds_xvar(seed=1):
    """x is itself a data variable, linked to y through dimension 't'."""
    rng = np.random.default_rng(seed)
    shape = (2, 3, 6)
    xv = np.cumsum(rng.uniform(0.1, 1.0, size=shape), axis=-1)
    yv = rng.normal(size=shape)
    xv[0, 1, 2] = np.nan
    yv[0, 1, 4] = np.nan
    yv[1, 2, 0] = np.nan
    yv[1, 0, :] = np.nan
    return xr.Dataset(
        {
            "xv": (("a", "b", "t"), xv),
            "yv": (("a", "b", "t"), yv),
        },
        coords={"a": ["A", "B"], "b": [1, 2, 3], "t": np.arange(6)},
    )


def make_ds_heat(seed=2):
    rng = np.random.default_rng(seed)
    shape = (2, 3, 5, 4, 3)
    z = rng.normal(size=shape)
    z[0, 0, 1, 2, :] = np.nan
    z[1, 2, 3, 0, 1] = np.nan
    z[1, 1, :, 3, :] = np.nan
    return xr.Dataset(
        {"z": (("a", "b", "x", "y", "r"), z)},
        coords={
            "a": ["A", "B"],
            "b": [1, 2, 3],
            "x": np.arange(5.0),
            "y": np.arange(4.0) * 2.0,
            "r": np.arange(3),
        },
    )


# --------------------------------------------------------------------------- #
#                               oracle: lines                                 #
# --------------------------------------------------------------------------- #

STYLE_PROPS = (
    "hue",
    "color",
    "marker",
    "markersize",
    "markeredgecolor",
    "linestyle",
    "linewidth",
)


def fused_name(dim):
    if isinstance(dim, (tuple, list)):
        return ", ".join(dim)
    return dim


def prepare(ds, variables, mapping, orders, agg=None):
    """Reduce the dataset to the relevant variables, fuse, order, and drop
    coordinates without data -- what remains must be drawn."""
    d = ds[list(variables)]
    for prop in STYLE_PROPS + ("col", "row"):
        dim = mapping.get(prop)
        if dim is None:
            continue
        if isinstance(dim, (tuple, list)) and fused_name(dim) not in d.dims:
            d = d.stack({fused_name(dim): list(dim)})
        dim = fused_name(dim)
        if orders.get(prop) is not None:
            d = d.sel({dim: list(orders[prop])})
        d = d.dropna(dim, how="all")
    return d


def expected_lines(d, x, y, line_dim, mapping, jam):
    """All (panel, coords, xdata, ydata, mask) that should be drawn."""
    other = [k for k in d[y].dims if k != line_dim]
    x_is_var = x in d.data_vars
    out = []
    row = fused_name(mapping.get("row"))
    col = fused_name(mapping.get("col"))
    for idx in itertools.product(*(range(d.sizes[k]) for k in other)):
        loc = dict(zip(other, idx))
        sl = d.isel(loc)
        yv = np.array(sl[y].transpose(line_dim).values)
        xv = np.array(sl[x].values)
        mask = ~np.isnan(yv)
        if x_is_var:
            mask &= ~np.isnan(xv)
        if not mask.any():
            continue
        if jam:
            xd, yd = xv[mask], yv[mask]
        else:
            xd, yd = xv, yv
        panel = (
            loc[row] if row is not None else 0,
            loc[col] if col is not None else 0,
        )
        coords = {k: d[k].values[i] for k, i in loc.items()}
        out.append(
            dict(panel=panel, loc=loc, coords=coords, x=xd, y=yd, mask=mask)
        )
    return out


def data_lines(ax):
    """The Line2D objects made by ``ax.plot`` (not error bar caps)."""
    caps = set()
    for cont in ax.containers:
        for cap in cont.lines[1]:
            caps.add(id(cap))
    return [ln for ln in ax.lines if id(ln) not in caps]


def dash_of(ln):
    pat = getattr(ln, "_unscaled_dash_pattern", None)
    if pat is None:
        return ln.get_linestyle()
    off, seq = pat
    return (off, None if seq is None else tuple(seq))


def style_of(ln):
    return {
        "color": tuple(np.round(mcolors.to_rgba(ln.get_color()), 12)),
        "marker": ln.get_marker(),
        "markersize": float(ln.get_markersize()),
        "markeredgecolor": tuple(
            np.round(mcolors.to_rgba(ln.get_markeredgecolor()), 12)
        ),
        "linestyle": dash_of(ln),
        "linewidth": float(ln.get_linewidth()),
    }


def hashable(v):
    if isinstance(v, np.ndarray):
        return tuple(v.tolist())
    if isinstance(v, tuple):
        return tuple(hashable(u) for u in v)
    if isinstance(v, np.generic):
        return v.item()
    return v


def same_style(a, b):
    try:
        return closenan(a, b)
    except (TypeError, ValueError):
        return a == b


def match_lines(axs, expected):
    """Match every expected slice with exactly one drawn line, in the right
    panel, with exactly the right data. Return list of (expected, line)."""
    nrow, ncol = axs.shape
    matched = []
    for i in range(nrow):
        for j in range(ncol):
            exp_here = [e for e in expected if e["panel"] == (i, j)]
            lines = data_lines(axs[i, j])
            check(
                len(lines) == len(exp_here),
                f"panel {(i, j)}: {len(lines)} lines drawn, "
                f"{len(exp_here)} expected",
            )
            used = set()
            for e in exp_here:
                found = [
                    k
                    for k, ln in enumerate(lines)
                    if k not in used
                    and eqnan(ln.get_xdata(orig=True), e["x"])
                    and eqnan(ln.get_ydata(orig=True), e["y"])
                ]
                check(
                    len(found) == 1,
                    f"panel {(i, j)} slice {e['coords']}: "
                    f"{len(found)} matching lines",
                )
                used.add(found[0])
                matched.append((e, lines[found[0]]))
            # the order of drawing follows the order of the coordinates
            order = [
                next(
                    k
                    for k, ln in enumerate(lines)
                    if ln is m[1]
                )
                for m in matched
                if m[0]["panel"] == (i, j)
            ]
            check(order == sorted(order), f"panel {(i, j)} draw order {order}")
    panels = {e["panel"] for e in expected}
    check(all(p[0] < nrow and p[1] < ncol for p in panels))
    return matched


def check_styles(matched, mapping, custom=None, limits=None):
    """Equal mapped coordinates share a style, different ones differ."""
    custom = custom or {}
    hue = fused_name(mapping.get("hue"))
    color = fused_name(mapping.get("color"))
    if hue is not None and color is None:
        # only one given: hue acts as color
        color, hue = hue, None

    seen = {}
    for prop in STYLE_PROPS[1:]:
        dim = fused_name(mapping.get(prop)) if prop != "color" else color
        if dim is None:
            continue
        table = {}
        for e, ln in matched:
            if prop == "color" and hue is not None:
                key = (hashable(e["coords"][hue]), hashable(e["coords"][dim]))
            else:
                key = hashable(e["coords"][dim])
            val = hashable(style_of(ln)[prop])
            if key in table:
                check(
                    table[key] == val,
                    f"{prop}: coordinate {key} drawn with two styles "
                    f"{table[key]} and {val}",
                )
            else:
                table[key] = val
        nmax = {"marker": 15, "linestyle": 6}.get(prop, 10**6)
        if len(table) <= nmax:
            check(
                len(set(table.values())) == len(table),
                f"{prop}: different coordinates share a style: {table}",
            )
        seen[prop] = table
        if prop in custom:
            for key, val in table.items():
                check(
                    same_style(val, hashable(custom[prop][key])),
                    f"{prop}: {key} -> {val} != {custom[prop][key]}",
                )

    # labels name the style-mapped coordinates of the slice
    for e, ln in matched:
        parts = []
        done = set()
        for prop in ("hue", "color") + STYLE_PROPS[2:4] + (
            "markeredgecolor",
            "linewidth",
            "linestyle",
        ):
            if prop == "hue":
                dim = hue
            elif prop == "color":
                dim = color
            else:
                dim = fused_name(mapping.get(prop))
            if dim is None or dim in done:
                continue
            done.add(dim)
            parts.append(str(e["coords"][dim]))
        if parts:
            check(
                ln.get_label() == ", ".join(parts),
                f"label {ln.get_label()!r} != {', '.join(parts)!r}",
            )
        else:
            # matplotlib names unlabelled lines itself
            check(ln.get_label().startswith("_"), ln.get_label())
    return seen


def run_lines(
    ds,
    x,
    y,
    line_dim=None,
    mapping=None,
    orders=None,
    jam=False,
    custom=None,
    extra=None,
    expect_custom=None,
):
    mapping = dict(mapping or {})
    orders = dict(orders or {})
    extra = dict(extra or {})
    line_dim = line_dim or x
    before = ds.copy(deep=True)

    kwargs = {}
    for prop, dim in mapping.items():
        kwargs[prop] = dim
    for prop, order in orders.items():
        kwargs[f"{prop}_order"] = order
    for prop, vals in (custom or {}).items():
        kwargs[f"{prop}s"] = vals
    kwargs.update(extra)

    fig, axs = xyzpy.infiniplot(
        ds, x, y, join_across_missing=jam, **kwargs
    )
    try:
        check(ds.identical(before), "input dataset was modified")
        variables = [y] + ([x] if x in ds.data_vars else [])
        if isinstance(extra.get("err"), str):
            variables.append(extra["err"])
        d = prepare(ds, variables, mapping, orders)
        exp = expected_lines(d, x, y, line_dim, mapping, jam)
        row = fused_name(mapping.get("row"))
        col = fused_name(mapping.get("col"))
        check(
            axs.shape
            == (
                d.sizes[row] if row is not None else 1,
                d.sizes[col] if col is not None else 1,
            ),
            f"axs shape {axs.shape}",
        )
        matched = match_lines(axs, exp)
        seen = check_styles(matched, mapping, expect_custom)
        return fig, axs, d, matched, seen
    except BaseException:
        plt.close("all")
        raise


# --------------------------------------------------------------------------- #
#                                 line tests                                  #
# --------------------------------------------------------------------------- #


def test_lines_mappings():
    ds = make_ds(0).isel(r=0)
    dims = ["a", "b", "c"]
    props = [
        "color",
        "hue",
        "marker",
        "linestyle",
        "linewidth",
        "markersize",
        "row",
        "col",
    ]

    ncases = 0
    # every injective assignment of (a, b, c) to a spread of property triples
    triples = list(itertools.permutations(props, 3))
    rng = np.random.default_rng(42)
    picks = rng.choice(len(triples), size=36, replace=False)
    for k in sorted(picks):
        mapping = dict(zip(triples[k], dims))
        for jam in (False, True):
            run_lines(ds, "x", "y", mapping=mapping, jam=jam)
            plt.close("all")
            ncases += 1

    # single and pair assignments, remaining dims are drawn unstyled
    for prop in props:
        run_lines(ds, "x", "y", mapping={prop: "a"})
        plt.close("all")
        run_lines(ds, "x", "y", mapping={prop: "b", "row": "c"}, jam=True)
        plt.close("all")
        ncases += 2

    # no mapping at all
    run_lines(ds, "x", "y")
    plt.close("all")

    # the same dimension mapped to several properties
    run_lines(
        ds,
        "x",
        "y",
        mapping={"color": "a", "marker": "a", "linestyle": "b", "col": "c"},
    )
    plt.close("all")
    run_lines(
        ds,
        "x",
        "y",
        mapping={"hue": "a", "color": "b", "marker": "b", "linewidth": "a"},
    )
    plt.close("all")

    # four dimensions mapped
    ds4 = make_ds(3)
    for mapping in (
        {"color": "a", "marker": "b", "row": "c", "col": "r"},
        {"hue": "r", "color": "a", "linestyle": "b", "markersize": "c"},
        {"row": "a", "col": "b", "linewidth": "r", "marker": "c"},
    ):
        for jam in (False, True):
            run_lines(ds4, "x", "y", mapping=mapping, jam=jam)
            plt.close("all")
    return ncases


def test_lines_defaults_and_custom():
    ds = make_ds(5).isel(r=1)

    # default styles are exactly the documented defaults
    fig, axs, d, matched, seen = run_lines(
        ds,
        "x",
        "y",
        mapping={
            "marker": "a",
            "linestyle": "a",
            "linewidth": "a",
            "markersize": "a",
            "row": "b",
            "col": "c",
        },
    )
    avals = [10, 20, 30]
    for i, a in enumerate(avals):
        check(seen["marker"][a] == ipmod._MARKERS_DEFAULT[i])
        check(seen["linewidth"][a] == float(np.linspace(1.0, 3.0, 3)[i]))
        check(seen["markersize"][a] == float(np.linspace(3.0, 9.0, 3)[i]))
    check(seen["linestyle"][10] == (0, None))
    check(seen["linestyle"][20] == (0.0, (3, 1)))
    check(seen["linestyle"][30] == (0.5, (1, 1)))
    plt.close("all")

    # custom values
    run_lines(
        ds,
        "x",
        "y",
        mapping={"color": "a", "marker": "b", "linewidth": "c"},
        custom={
            "color": ["red", "green", "blue"],
            "marker": ["s", "^"],
            "linewidth": [0.5, 4.0],
        },
        expect_custom={
            "color": {
                10: mcolors.to_rgba("red"),
                20: mcolors.to_rgba("green"),
                30: mcolors.to_rgba("blue"),
            },
            "marker": {"p": "s", "q": "^"},
            "linewidth": {0.5: 0.5, 1.5: 4.0},
        },
    )
    plt.close("all")

    # palette on / off for colour
    for palette in (None, "viridis", "magma"):
        fig, axs, d, matched, seen = run_lines(
            ds,
            "x",
            "y",
            mapping={"color": "a", "col": "b"},
            extra={"palette": palette},
        )
        if palette is not None:
            cmap = matplotlib.colormaps[palette]
            for a, v in zip(avals, np.linspace(0.0, 1.0, 3)):
                check(closenan(seen["color"][a], cmap(v)))
        plt.close("all")

    # hue + color: each hue has its own colormap
    run_lines(
        ds, "x", "y", mapping={"hue": "b", "color": "a", "row": "c"}
    )
    plt.close("all")
    run_lines(
        ds,
        "x",
        "y",
        mapping={"hue": "b", "color": "a"},
        custom={"hue": [0.1, 0.7]},
    )
    plt.close("all")

    # constant (non-dimension) values for a property
    fig, axs, d, matched, seen = run_lines(
        ds,
        "x",
        "y",
        mapping={"row": "a"},
        extra={"marker": "D", "color": "black", "linewidth": 2.5},
    )
    for e, ln in matched:
        st = style_of(ln)
        check(st["marker"] == "D")
        check(st["linewidth"] == 2.5)
        check(st["color"] == mcolors.to_rgba("black"))
    plt.close("all")


def test_lines_orders_fused_dead():
    ds = make_ds(7).isel(r=2)

    # explicit orders (also sub-selection)
    fig, axs, d, matched, seen = run_lines(
        ds,
        "x",
        "y",
        mapping={"marker": "a", "row": "b", "col": "c"},
        orders={"marker": [30, 10], "row": ["q", "p"], "col": [1.5]},
    )
    check(seen["marker"][30] == ipmod._MARKERS_DEFAULT[0])
    check(seen["marker"][10] == ipmod._MARKERS_DEFAULT[1])
    check(axs.shape == (2, 1))
    for e, ln in matched:
        check(e["coords"]["b"] == ["q", "p"][e["panel"][0]])
    plt.close("all")

    # fused dimensions
    for mapping in (
        {"color": ("a", "b"), "row": "c"},
        {"row": ("b", "c"), "marker": "a"},
        {"marker": ["a", "c"], "col": "b"},
        {"linestyle": ("b", "c"), "color": "a"},
    ):
        for jam in (False, True):
            run_lines(ds, "x", "y", mapping=mapping, jam=jam)
            plt.close("all")

    # a coordinate with no data at all is dropped from the mapping
    dsd = make_ds(8, "dead_coord").isel(r=0)
    fig, axs, d, matched, seen = run_lines(
        dsd, "x", "y", mapping={"marker": "a", "col": "b"}
    )
    check(sorted(seen["marker"]) == [10, 30])
    check(seen["marker"][30] == ipmod._MARKERS_DEFAULT[1])
    plt.close("all")
    fig, axs, d, matched, seen = run_lines(
        dsd, "x", "y", mapping={"row": "a", "color": "c"}, jam=True
    )
    check(axs.shape == (2, 1))
    plt.close("all")

    # x is a data variable, linked by xlink
    dsx = make_ds_xvar()
    for jam in (False, True):
        run_lines(
            dsx,
            "xv",
            "yv",
            line_dim="t",
            mapping={"color": "a", "marker": "b"},
            jam=jam,
            extra={"xlink": "t"},
        )
        plt.close("all")
        run_lines(
            dsx,
            "xv",
            "yv",
            line_dim="t",
            mapping={"row": "a", "col": "b"},
            jam=jam,
            extra={"xlink": "t"},
        )
        plt.close("all")

    # supplied axes
    fig0, axs0 = plt.subplots(2, 2, squeeze=False)
    fig, axs, d, matched, seen = run_lines(
        ds,
        "x",
        "y",
        mapping={"row": "b", "col": "c", "color": "a"},
        extra={"axs": axs0},
    )
    check(fig is None and axs is axs0)
    plt.close("all")

    # mapping to unknown property -> error with suggestion
    try:
        xyzpy.infiniplot(ds, "x", "y", colour="a")
    except ValueError as e:
        check("not valid" in str(e))
    else:
        check(False, "expected ValueError")
    plt.close("all")


# --------------------------------------------------------------------------- #
#                         error bars / bands / aggregate                      #
# --------------------------------------------------------------------------- #


def band_polys(ax):
    return [
        c
        for c in ax.collections
        if type(c).__name__ in ("FillBetweenPolyCollection", "PolyCollection")
    ]


def has_points(verts, xs, ys):
    ok = True
    for px, py in zip(xs, ys):
        if np.isnan(px) or np.isnan(py):
            continue
        ok &= bool(
            np.any(
                np.isclose(verts[:, 0], px, rtol=1e-12, atol=1e-12)
                & np.isclose(verts[:, 1], py, rtol=1e-12, atol=1e-12)
            )
        )
    return ok


def seg_is(seg, expected):
    """Error bar segments of missing points are drawn as empty segments."""
    expected = np.asarray(expected, dtype=float)
    if np.isnan(expected).any():
        return np.size(seg) == 0 or bool(np.isnan(seg).any())
    return closenan(seg, expected)


def all_verts(coll):
    return np.concatenate([p.vertices for p in coll.get_paths()], axis=0)


def test_err_from_variable():
    ds = make_ds(11).isel(r=0)
    for jam in (False, True):
        for style in (None, "bars", "band"):
            mapping = {"color": "a", "row": "b", "col": "c"}
            fig, axs, d, matched, seen = run_lines(
                ds,
                "x",
                "y",
                mapping=mapping,
                jam=jam,
                extra={"err": "e", "err_style": style},
            )
            for i, j in itertools.product(*map(range, axs.shape)):
                ax = axs[i, j]
                here = [m for m in matched if m[0]["panel"] == (i, j)]
                if style == "band":
                    polys = band_polys(ax)
                    check(len(polys) == len(here))
                    check(len(ax.containers) == 0)
                else:
                    check(len(ax.containers) == len(here))
                for n, (e, ln) in enumerate(here):
                    ev = d["e"].isel(e["loc"]).values
                    if jam:
                        ev = ev[e["mask"]]
                    lo, hi = e["y"] - ev, e["y"] + ev
                    if style == "band":
                        verts = all_verts(polys[n])
                        check(has_points(verts, e["x"], lo))
                        check(has_points(verts, e["x"], hi))
                        fc = polys[n].get_facecolor()[0]
                        check(
                            closenan(fc[:3], mcolors.to_rgb(ln.get_color()))
                        )
                        check(closenan(fc[3], 0.1))
                    else:
                        cont = ax.containers[n]
                        (bars,) = cont.lines[2]
                        segs = bars.get_segments()
                        good = np.ones(len(e["x"]), dtype=bool)
                        check(len(segs) == len(e["x"]))
                        for seg, px, pl, ph in zip(
                            segs, e["x"][good], lo[good], hi[good]
                        ):
                            check(seg_is(seg, [[px, pl], [px, ph]]))
                        check(
                            closenan(
                                mcolors.to_rgba(bars.get_color()[0]),
                                mcolors.to_rgba(ln.get_color()),
                            )
                        )
            plt.close("all")


def np_agg(vals, axis, method):
    fn = {
        "median": np.nanmedian,
        "mean": np.nanmean,
        "max": np.nanmax,
        "min": np.nanmin,
    }[method]
    with warnings.catch_warnings():
        warnings.simplefilter("ignore")
        return fn(vals, axis=axis)


def np_range(vals, axis, err_range):
    with warnings.catch_warnings():
        warnings.simplefilter("ignore")
        if err_range == "std":
            m = np.nanmean(vals, axis=axis)
            s = np.nanstd(vals, axis=axis)
            return m - s, m + s
        if err_range == "stderr":
            m = np.nanmean(vals, axis=axis)
            s = np.nanstd(vals, axis=axis) / np.sqrt(
                np.sum(~np.isnan(vals), axis=axis)
            )
            return m - s, m + s
        r = min(max(0.0, err_range), 1.0)
        return (
            np.nanquantile(vals, 0.5 - r / 2.0, axis=axis),
            np.nanquantile(vals, 0.5 + r / 2.0, axis=axis),
        )


def test_aggregate_lines():
    ds = make_ds(13)
    cases = [
        # (aggregate, mapping, method, err_range, err_style)
        (True, {"color": "a", "row": "b", "col": "c"}, "median", 0.5, None),
        (True, {"color": "a", "marker": "b"}, "mean", "std", None),
        ("r", {"color": "a", "row": "b", "col": "c"}, "mean", "stderr", None),
        (["r", "c"], {"marker": "a", "col": "b"}, "median", 1.0, "band"),
        (True, {"hue": "a", "color": "b", "row": "c"}, "max", 0.0, "bars"),
        ("r", {"linestyle": "a", "col": "b"}, "min", 0.8, "bars"),
        (True, {"col": "a"}, "median", 2.0, None),
        (True, {"color": ("a", "b")}, "mean", "std", "band"),
    ]
    for jam in (False, True):
        for agg, mapping, method, err_range, err_style in cases:
            before = ds.copy(deep=True)
            kwargs = dict(mapping)
            fig, axs = xyzpy.infiniplot(
                ds,
                "x",
                "y",
                aggregate=agg,
                aggregate_method=method,
                aggregate_err_range=err_range,
                err_style=err_style,
                join_across_missing=jam,
                **kwargs,
            )
            check(ds.identical(before), "input dataset was modified")

            d = prepare(ds, ["y"], mapping, {})
            mapped = {fused_name(v) for v in mapping.values()}
            if agg is True:
                agg_dims = sorted(set(d.dims) - mapped - {"x"})
            elif isinstance(agg, str):
                agg_dims = [agg]
            else:
                agg_dims = list(agg)
            keep = [k for k in d["y"].dims if k not in agg_dims]
            da = d["y"].transpose(*keep, *agg_dims)
            vals = da.values.reshape(
                tuple(d.sizes[k] for k in keep) + (-1,)
            )
            central = np_agg(vals, -1, method)
            lo, hi = np_range(vals, -1, err_range)
            coords = {k: d[k] for k in keep}
            dd = xr.Dataset(
                {
                    "y": (keep, central),
                    "lo": (keep, lo),
                    "hi": (keep, hi),
                },
                coords={k: d[k] for k in keep if k in d.coords},
            )
            exp = expected_lines(dd[["y"]], "x", "y", "x", mapping, jam)
            # data from the aggregation need only agree to rounding
            for e in exp:
                e["ql"] = dd["lo"].isel(e["loc"]).values
                e["qu"] = dd["hi"].isel(e["loc"]).values
                if jam:
                    e["ql"] = e["ql"][e["mask"]]
                    e["qu"] = e["qu"][e["mask"]]

            for i, j in itertools.product(*map(range, axs.shape)):
                ax = axs[i, j]
                here = [e for e in exp if e["panel"] == (i, j)]
                lines = data_lines(ax)
                check(len(lines) == len(here), f"{len(lines)} {len(here)}")
                for n, (e, ln) in enumerate(zip(here, lines)):
                    check(closenan(ln.get_xdata(orig=True), e["x"]))
                    check(closenan(ln.get_ydata(orig=True), e["y"]))
                    if err_style in (None, "band"):
                        polys = band_polys(ax)
                        check(len(polys) == len(here))
                        verts = all_verts(polys[n])
                        check(has_points(verts, e["x"], e["ql"]))
                        check(has_points(verts, e["x"], e["qu"]))
                    else:
                        check(len(ax.containers) == len(here))
                        (bars,) = ax.containers[n].lines[2]
                        segs = bars.get_segments()
                        good = np.ones(len(e["x"]), dtype=bool)
                        check(len(segs) == len(e["x"]))
                        y0 = e["y"][good]
                        neg = np.abs(y0 - e["ql"][good])
                        pos = np.abs(e["qu"][good] - y0)
                        for seg, px, py, pn, pp in zip(
                            segs, e["x"][good], y0, neg, pos
                        ):
                            check(
                                seg_is(seg, [[px, py - pn], [px, py + pp]])
                            )
            check(
                sum(len(data_lines(ax)) for ax in axs.flat) == len(exp)
            )
            plt.close("all")


# --------------------------------------------------------------------------- #
#                                  heat-map                                   #
# --------------------------------------------------------------------------- #


def test_heatmap():
    ds = make_ds_heat()
    cases = [
        # (dataset, mapping, aggregate, method)
        (ds.isel(r=0), {"row": "a", "col": "b"}, None, "median"),
        (ds.isel(r=1), {"col": "a", "row": "b"}, None, "median"),
        (ds.isel(r=1, a=0), {"col": "b"}, None, "median"),
        (ds.isel(r=2, a=1, b=0), {}, None, "median"),
        (ds, {"row": "a", "col": "b"}, True, "median"),
        (ds, {"row": "a", "col": "b"}, True, "mean"),
        (ds, {"col": "a"}, True, "mean"),
        (ds, {"row": ("a", "b")}, True, "median"),
        (ds, {"row": "b"}, ["a", "r"], "mean"),
        (ds.isel(r=0), {"row": "a", "col": "b"}, None, "median"),
    ]
    orders = [{}] * 9 + [{"row": ["B", "A"], "col": [3, 1]}]
    for (dsi, mapping, agg, method), order in zip(cases, orders):
        for palette in (None, "viridis"):
            before = dsi.copy(deep=True)
            kwargs = dict(mapping)
            for prop, o in order.items():
                kwargs[f"{prop}_order"] = o
            fig, axs = xyzpy.infiniplot(
                dsi,
                "x",
                "y",
                "z",
                aggregate=agg,
                aggregate_method=method,
                palette=palette,
                **kwargs,
            )
            check(dsi.identical(before), "input dataset was modified")

            d = prepare(dsi, ["z"], mapping, order)
            mapped = {fused_name(v) for v in mapping.values()}
            if agg is True:
                agg_dims = sorted(set(d.dims) - mapped - {"x", "y"})
            elif agg is None:
                agg_dims = []
            else:
                agg_dims = list(agg)
            keep = [k for k in d["z"].dims if k not in agg_dims + ["x", "y"]]
            da = d["z"].transpose(*keep, "y", "x", *agg_dims)
            vals = da.values
            if agg_dims:
                vals = vals.reshape(vals.shape[: len(keep) + 2] + (-1,))
                vals = np_agg(vals, -1, method)
            finite = vals[np.isfinite(vals)]
            max_mag = max(abs(finite.max()), abs(finite.min()))

            row = fused_name(mapping.get("row"))
            col = fused_name(mapping.get("col"))
            nrow = d.sizes[row] if row is not None else 1
            ncol = d.sizes[col] if col is not None else 1
            check(axs.shape == (nrow, ncol))

            for idx in itertools.product(*(range(d.sizes[k]) for k in keep)):
                loc = dict(zip(keep, idx))
                i = loc[row] if row is not None else 0
                j = loc[col] if col is not None else 0
                ax = axs[i, j]
                meshes = [c for c in ax.collections if isinstance(c, QuadMesh)]
                check(len(meshes) == 1, f"{len(meshes)} meshes in {(i, j)}")
                (mesh,) = meshes
                zexp = vals[idx]
                arr = mesh.get_array()
                if palette is None:
                    rgba = np.empty(zexp.shape + (4,))
                    m = np.isfinite(zexp)
                    rgba[m] = to_colors(
                        zexp[m], alpha_pow=0.0, max_mag=max_mag
                    )[0]
                    rgba[~m] = (0.5, 0.5, 0.5, 0.5)
                    check(closenan(np.asarray(arr), rgba))
                else:
                    check(
                        closenan(np.ma.filled(arr.astype(float), np.nan), zexp)
                    )
                    check(mesh.get_cmap().name == palette)
                    check(closenan(mesh.norm.vmin, finite.min()))
                    check(closenan(mesh.norm.vmax, finite.max()))
                # the mesh is centred on the x, y coordinates
                cc = mesh.get_coordinates()
                xs, ys = d["x"].values, d["y"].values
                check(cc.shape == (len(ys) + 1, len(xs) + 1, 2))
                xc = (cc[0, 1:, 0] + cc[0, :-1, 0]) / 2
                yc = (cc[1:, 0, 1] + cc[:-1, 0, 1]) / 2
                check(closenan(xc, xs))
                check(closenan(yc, ys))
            # no extra meshes anywhere
            check(
                sum(
                    isinstance(c, QuadMesh)
                    for ax in axs.flat
                    for c in ax.collections
                )
                == int(np.prod([d.sizes[k] for k in keep], dtype=int))
            )
            plt.close("all")

    # heat-map with unmapped dimensions warns and aggregates
    with warnings.catch_warnings(record=True) as w:
        warnings.simplefilter("always")
        fig, axs = xyzpy.infiniplot(ds, "x", "y", "z", row="a", col="b")
        check(any("aggregating over all unmapped" in str(x.message) for x in w))
    plt.close("all")

    # style properties cannot be mapped in heat-map mode
    for prop in ("color", "marker", "linestyle", "linewidth", "markersize"):
        try:
            xyzpy.infiniplot(ds.isel(r=0), "x", "y", "z", row="a", **{prop: "b"})
        except ValueError as e:
            expected = (
                "Heatmap: cannot map property `hue`."
                if prop == "hue"
                else f"Heatmap: cannot map property `{prop}`."
            )
            check(str(e) == expected, str(e))
        else:
            check(False, "expected ValueError")
        plt.close("all")


# --------------------------------------------------------------------------- #
#                                 histogram                                   #
# --------------------------------------------------------------------------- #


def test_histogram():
    ds = make_ds(17)
    cases = [
        {"color": "a", "row": "b"},
        {"col": "a", "linestyle": "c"},
        {"marker": ("a", "b")},
        {},
        {"row": "a", "col": "b", "color": "c", "linewidth": "r"},
    ]
    bins_opts = [
        np.linspace(-3.0, 3.0, 9),
        [-4.0, -1.0, -0.5, 0.0, 0.25, 1.0, 4.0],
        (-2.5, 0.0, 2.5),
    ]
    for mapping in cases:
        for bins in bins_opts:
            for density in (True, False):
                before = ds.copy(deep=True)
                fig, axs = xyzpy.infiniplot(
                    ds, "y", bins=bins, bins_density=density, **mapping
                )
                check(ds.identical(before), "input dataset was modified")
                d = prepare(ds, ["y"], mapping, {})
                mapped = [fused_name(v) for v in mapping.values()]
                rest = [k for k in d["y"].dims if k not in mapped]
                da = d["y"].transpose(*mapped, *rest)
                vals = da.values.reshape(
                    tuple(d.sizes[k] for k in mapped) + (-1,)
                )
                edges = np.asarray(bins, dtype=float)
                centres = (edges[1:] + edges[:-1]) / 2
                row = fused_name(mapping.get("row"))
                col = fused_name(mapping.get("col"))
                count = 0
                per_panel = {}
                for idx in itertools.product(
                    *(range(d.sizes[k]) for k in mapped)
                ):
                    loc = dict(zip(mapped, idx))
                    v = vals[idx]
                    h = np.histogram(
                        v[~np.isnan(v)], bins=edges, density=density
                    )[0]
                    panel = (
                        loc[row] if row is not None else 0,
                        loc[col] if col is not None else 0,
                    )
                    per_panel.setdefault(panel, [])
                    if np.isnan(np.asarray(h, dtype=float)).all():
                        # density of a slice without any data: nothing drawn
                        continue
                    per_panel[panel].append(h)
                    count += 1
                for (i, j), hs in per_panel.items():
                    lines = data_lines(axs[i, j])
                    check(len(lines) == len(hs), f"{len(lines)} {len(hs)}")
                    for ln, h in zip(lines, hs):
                        check(closenan(ln.get_xdata(orig=True), centres))
                        check(closenan(ln.get_ydata(orig=True), h))
                        check(ln.get_drawstyle() == "steps-mid")
                    check(len(band_polys(axs[i, j])) == len(hs))
                check(
                    sum(len(data_lines(ax)) for ax in axs.flat) == count
                )
                label = axs[-1, 0].get_xlabel()
                plt.close("all")

    # automatic / integer bins: either the true histogram or (with some
    # numpy / xarray version combinations) a ValueError from numpy.linspace
    for bins in (None, 5):
        before = ds.copy(deep=True)
        try:
            fig, axs = xyzpy.infiniplot(
                ds, "y", bins=bins, bins_density=False, color="a", row="b"
            )
        except ValueError:
            check(ds.identical(before))
        else:
            check(ds.identical(before))
            d = ds["y"]
            vmin, vmax = float(d.min()), float(d.max())
            nb = (
                bins
                if bins is not None
                else min(max(3, int((2 * 7 * 4) ** 0.5)), 50)
            )
            edges = np.linspace(vmin, vmax, nb + 1)
            for i, b in enumerate(["p", "q"]):
                lines = data_lines(axs[i, 0])
                check(len(lines) == 3)
                for ln, a in zip(lines, [10, 20, 30]):
                    v = d.sel(a=a, b=b).values.ravel()
                    h = np.histogram(v[~np.isnan(v)], bins=edges)[0]
                    check(closenan(ln.get_ydata(orig=True), h))
        plt.close("all")


def test_extras():
    """Panel titles / axis labels, default style cycles, clamped ranges."""
    ds = make_ds(19)

    # histogram axis labels name the density / counts of x
    for density, name in ((True, "prob(y)"), (False, "count(y)")):
        for ylabel in (None, "my label"):
            fig, axs = xyzpy.infiniplot(
                ds,
                "y",
                bins=np.linspace(-3, 3, 7),
                bins_density=density,
                row="a",
                col="b",
                ylabel=ylabel,
            )
            for (i, j), ax in np.ndenumerate(axs):
                check(ax.get_ylabel() == ((ylabel or name) if j == 0 else ""))
                check(ax.get_xlabel() == ("y" if i == 2 else ""))
                titles = [t.get_text() for t in ax.texts]
                check(len(titles) == 1)
                check(f"={['p', 'q'][j]}" in titles[0])
                check(titles[0].endswith(f"={[10, 20, 30][i]}"))
            plt.close("all")

    # more coordinates than default line styles: the defaults cycle
    rng = np.random.default_rng(3)
    big = xr.Dataset(
        {"y": (("k", "x"), rng.normal(size=(17, 4)))},
        coords={"k": np.arange(17), "x": np.arange(4.0)},
    )
    fig, axs, d, matched, seen = run_lines(
        big, "x", "y", mapping={"linestyle": "k", "marker": "k"}
    )
    lines = data_lines(axs[0, 0])
    check(len(lines) == 17)
    for k, ln in enumerate(lines):
        check(ln.get_marker() == ipmod._MARKERS_DEFAULT[k % 15])
        check(dash_of(ln) == dash_of(lines[k % 6]))
    check(len({dash_of(ln) for ln in lines}) == 6)
    plt.close("all")
    fig, axs, d, matched, seen = run_lines(
        big,
        "x",
        "y",
        mapping={"linewidth": "k", "markersize": "k", "color": "k"},
    )
    for k, ln in enumerate(data_lines(axs[0, 0])):
        check(ln.get_linewidth() == float(np.linspace(1.0, 3.0, 17)[k]))
        check(ln.get_markersize() == float(np.linspace(3.0, 9.0, 17)[k]))
    plt.close("all")

    # out of range spread fractions are clamped to [0, 1]
    def band_vertices(err_range):
        fig, axs = xyzpy.infiniplot(
            ds,
            "x",
            "y",
            color="a",
            row="b",
            col="c",
            aggregate=True,
            aggregate_err_range=err_range,
        )
        out = [
            [all_verts(c).copy() for c in band_polys(ax)] for ax in axs.flat
        ]
        plt.close("all")
        return out

    for given, clamped in ((7.0, 1.0), (-0.3, 0.0), (1, 1.0)):
        va, vb = band_vertices(given), band_vertices(clamped)
        check(len(va) == len(vb) == 4)
        for pa, pb in zip(va, vb):
            check(len(pa) == len(pb) and len(pa) > 0)
            for qa, qb in zip(pa, pb):
                check(eqnan(qa, qb))

    # the spread of the aggregate takes missing values into account
    dsn = ds.isel(b=0, c=0)
    for err_range in ("std", "stderr"):
        fig, axs = xyzpy.infiniplot(
            dsn,
            "x",
            "y",
            color="a",
            aggregate="r",
            aggregate_method="mean",
            aggregate_err_range=err_range,
            err_style="bars",
        )
        (ax,) = axs.flat
        check(len(ax.containers) == 3)
        for n, a in enumerate([10, 20, 30]):
            v = dsn["y"].sel(a=a).values
            lo, hi = np_range(v, -1, err_range)
            (bars,) = ax.containers[n].lines[2]
            for seg, px, pl, ph in zip(
                bars.get_segments(), dsn["x"].values, lo, hi
            ):
                check(seg_is(seg, [[px, pl], [px, ph]]))
        plt.close("all")


# --------------------------------------------------------------------------- #


def main():
    tmp = tempfile.mkdtemp(prefix="c18_demo_")
    try:
        os.environ["MPLCONFIGDIR"] = tmp
        test_lines_mappings()
        test_lines_defaults_and_custom()
        test_lines_orders_fused_dead()
        test_err_from_variable()
        test_aggregate_lines()
        test_heatmap()
        test_histogram()
        test_extras()

        # finally check a figure can really be rendered to a file
        ds = make_ds(0).isel(r=0)
        fig, axs = xyzpy.infiniplot(
            ds, "x", "y", color="a", marker="b", row="c"
        )
        fname = os.path.join(tmp, "fig.png")
        fig.savefig(fname)
        check(os.path.getsize(fname) > 0)
        plt.close("all")
    finally:
        plt.close("all")
        shutil.rmtree(tmp, ignore_errors=True)
    print(f"{N_CHECKS} checks")
    print("PASS")


if __name__ == "__main__":
    main()
