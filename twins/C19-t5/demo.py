"""Demo / check for C19 (running statistics), refactoring 2.

Exercises ``xyzpy.estimate_from_repeats``:

* over a grid of (rtol, tol_scale, min_samples, max_samples) with
  deterministic and noisy (seeded) generators, the number of calls made, the
  samples kept and the statistics returned are compared bit-for-bit with an
  independent transcription of the sampling loop;
* the stopping rule is replayed on the drawn samples: no earlier prefix met
  the stopping condition, the final one did (tolerance met or limit reached),
  the limit is never exceeded, and the statistics are those of exactly the
  samples drawn (checked against numpy on the whole sample);
* ``get`` = 'stats' / 'samples' / 'mean' / other, forwarding of ``fn_args``
  and ``fn_kwargs``, ``verbosity`` 0 / 1 / 2 (what is printed, and the order
  of the observable events: calls, progress descriptions, closing the bar,
  the final report), KeyboardInterrupt and other exceptions.

Run as ``cd <worktree> && /venv/bin/python /path/to/demo.py``.
"""

import os
import sys

sys.path.insert(0, os.getcwd())

import contextlib  # noqa: E402
import io  # noqa: E402
import itertools  # noqa: E402
import math  # noqa: E402
import random  # noqa: E402
import shutil  # noqa: E402
import tempfile  # noqa: E402

import numpy as np  # noqa: E402

import xyzpy  # noqa: E402
import xyzpy.utils  # noqa: E402
from xyzpy import RunningStatistics, estimate_from_repeats  # noqa: E402

assert os.path.dirname(os.path.dirname(os.path.abspath(xyzpy.__file__))) == (
    os.path.abspath(os.getcwd())
), xyzpy.__file__

EPS = np.finfo(float).eps
CHECKS = 0


def check(cond, msg=""):
    global CHECKS
    CHECKS += 1
    if not cond:
        raise AssertionError(msg)


def same(a, b):
    a, b = float(a), float(b)
    if math.isnan(a) or math.isnan(b):
        return math.isnan(a) and math.isnan(b)
    return a == b


# ------------------------------- reference --------------------------------- #


class RefStats:
    def __init__(self):
        self.count = 0
        self.mean = 0.0
        self.M2 = 0.0

    def update(self, x):
        self.count += 1
        d1 = x - self.mean
        self.mean += d1 / self.count
        d2 = x - self.mean
        self.M2 += d1 * d2

    @property
    def err(self):
        if self.count == 0:
            return np.inf
        return ((self.M2 / self.count) ** 0.5) / self.count**0.5

    def converged(self, rtol, atol):
        return self.err < rtol * abs(self.mean) + atol


def ref_estimate(source, rtol, tol_scale, min_samples, max_samples):
    """Transcription of the documented sampling loop: returns the reference
    statistics and the samples drawn from the callable ``source``.
    """
    rs = RefStats()
    xs = []
    i = 0
    while True:
        x = source()
        xs.append(x)
        rs.update(x)
        if i > min_samples:
            if rs.converged(rtol, tol_scale * rtol):
                break
        if i >= max_samples - 1:
            break
        i += 1
    return rs, xs


# ------------------------------- generators -------------------------------- #


def make_source(kind, seed=0):
    """Return a fresh zero-argument callable producing the series ``kind``."""
    k = itertools.count()
    rng = random.Random(seed)
    if kind == "const":
        return lambda: 42.0
    if kind == "zero":
        return lambda: 0.0
    if kind == "alternate":
        return lambda: 10.0 + (-1.0) ** next(k)
    if kind == "ramp":
        return lambda: 1.0 * next(k)
    if kind == "settle":
        return lambda: 3.0 + 1.0 / (1 + next(k)) ** 2
    if kind == "ints":
        return lambda: 5 + (next(k) % 3)
    if kind == "noisy":
        return lambda: 5.0 + rng.gauss(0.0, 1.0)
    if kind == "noisy_small":
        return lambda: 1e9 + 1e-3 * rng.gauss(0.0, 1.0)
    if kind == "noisy_zero":
        return lambda: rng.gauss(0.0, 1.0)
    if kind == "noisy_neg":
        return lambda: -200.0 + 30 * rng.random()
    if kind == "npnoisy":
        nprng = np.random.RandomState(seed)
        return lambda: nprng.rand(10).sum()
    if kind == "nan":
        return lambda: float("nan")
    raise ValueError(kind)


KINDS = [
    "const", "zero", "alternate", "ramp", "settle", "ints", "noisy",
    "noisy_small", "noisy_zero", "noisy_neg", "npnoisy", "nan",
]


class Counted:
    """Wrap a source as ``fn(*args, **kwargs)`` recording every call."""

    def __init__(self, source, log=None):
        self.source = source
        self.calls = []
        self.log = log

    def __call__(self, *args, **kwargs):
        self.calls.append((args, kwargs))
        if self.log is not None:
            self.log.append(("call", len(self.calls)))
        return self.source()


def quiet(fn, *args, **kwargs):
    """Run capturing stdout / stderr -> (result, out, err)."""
    out, err = io.StringIO(), io.StringIO()
    with contextlib.redirect_stdout(out), contextlib.redirect_stderr(err):
        res = fn(*args, **kwargs)
    return res, out.getvalue(), err.getvalue()


# --------------------------------- checks ---------------------------------- #


def replay_stopping_rule(xs, rtol, tol_scale, min_samples, max_samples):
    """Feed the drawn samples one at a time into a fresh RunningStatistics
    and check sampling stopped exactly at the first sample at which the
    tolerance was met (after the minimum) or the limit was reached.
    """
    rs = RunningStatistics()
    for n, x in enumerate(xs, 1):
        rs.update(x)
        met = (n - 1 > min_samples) and bool(
            rs.err < rtol * abs(rs.mean) + tol_scale * rtol
        )
        limit = n >= max_samples
        if n < len(xs):
            check(not met and not limit, (n, len(xs), met, limit))
        else:
            check(met or limit, (n, met, limit))
    check(len(xs) <= max(1, max_samples))
    return rs


def check_whole_sample(rs, xs):
    a = np.asarray(xs, dtype=float)
    check(rs.count == len(xs))
    if np.isnan(a).any():
        check(math.isnan(rs.mean))
        return
    scale = max(1.0, float(np.max(np.abs(a))))
    mean = float(a.mean())
    dev = a - mean
    var = float(np.mean(dev * dev))
    std = var**0.5
    tol_var = 64 * EPS * scale * (std + EPS * scale) + 64 * (EPS * scale) ** 2
    check(abs(rs.mean - mean) <= 64 * EPS * scale)
    check(abs(rs.var - var) <= tol_var, (rs.var, var))
    check(same(rs.std, rs.var**0.5))
    check(same(rs.err, rs.std / len(xs) ** 0.5))


def test_grid():
    rtols = [0.5, 0.1, 0.02, 1e-3, 0.0]
    tol_scales = [0.0, 1.0, 100.0]
    mins = [0, 1, 5, 20]
    maxs = [1, 2, 5, 7, 50, 300]
    gets = itertools.cycle(["stats", "samples", "mean", "other"])
    nruns = 0
    for kind in KINDS:
        for rtol in rtols:
            for tol_scale in tol_scales:
                for mn in mins:
                    for mx in maxs:
                        seed = 1000 * mn + mx
                        ref, ref_xs = ref_estimate(
                            make_source(kind, seed), rtol, tol_scale, mn, mx
                        )
                        fn = Counted(make_source(kind, seed))
                        get = next(gets)
                        res, out, err = quiet(
                            estimate_from_repeats, fn, rtol=rtol,
                            tol_scale=tol_scale, min_samples=mn,
                            max_samples=mx, get=get,
                        )
                        nruns += 1
                        check(out == "" and err == "")
                        check(len(fn.calls) == ref.count == len(ref_xs))
                        check(all(c == ((), {}) for c in fn.calls))
                        check(1 <= len(fn.calls) <= mx)
                        if get == "mean":
                            check(same(res, ref.mean))
                            check(type(res) is type(ref.mean))
                            replay_stopping_rule(
                                ref_xs, rtol, tol_scale, mn, mx)
                            continue
                        if get == "samples":
                            check(type(res) is tuple and len(res) == 2)
                            rs, xs = res
                            check(type(xs) is list)
                            check(len(xs) == len(ref_xs))
                            check(all(
                                type(a) is type(b) and same(a, b)
                                for a, b in zip(xs, ref_xs)))
                        else:
                            rs = res
                        check(type(rs) is RunningStatistics)
                        check(rs.count == ref.count)
                        check(same(rs.mean, ref.mean))
                        check(same(rs.M2, ref.M2))
                        again = replay_stopping_rule(
                            ref_xs, rtol, tol_scale, mn, mx)
                        check(same(again.mean, rs.mean))
                        check(same(again.M2, rs.M2))
                        check_whole_sample(rs, ref_xs)
                        # which reason
                        if rtol == 0.0 or kind == "nan":
                            check(rs.count == mx)
                        if kind == "const" and rtol > 0:
                            check(rs.count == min(mx, mn + 2))
    return nruns


def test_defaults_and_limits():
    # defaults: rtol=0.02, tol_scale=1.0, min_samples=5, max_samples=1000000
    fn = Counted(make_source("const"))
    rs = estimate_from_repeats(fn)
    check(len(fn.calls) == 7 and rs.count == 7 and rs.mean == 42.0)
    ref, _ = ref_estimate(make_source("noisy", 3), 0.02, 1.0, 5, 1000000)
    fn = Counted(make_source("noisy", 3))
    rs = estimate_from_repeats(fn)
    check(rs.count == ref.count == len(fn.calls))
    check(same(rs.mean, ref.mean) and same(rs.M2, ref.M2))
    check(rs.converged(0.02, 0.02) and rs.count > 7)
    # tolerance scale matters near zero
    for tol_scale in (1.0, 1e-3):
        ref, ref_xs = ref_estimate(
            make_source("noisy_zero", 5), 0.05, tol_scale, 5, 4000)
        fn = Counted(make_source("noisy_zero", 5))
        rs, xs = estimate_from_repeats(
            fn, rtol=0.05, tol_scale=tol_scale, max_samples=4000,
            get="samples")
        check(xs == ref_xs and rs.count == ref.count == len(fn.calls))
        check(same(rs.mean, ref.mean) and same(rs.M2, ref.M2))
        replay_stopping_rule(xs, 0.05, tol_scale, 5, 4000)
    # the limit is reached exactly, never exceeded
    for mx in (1, 2, 3, 10, 101):
        fn = Counted(make_source("ramp"))
        rs = estimate_from_repeats(fn, rtol=1e-12, max_samples=mx)
        check(rs.count == mx == len(fn.calls))
        check(rs.mean == (mx - 1) / 2.0)
    # degenerate limits agree with the transcription of the loop
    for mx in (0, -3):
        ref, _ = ref_estimate(make_source("ramp"), 0.1, 1.0, 5, mx)
        fn = Counted(make_source("ramp"))
        rs = estimate_from_repeats(fn, rtol=0.1, max_samples=mx)
        check(rs.count == ref.count == len(fn.calls))
    # float limits / minimum
    ref, _ = ref_estimate(make_source("alternate"), 0.01, 1.0, 2.5, 40.5)
    fn = Counted(make_source("alternate"))
    rs = estimate_from_repeats(
        fn, rtol=0.01, min_samples=2.5, max_samples=40.5)
    check(rs.count == ref.count == len(fn.calls))
    check(same(rs.mean, ref.mean) and same(rs.M2, ref.M2))
    # negative minimum: convergence checked from the first sample on
    fn = Counted(make_source("const"))
    rs = estimate_from_repeats(fn, min_samples=-1)
    check(rs.count == 1 == len(fn.calls))
    # bad limit type only matters once it is looked at
    fn = Counted(make_source("const"))
    try:
        estimate_from_repeats(fn, max_samples=None)
    except TypeError:
        check(len(fn.calls) == 1)
    else:
        check(False)
    fn = Counted(make_source("const"))
    try:
        estimate_from_repeats(fn, rtol=None, min_samples=2, max_samples=10)
    except TypeError:
        check(len(fn.calls) == 4)
    else:
        check(False)


def test_argument_forwarding():
    seen = []

    def fn(a, b=2, *rest, scale=1.0, **kw):
        seen.append((a, b, rest, scale, kw))
        return scale * (a + b)

    rs = estimate_from_repeats(fn, 1, 3, 9, scale=2.0, extra="e",
                               max_samples=4, rtol=0.0)
    check(rs.count == 4 and rs.mean == 8.0 and rs.var == 0.0)
    check(seen == [(1, 3, (9,), 2.0, {"extra": "e"})] * 4)
    del seen[:]
    mean = estimate_from_repeats(fn, 1, get="mean")
    check(mean == 3.0 and type(mean) is float)
    check(seen == [(1, 2, (), 1.0, {})] * 7)

    # like the library's own test
    nprng = np.random.RandomState(0)

    def total(n):
        return nprng.rand(n).sum()

    (rs, xs), out, err = quiet(
        estimate_from_repeats, total, 10, get="samples")
    check(abs(rs.mean - 5.0) < 0.5 and rs.count == len(xs))
    check(rs.rel_err < 0.02 + 0.02 / abs(rs.mean))
    check_whole_sample(rs, xs)
    replay_stopping_rule(xs, 0.02, 1.0, 5, 1000000)


# ------------------------- progress bar and reports ------------------------ #


class FakeBar:
    """Stand-in for the tqdm bar logging everything observable."""

    def __init__(self, it, log, interrupt_at=None):
        self.it = iter(it)
        self.log = log
        self.interrupt_at = interrupt_at

    def __iter__(self):
        return self

    def __next__(self):
        i = next(self.it)
        self.log.append(("next", i))
        if self.interrupt_at is not None and i == self.interrupt_at:
            raise KeyboardInterrupt
        return i

    def set_description(self, desc):
        self.log.append(("desc", desc))

    def close(self):
        self.log.append(("close",))


class LogOut(io.StringIO):
    def __init__(self, log):
        super().__init__()
        self.log = log

    def write(self, text):
        self.log.append(("print", text))
        return super().write(text)


@contextlib.contextmanager
def fake_progbar(log, interrupt_at=None):
    real = xyzpy.utils.progbar
    made = []

    def progbar(it=None, nb=False, **kwargs):
        log.append(("progbar", nb, kwargs))
        bar = FakeBar(it, log, interrupt_at)
        made.append(bar)
        return bar

    xyzpy.utils.progbar = progbar
    try:
        yield made
    finally:
        xyzpy.utils.progbar = real


def expected_events(xs, verbosity, report):
    """The order of the observable events for the drawn samples ``xs``."""
    events = []
    if verbosity >= 1:
        events.append(("progbar", False, {}))
    rs = RunningStatistics()
    for n, x in enumerate(xs, 1):
        if verbosity >= 1:
            events.append(("next", n - 1))
        events.append(("call", n))
        rs.update(x)
        if verbosity >= 2:
            events.append((
                "desc",
                f"{n}: "
                f"{xyzpy.utils.format_number_with_error(rs.mean, rs.err)}",
            ))
    if verbosity >= 1:
        events.append(("close",))
        events.append(("print", report))
        events.append(("print", "\n"))
    return events


def test_event_order():
    for kind in ["noisy", "settle", "alternate", "const"]:
        for verbosity in [0, 1, 2, 3]:
            for get in ["stats", "samples", "mean"]:
                for mn, mx in [(5, 1000), (0, 4), (3, 1), (2, 60)]:
                    ref, ref_xs = ref_estimate(
                        make_source(kind, 17), 0.05, 1.0, mn, mx)
                    log = []
                    fn = Counted(make_source(kind, 17), log)
                    with fake_progbar(log) as made, \
                            contextlib.redirect_stdout(LogOut(log)), \
                            contextlib.redirect_stderr(io.StringIO()) as er:
                        res = estimate_from_repeats(
                            fn, rtol=0.05, min_samples=mn, max_samples=mx,
                            verbosity=verbosity, get=get)
                    check(len(made) == (1 if verbosity >= 1 else 0))
                    check(er.getvalue() == "")
                    final = RunningStatistics()
                    final.update_from_it(ref_xs)
                    want = expected_events(ref_xs, verbosity, repr(final))
                    check(log == want, (log, want))
                    if get == "mean":
                        check(same(res, ref.mean))
                    elif get == "samples":
                        check(res[1] == ref_xs)
                        check(same(res[0].M2, ref.M2))
                    else:
                        check(res.count == ref.count)
                        check(same(res.mean, ref.mean))


def test_real_progress_bar():
    for verbosity in (1, 2):
        ref, ref_xs = ref_estimate(make_source("noisy", 8), 0.02, 1.0, 5, 500)
        fn = Counted(make_source("noisy", 8))
        rs, out, err = quiet(
            estimate_from_repeats, fn, verbosity=verbosity, max_samples=500)
        check(rs.count == ref.count == len(fn.calls))
        check(same(rs.mean, ref.mean) and same(rs.M2, ref.M2))
        check(out == repr(rs) + "\n", out)
        check("it/s" in err or "it [" in err, err)
        label = f"{rs.count}: " + xyzpy.utils.format_number_with_error(
            rs.mean, rs.err)
        check((label in err) == (verbosity == 2), (label, err))
    # nothing at all is written when quiet
    rs, out, err = quiet(
        estimate_from_repeats, make_source("noisy", 8), verbosity=0)
    check(out == "" and err == "")


def test_interrupts_and_errors():
    # Ctrl-C inside fn at call k: statistics of the k - 1 samples so far
    for stop_at in [1, 2, 5, 9]:
        for verbosity in [0, 2]:
            for get in ["stats", "samples", "mean"]:
                log = []
                src = make_source("ramp")
                calls = []

                def fn():
                    calls.append(1)
                    if len(calls) == stop_at:
                        raise KeyboardInterrupt
                    return src()

                with fake_progbar(log), \
                        contextlib.redirect_stdout(LogOut(log)):
                    res = estimate_from_repeats(
                        fn, rtol=1e-9, verbosity=verbosity, get=get)
                n = stop_at - 1
                check(len(calls) == stop_at)
                if get == "mean":
                    check(res == (0.0 if n == 0 else (n - 1) / 2.0))
                    continue
                rs = res[0] if get == "samples" else res
                check(rs.count == n)
                if get == "samples":
                    check(res[1] == [float(v) for v in range(n)])
                if n:
                    check(rs.mean == (n - 1) / 2.0)
                if verbosity:
                    check(log[-3:] == [
                        ("close",), ("print", repr(rs)), ("print", "\n")])
                    check(sum(e == ("close",) for e in log) == 1)
                    check(repr(rs) == (
                        "RunningStatistics(mean=None, count=0)" if n == 0
                        else repr(rs)))
                else:
                    check(log == [])

    # Ctrl-C between samples (raised by the iteration itself)
    log = []
    fn = Counted(make_source("ramp"), log)
    with fake_progbar(log, interrupt_at=3), \
            contextlib.redirect_stdout(LogOut(log)):
        rs, xs = estimate_from_repeats(
            fn, rtol=1e-9, verbosity=1, get="samples")
    check(rs.count == 3 and xs == [0.0, 1.0, 2.0] and len(fn.calls) == 3)
    check(log[-4:] == [("next", 3), ("close",), ("print", repr(rs)),
                       ("print", "\n")])

    # any other exception propagates, after closing the bar, no report
    class Boom(Exception):
        pass

    for verbosity in [0, 1, 2]:
        log = []
        calls = []

        def bad():
            calls.append(1)
            if len(calls) == 4:
                raise Boom("x")
            return 1.0 * len(calls)

        with fake_progbar(log), contextlib.redirect_stdout(LogOut(log)):
            try:
                estimate_from_repeats(
                    bad, rtol=1e-9, verbosity=verbosity, get="samples")
            except Boom:
                check(True)
            else:
                check(False)
        check(len(calls) == 4)
        check(not any(e[0] == "print" for e in log))
        if verbosity:
            check(log[-1] == ("close",))
            check(sum(e == ("close",) for e in log) == 1)
        else:
            check(log == [])

    # a sample that cannot be accumulated
    calls = []

    def text():
        calls.append(1)
        return "1.0"

    try:
        estimate_from_repeats(text)
    except TypeError:
        check(len(calls) == 1)
    else:
        check(False)

    # bad verbosity fails before anything is sampled
    fn = Counted(make_source("const"))
    try:
        estimate_from_repeats(fn, verbosity=None)
    except TypeError:
        check(fn.calls == [])
    else:
        check(False)


def main():
    tmp = tempfile.mkdtemp(prefix="c19_demo_")
    cwd = os.getcwd()
    try:
        # nothing here is supposed to touch the disk: run from an empty
        # scratch directory and check it stays empty
        os.chdir(tmp)
        nruns = test_grid()
        test_defaults_and_limits()
        test_argument_forwarding()
        test_event_order()
        test_real_progress_bar()
        test_interrupts_and_errors()
        check(os.listdir(tmp) == [])
    finally:
        os.chdir(cwd)
        shutil.rmtree(tmp, ignore_errors=True)
    print(f"{nruns} grid runs, {CHECKS} checks")
    print("PASS")


if __name__ == "__main__":
    main()
