"""Demo for C08 twin 2: growing batches (``cropping.grow``, ``Crop.grow``,
``Crop.grow_missing``).

Random operation sequences are checked against a simple model of which
batches really finished, with the grows going through every route into
``cropping.grow`` (method / function, the verbosity levels, crop found from
the working directory, mpi rank detection, worker pool, failing functions),
plus hand written edge cases for each of those routes.

Run as ``cd <worktree> && /venv/bin/python /path/to/demo.py``.
"""

import sys
import os

sys.path.insert(0, os.getcwd())

import io
import glob
import math
import pickle
import random
import shutil
import tempfile
import contextlib

import xyzpy
from xyzpy.gen import cropping
from xyzpy.gen.cropping import Crop, XYZError, BTCH_NM, RSLT_NM

assert os.path.dirname(os.path.dirname(os.path.abspath(xyzpy.__file__))) == (
    os.path.abspath(os.getcwd())
), xyzpy.__file__


class Boom(Exception):
    pass


def good_fn(a):
    return 10 * a + 1


def make_failing_fn(bad):
    bad = frozenset(bad)

    def failing_fn(a):
        if a in bad:
            raise Boom(a)
        return 10 * a + 1

    return failing_fn


def quiet(f, *args, **kwargs):
    """Call, returning (result, stdout) with stderr swallowed."""
    out, err = io.StringIO(), io.StringIO()
    with contextlib.redirect_stdout(out), contextlib.redirect_stderr(err):
        res = f(*args, **kwargs)
    return res, out.getvalue()


def quiet_err(f, *args, **kwargs):
    with contextlib.redirect_stderr(io.StringIO()):
        return f(*args, **kwargs)


def listing(crop, sub):
    return sorted(os.listdir(os.path.join(crop.location, sub)))


class Model:
    """What is really true: the cases of each batch and which have results."""

    def __init__(self, parent, n, batchsize):
        self.parent = parent
        self.n = n
        self.batchsize = batchsize
        self.nb = math.ceil(n / batchsize)
        self.sown = False
        # batch id -> expected result tuple, or the string 'corrupt' /
        # 'short' for deliberately damaged result files
        self.results = {}
        self.crop = self.new_crop()

    def new_crop(self, with_fn=True):
        if with_fn:
            return Crop(
                fn=good_fn,
                name="demo",
                parent_dir=self.parent,
                batchsize=self.batchsize,
            )
        return Crop(name="demo", parent_dir=self.parent)

    def batch_cases(self, i):
        lo = (i - 1) * self.batchsize
        return list(range(lo, min(lo + self.batchsize, self.n)))

    def expected(self, i):
        return tuple(10 * a + 1 for a in self.batch_cases(i))

    # ------------------------------------------------------------------ #

    def check(self):
        crop = self.crop
        if not self.sown:
            assert not crop.is_prepared()
            assert crop.num_sown_batches == -1
            assert crop.num_results == -1
            assert crop.is_ready_to_reap() is False
            assert crop._num_sown_batches == -1 and crop._num_results == -1
            assert "Not yet sown" in str(crop)
            return

        good = {
            i for i, r in self.results.items() if not isinstance(r, str)
        }
        present = set(self.results)
        missing = tuple(i for i in range(1, self.nb + 1) if i not in present)

        # the reported progress
        assert crop.is_prepared()
        assert crop.num_sown_batches == self.nb
        assert crop.num_results == len(present)
        assert crop.missing_results() == missing, (
            crop.missing_results(),
            missing,
        )
        ready = crop.is_ready_to_reap()
        assert ready is (len(missing) == 0), (ready, missing)
        crop.calc_progress()
        assert crop._num_sown_batches == self.nb
        assert crop._num_results == len(present)
        assert crop.num_batches == self.nb
        assert crop.batchsize == self.batchsize
        s = str(crop)
        assert "{} / {} batches of size {} completed".format(
            len(present), self.nb, self.batchsize
        ) in s, s

        # what is true on disk
        assert listing(crop, "batches") == sorted(
            BTCH_NM.format(i) for i in range(1, self.nb + 1)
        )
        assert listing(crop, "results") == sorted(
            RSLT_NM.format(i) for i in present
        ), (listing(crop, "results"), present)
        for i in range(1, self.nb + 1):
            with open(
                os.path.join(crop.location, "batches", BTCH_NM.format(i)), "rb"
            ) as f:
                assert pickle.load(f) == [
                    {"a": a} for a in self.batch_cases(i)
                ]
        for i in good:
            with open(
                os.path.join(crop.location, "results", RSLT_NM.format(i)), "rb"
            ) as f:
                assert pickle.load(f) == self.results[i]
        # nothing else left behind
        assert sorted(os.listdir(crop.location)) == [
            "batches",
            "results",
            "xyz-function.clpkl",
            "xyz-settings.jbdmp",
        ]

    # ------------------------------------------------------------------ #

    def op_sow(self, rng):
        # first sow, or re-sow with the same shape: results are kept
        quiet(self.crop.sow_combos, {"a": range(self.n)}, verbosity=0)
        self.sown = True

    def op_reload(self, rng):
        self.crop = self.new_crop(with_fn=rng.random() < 0.5 or not self.sown)

    def op_grow_one(self, rng):
        if not self.sown:
            return
        i = rng.randint(1, self.nb)
        how = rng.choice(["method", "v0", "v1", "v2", "cwd", "fn", "opts"])
        name = self.crop.name
        loaded = "xyzpy: loaded batch {} of {}.\n".format(i, name)
        success = "xyzpy: success - batch {} completed.\n".format(i)
        if how == "method":
            _, out = quiet(self.crop.grow, i)
            assert out == ""
        elif how == "opts":
            _, out = quiet(self.crop.grow, [i], verbosity=0, shuffle=True)
            assert out == ""
        elif how == "v0":
            _, out = quiet(cropping.grow, i, self.crop, verbosity=0)
            assert out == ""
        elif how == "v1":
            _, out = quiet(cropping.grow, i, crop=self.crop, verbosity=1)
            assert out == loaded + success, out
        elif how == "v2":
            _, out = quiet(cropping.grow, i, crop=self.crop)
            assert out == loaded + success, out
        elif how == "fn":
            _, out = quiet(
                cropping.grow, i, crop=self.crop, fn=good_fn, verbosity=1,
                check_mpi=False,
            )
            assert out == loaded + success, out
        elif how == "cwd":
            here = os.getcwd()
            os.chdir(self.crop.location)
            try:
                _, out = quiet(cropping.grow, i, verbosity=1)
            finally:
                os.chdir(here)
            assert out == loaded + success, out
        self.results[i] = self.expected(i)

    def op_grow_subset(self, rng):
        if not self.sown:
            return
        ids = [i for i in range(1, self.nb + 1) if rng.random() < 0.5]
        rng.shuffle(ids)
        quiet(self.crop.grow, tuple(ids))
        for i in ids:
            self.results[i] = self.expected(i)

    def op_grow_missing(self, rng):
        if not self.sown:
            return
        before = self.crop.missing_results()
        mtimes = {
            f: os.stat(f).st_mtime_ns
            for f in glob.glob(os.path.join(self.crop.location, "results", "*"))
        }
        quiet(self.crop.grow_missing)
        for i in before:
            self.results[i] = self.expected(i)
        # exactly the missing ones were grown: the others are untouched
        for f, t in mtimes.items():
            assert os.stat(f).st_mtime_ns == t
        assert self.crop.missing_results() == ()
        assert self.crop.is_ready_to_reap() is True

    def op_grow_failing(self, rng):
        if not self.sown:
            return
        bad = {a for a in range(self.n) if rng.random() < 0.3}
        fn = make_failing_fn(bad)
        ids = [i for i in range(1, self.nb + 1) if rng.random() < 0.6]
        for i in ids:
            fails = any(a in bad for a in self.batch_cases(i))
            verbosity = rng.choice([0, 1, 2])
            out = io.StringIO()
            try:
                with contextlib.redirect_stdout(out):
                    quiet_err(
                        cropping.grow, i, crop=self.crop, fn=fn,
                        verbosity=verbosity,
                    )
            except Boom as e:
                assert fails
                assert e.args[0] == min(
                    a for a in self.batch_cases(i) if a in bad
                )
                # a failed grow records nothing (and clobbers nothing)
                assert "success" not in out.getvalue()
            else:
                assert not fails
                self.results[i] = self.expected(i)
                assert ("success" in out.getvalue()) == (verbosity >= 1)

    def op_grow_failing_sown(self, rng):
        """The sown function itself fails, grown via ``Crop.grow``: batches
        are grown in the order given up to the first failure."""
        if not self.sown:
            return
        ids = [i for i in range(1, self.nb + 1) if rng.random() < 0.6]
        rng.shuffle(ids)
        bad = {a for a in range(self.n) if rng.random() < 0.2}
        # swap the function on disk, grow, and swap it back
        fn_file = os.path.join(self.crop.location, "xyz-function.clpkl")
        with open(fn_file, "rb") as f:
            original = f.read()
        cropping.write_to_disk(
            cropping.to_pickle(make_failing_fn(bad)), fn_file
        )
        try:
            quiet(self.crop.grow, ids)
        except Boom:
            failed = True
        else:
            failed = False
        finally:
            with open(fn_file, "wb") as f:
                f.write(original)
        for i in ids:
            if any(a in bad for a in self.batch_cases(i)):
                assert failed
                break
            self.results[i] = self.expected(i)
        else:
            assert not failed

    def op_delete(self, rng):
        if not self.results:
            return
        i = rng.choice(sorted(self.results))
        os.remove(os.path.join(self.crop.location, "results", RSLT_NM.format(i)))
        del self.results[i]

    def op_damage(self, rng):
        if not self.results:
            return
        i = rng.choice(sorted(self.results))
        fname = os.path.join(self.crop.location, "results", RSLT_NM.format(i))
        if rng.random() < 0.5:
            with open(fname, "wb") as f:
                f.write(b"\x80\x04not a pickle")
            self.results[i] = "corrupt"
        else:
            with open(fname, "wb") as f:
                pickle.dump(self.expected(i) + (0,), f)
            self.results[i] = "short"

    def op_check_bad(self, rng):
        if not self.sown:
            return
        delete_bad = rng.random() < 0.6
        bad_model = {i for i, r in self.results.items() if isinstance(r, str)}
        bad, out = quiet(self.crop.check_bad, delete_bad=delete_bad)
        assert isinstance(bad, tuple)
        assert all(isinstance(b, str) for b in bad)
        assert sorted(int(b) for b in bad) == sorted(bad_model), (
            bad,
            bad_model,
        )
        lines = out.splitlines()
        assert len(lines) == len(bad)
        for b, line in zip(bad, lines):
            fname = os.path.join(
                self.crop.location, "results", RSLT_NM.format(b)
            )
            head = "result {} is bad".format(fname)
            head += " - deleting it." if delete_bad else "."
            assert line.startswith(head), (line, head)
            rest = line[len(head):]
            if self.results[int(b)] == "corrupt":
                assert rest.startswith(" Error was: "), line
            else:
                assert rest == "", line
        if delete_bad:
            for i in bad_model:
                del self.results[i]

    def op_query(self, rng):
        self.check()


OPS = [
    "sow",
    "sow",
    "reload",
    "grow_one",
    "grow_one",
    "grow_one",
    "grow_subset",
    "grow_missing",
    "grow_failing",
    "grow_failing_sown",
    "delete",
    "damage",
    "check_bad",
    "query",
]


def random_sequences(num, seed):
    rng = random.Random(seed)
    for k in range(num):
        parent = tempfile.mkdtemp(prefix="c08t2-")
        try:
            nb = 1 + k % 8
            batchsize = rng.choice([1, 2, 3])
            n = nb * batchsize - rng.randrange(batchsize)
            m = Model(parent, n, batchsize)
            assert m.nb == nb
            m.check()
            if rng.random() < 0.85:
                m.op_sow(rng)
                m.check()
            for _ in range(12):
                op = rng.choice(OPS)
                getattr(m, "op_" + op)(rng)
                m.check()
        finally:
            shutil.rmtree(parent, ignore_errors=True)


def snapshot(root):
    """Map of every file under root -> its bytes."""
    snap = {}
    for dirpath, _, fnames in os.walk(root):
        for fname in fnames:
            path = os.path.join(dirpath, fname)
            with open(path, "rb") as f:
                snap[os.path.relpath(path, root)] = f.read()
    return snap


def raises(exc_type, f, *args, **kwargs):
    try:
        quiet(f, *args, **kwargs)
    except exc_type as e:
        return e
    raise AssertionError("expected {}".format(exc_type))


@contextlib.contextmanager
def environ(**kwargs):
    names = ("OMPI_COMM_WORLD_RANK", "PMI_RANK")
    old = {k: os.environ.pop(k, None) for k in names}
    os.environ.update(kwargs)
    try:
        yield
    finally:
        for k in names:
            os.environ.pop(k, None)
            if old[k] is not None:
                os.environ[k] = old[k]


def make_logging_fn(logdir, bad=()):
    bad = frozenset(bad)

    def logging_fn(a):
        import os

        with open(os.path.join(logdir, "ran-{}".format(a)), "w"):
            pass
        if a in bad:
            raise Boom(a)
        return 10 * a + 1

    return logging_fn


def edge_cases():
    parent = tempfile.mkdtemp(prefix="c08t2-")
    here = os.getcwd()
    try:
        crop = Crop(fn=good_fn, name="edge", parent_dir=parent, num_batches=4)
        with environ():
            quiet(crop.sow_combos, {"a": range(10)}, verbosity=0)
        assert (crop.batchsize, crop._batch_remainder) == (2, 2)
        sizes = {1: 3, 2: 3, 3: 2, 4: 2}
        firsts = {1: 0, 2: 3, 3: 6, 4: 8}

        def expected(i):
            return tuple(
                10 * a + 1 for a in range(firsts[i], firsts[i] + sizes[i])
            )

        def result_file(i):
            return os.path.join("results", RSLT_NM.format(i))

        def check_only_new(before, ids):
            after = snapshot(crop.location)
            new = {k: v for k, v in after.items() if before.get(k) != v}
            assert set(after) >= set(before)
            assert set(new) == {result_file(i) for i in ids}, set(new)
            for i in ids:
                assert pickle.loads(new[result_file(i)]) == expected(i)
            return after

        snap = snapshot(crop.location)
        assert sorted(snap) == sorted(
            [os.path.join("batches", BTCH_NM.format(i)) for i in (1, 2, 3, 4)]
            + ["xyz-function.clpkl", "xyz-settings.jbdmp"]
        )

        # --- crop located from the working directory ------------------- #
        with environ():
            os.chdir(parent)
            e = raises(XYZError, cropping.grow, 1)
            assert "`grow` should be run in a" in str(e)
            os.chdir(os.path.join(crop.location, "batches"))
            raises(XYZError, cropping.grow, 1)
            snap = check_only_new(snap, [])
            os.chdir(crop.location)
            _, out = quiet(cropping.grow, 2)
            assert out == (
                "xyzpy: loaded batch 2 of edge.\n"
                "xyzpy: success - batch 2 completed.\n"
            ), out
            snap = check_only_new(snap, [2])
            # missing batch file
            raises(FileNotFoundError, cropping.grow, 9)
            raises(FileNotFoundError, cropping.grow, 9, crop=crop)
            raises(FileNotFoundError, crop.grow, 9)
            snap = check_only_new(snap, [])
            # empty batch: the error message wants the crop itself
            empty = os.path.join(crop.location, "batches", BTCH_NM.format(7))
            with open(empty, "wb") as f:
                pickle.dump([], f)
            e = raises(ValueError, cropping.grow, 7, crop=crop, verbosity=2)
            assert str(e) == (
                "Something has gone wrong with the loading of batch "
                "xyz-batch-7.jbdmp for the crop at {}.".format(crop.location)
            ), str(e)
            raises(AttributeError, cropping.grow, 7)
            os.remove(empty)
            os.chdir(here)
            snap = check_only_new(snap, [])
            assert crop.missing_results() == (1, 3, 4)

        # --- mpi rank detection: only rank 0 records the result --------- #
        loaded = "xyzpy: loaded batch 3 of edge.\n"
        success = "xyzpy: success - batch 3 completed.\n"
        f3 = os.path.join(crop.location, "results", RSLT_NM.format(3))
        for env, kws, rank, written in [
            ({"OMPI_COMM_WORLD_RANK": "1"}, {}, 1, False),
            ({"PMI_RANK": "2"}, {}, 2, False),
            ({"OMPI_COMM_WORLD_RANK": "3", "PMI_RANK": "0"}, {}, 3, False),
            ({"OMPI_COMM_WORLD_RANK": "0", "PMI_RANK": "5"}, {}, 0, True),
            ({"OMPI_COMM_WORLD_RANK": "0"}, {}, 0, True),
            ({"PMI_RANK": "0"}, {}, 0, True),
            ({"PMI_RANK": " 00 "}, {}, 0, True),
            ({"OMPI_COMM_WORLD_RANK": "1"}, {"check_mpi": False}, None, True),
            ({"PMI_RANK": "1"}, {"check_mpi": 0}, None, True),
            ({"PMI_RANK": "1"}, {"check_mpi": "yes"}, 1, False),
            ({}, {}, None, True),
            ({}, {"check_mpi": False}, None, True),
        ]:
            for verbosity in (0, 1, 2):
                with environ(**env):
                    _, out = quiet(
                        cropping.grow, 3, crop=crop, verbosity=verbosity, **kws
                    )
                if verbosity == 0:
                    assert out == ""
                elif rank is None:
                    assert out == loaded + success, out
                else:
                    assert out == (
                        loaded
                        + "xyzpy: detected mpi rank {}.\n".format(rank)
                        + success
                    ), out
                assert os.path.exists(f3) == written, (env, kws)
                if written:
                    snap = check_only_new(snap, [3])
                    os.remove(f3)
                    del snap[result_file(3)]
                else:
                    snap = check_only_new(snap, [])
        # ... also through the methods
        with environ(OMPI_COMM_WORLD_RANK="1"):
            quiet(crop.grow, 3)
            quiet(crop.grow_missing)
            snap = check_only_new(snap, [])
            assert crop.missing_results() == (1, 3, 4)
            quiet(crop.grow, 3, verbosity=0)
        with environ(PMI_RANK="0"):
            quiet(crop.grow, 3)
            snap = check_only_new(snap, [3])
        # a bad rank is an error before anything is run
        logdir = os.path.join(parent, "log")
        os.mkdir(logdir)
        with environ(PMI_RANK="zero"):
            raises(
                ValueError, cropping.grow, 1, crop=crop,
                fn=make_logging_fn(logdir),
            )
        with environ(OMPI_COMM_WORLD_RANK="", PMI_RANK="0"):
            raises(
                ValueError, cropping.grow, 1, crop=crop,
                fn=make_logging_fn(logdir),
            )
        assert os.listdir(logdir) == []
        snap = check_only_new(snap, [])

        with environ():
            # --- failing function, sequential ------------------------- #
            # cases are run in order and stop at the failure
            for verbosity in (0, 1, 2):
                e = raises(
                    Boom, cropping.grow, 1, crop=crop,
                    fn=make_logging_fn(logdir, bad=[1]), verbosity=verbosity,
                )
                assert e.args == (1,)
                assert sorted(os.listdir(logdir)) == ["ran-0", "ran-1"]
                for f in os.listdir(logdir):
                    os.remove(os.path.join(logdir, f))
                snap = check_only_new(snap, [])
            # ... an existing result is not clobbered by a failed re-grow
            e = raises(
                Boom, cropping.grow, 2, crop=crop,
                fn=make_logging_fn(logdir, bad=[5]),
            )
            assert sorted(os.listdir(logdir)) == ["ran-3", "ran-4", "ran-5"]
            snap = check_only_new(snap, [])
            assert crop.missing_results() == (1, 4)
            assert crop.is_ready_to_reap() is False
            for f in os.listdir(logdir):
                os.remove(os.path.join(logdir, f))

            # --- the ways of naming batches to Crop.grow ---------------- #
            raises(FileNotFoundError, crop.grow, True)
            snap = check_only_new(snap, [])
            for ids in [(), [], range(0)]:
                try:
                    quiet(crop.grow, ids)
                except Exception:
                    pass
                snap = check_only_new(snap, [])
            import numpy as np

            try:
                quiet(crop.grow, np.int64(1))
            except TypeError:
                snap = check_only_new(snap, [])
            else:
                snap = check_only_new(snap, [1])
                os.remove(os.path.join(crop.location, result_file(1)))
                del snap[result_file(1)]
            os.remove(f3)
            del snap[result_file(3)]
            quiet(crop.grow, iter([4]))
            snap = check_only_new(snap, [4])
            quiet(crop.grow, range(3, 4))
            snap = check_only_new(snap, [3])
            assert crop.missing_results() == (1,)
            # `batch_ids` by keyword, as `grow_missing` does; options are
            # forwarded to the combo runner
            quiet(crop.grow, batch_ids=1, verbosity=0)
            snap = check_only_new(snap, [1])
            assert crop.is_ready_to_reap() is True
            e = raises(TypeError, crop.grow, 1, not_an_option=1)
            # nothing missing -> nothing grown
            try:
                quiet(crop.grow_missing)
            except Exception:
                pass
            snap = check_only_new(snap, [])
            # re-growing rewrites exactly those results
            for i in (2, 3):
                os.remove(os.path.join(crop.location, result_file(i)))
                del snap[result_file(i)]
            assert crop.missing_results() == (2, 3)
            quiet(crop.grow_missing, verbosity=0)
            snap = check_only_new(snap, [2, 3])
            assert crop.is_ready_to_reap() is True

            # --- debugging flag ----------------------------------------- #
            import logging

            root = logging.getLogger()
            level = root.level
            try:
                root.setLevel(logging.WARNING)
                quiet(cropping.grow, 1, crop=crop, verbosity=0)
                assert root.level == logging.WARNING
                quiet(cropping.grow, 1, crop=crop, verbosity=0, debugging=True)
                assert root.level == logging.DEBUG
            finally:
                root.setLevel(level)
            snap = check_only_new(snap, [])

            # --- pool of workers ---------------------------------------- #
            os.remove(os.path.join(crop.location, result_file(1)))
            del snap[result_file(1)]
            from joblib.externals.loky import get_reusable_executor

            try:
                _, out = quiet(
                    cropping.grow, 1, crop=crop, num_workers=2, verbosity=1
                )
                assert out == (
                    "xyzpy: loaded batch 1 of edge.\n"
                    "xyzpy: success - batch 1 completed.\n"
                ), out
                snap = check_only_new(snap, [1])
                quiet(
                    cropping.grow, 4, crop=crop, num_workers=2, verbosity=2,
                    fn=make_logging_fn(logdir),
                )
                assert sorted(os.listdir(logdir)) == ["ran-8", "ran-9"]
                snap = check_only_new(snap, [])
                # every case is submitted up front, even past a failure, but
                # the batch is still not recorded
                os.remove(os.path.join(crop.location, result_file(1)))
                del snap[result_file(1)]
                try:
                    quiet(
                        cropping.grow, 1, crop=crop, num_workers=2,
                        verbosity=0, fn=make_logging_fn(logdir, bad=[0]),
                    )
                except Exception as e:
                    assert type(e).__name__ == "Boom", repr(e)
                else:
                    raise AssertionError("expected failure")
                get_reusable_executor(max_workers=2).shutdown(wait=True)
                assert sorted(os.listdir(logdir)) == [
                    "ran-0", "ran-1", "ran-2", "ran-8", "ran-9",
                ]
                snap = check_only_new(snap, [])
                assert crop.missing_results() == (1,)
                assert crop.is_ready_to_reap() is False
            finally:
                get_reusable_executor().shutdown(wait=True)
    finally:
        os.chdir(here)
        shutil.rmtree(parent, ignore_errors=True)


def main():
    edge_cases()
    with environ():
        random_sequences(96, seed=82)
    print("PASS")


if __name__ == "__main__":
    main()
