"""Demo for C03 twin 1: Dataset assembly (results_to_ds / multi_concat).

Run as ``cd <worktree> && /venv/bin/python /path/to/demo.py``.
"""
import os
import sys

sys.path.insert(0, os.getcwd())

import itertools
import shutil
import tempfile
import warnings
from concurrent.futures import ThreadPoolExecutor

import numpy as np
import xarray as xr

import xyzpy
from xyzpy.gen.combo_runner import (
    combo_runner,
    combo_runner_to_ds,
    combo_runner_to_df,
    results_to_ds,
    multi_concat,
)
from xyzpy.gen.case_runner import case_runner_to_ds, case_runner_to_df

assert os.path.dirname(os.path.dirname(os.path.abspath(xyzpy.__file__))) == \
    os.path.abspath(os.getcwd()), xyzpy.__file__

TS = [0.0, 0.5, 1.0, 1.5]
WS = [10, 20, 30]


# ------------------------------ functions ---------------------------------- #

def f1(a, b, c=1):
    return 100 * a + 10 * b + c


def f3(a, b, t, w=(1, 2, 3), big=None):
    # scalar, 1d and 2d outputs
    off = 0 if big is None else big["off"]
    s = a + 10 * b + off
    v = np.array([a * ti + b for ti in t])
    m = np.array([[a * ti + b * wi for wi in w] for ti in t])
    return s, v, m


def f_str(a, b):
    return "{}-{}".format(a, b), a > b


def f_dataset(a, b, t):
    return xr.Dataset(
        coords={"t": t},
        data_vars={
            "v": ("t", [a * ti + b for ti in t]),
            "s": ((), a - b),
        },
    )


def f_dataarray(a, b, t):
    return xr.DataArray(
        [a * ti + b for ti in t], dims=["t"], coords={"t": t}, name="v"
    )


def f_dict(a, b, t):
    return {"v": ("t", [a * ti + b for ti in t]), "s": a - b}


def check_f3(ds, a, b, t=TS, w=WS, off=0):
    s, v, m = f3(a, b, t, w, {"off": off})
    p = ds.sel(a=a, b=b)
    assert p["s"].item() == s
    assert p["v"].dims == ("t",) and np.array_equal(p["v"].values, v)
    assert p["m"].dims == ("t", "w") and np.array_equal(p["m"].values, m)


# --------------------------- combos -> Dataset ----------------------------- #

def test_combos_three_outputs():
    A, B = [3, 1, 2], [5.0, 4.0]
    spellings = [
        {"v": ["t"], "m": ["t", "w"]},
        {"v": "t", "m": ("t", "w")},
        [("v", "t"), ("m", ["t", "w"])],
        (("v", ("t",)), ("m", ("t", "w")), ("s", ())),
        {("v",): "t", "m": ["t", "w"], "s": ()},
    ]
    execs = [
        {},
        {"shuffle": True},
        {"shuffle": 7},
        {"parallel": 2},
        {"num_workers": 2, "shuffle": 3},
    ]
    ref = None
    for var_dims, opts in itertools.product(spellings, execs):
        if opts and var_dims is not spellings[0]:
            continue
        ds = combo_runner_to_ds(
            f3,
            combos={"a": A, "b": B},
            var_names=["s", "v", "m"],
            var_dims=var_dims,
            var_coords={"w": WS},
            constants={"t": TS, "w": WS},
            resources={"big": {"off": 1000}},
            attrs={"note": "hello", "version": 3},
            verbosity=0,
            **opts
        )
        # swept dims first, in the order given, values in the order given
        assert ds["s"].dims == ("a", "b")
        assert ds["v"].dims == ("a", "b", "t")
        assert ds["m"].dims == ("a", "b", "t", "w")
        assert list(ds["a"].values) == A and list(ds["b"].values) == B
        # constants naming dims -> coords, else would be attrs
        assert list(ds["t"].values) == TS and list(ds["w"].values) == WS
        assert "t" not in ds.attrs and "w" not in ds.attrs
        # resources never recorded, attrs kept
        assert "big" not in ds.attrs and "big" not in ds.coords
        assert "big" not in ds.variables
        assert ds.attrs == {"note": "hello", "version": 3}
        for a, b in itertools.product(A, B):
            check_f3(ds, a, b, off=1000)
        if ref is None:
            ref = ds
        assert ds.identical(ref)


def test_constants_as_attrs_and_single_output():
    for var_names in ["out", ["out"], ("out",)]:
        ds = combo_runner_to_ds(
            f1,
            combos=[("a", [2, 1]), ("b", (3, 4, 5))],
            var_names=var_names,
            constants={"c": 7},
            attrs={"who": "me"},
            verbosity=0,
        )
        assert ds["out"].dims == ("a", "b")
        assert ds.attrs == {"who": "me", "c": 7}
        assert list(ds.attrs) == ["who", "c"]
        assert "c" not in ds.coords
        assert list(ds["a"].values) == [2, 1]
        for a, b in itertools.product([2, 1], [3, 4, 5]):
            assert ds["out"].sel(a=a, b=b).item() == f1(a, b, 7)
    # no attrs given, constant still recorded
    ds = combo_runner_to_ds(f1, {"a": [1], "b": [2]}, "out",
                            constants={"c": 5}, verbosity=0)
    assert ds.attrs == {"c": 5}
    # single tuple combo spelling
    ds = combo_runner_to_ds(f1, ("a", [1, 2]), "out",
                            constants={"c": 5, "b": 0}, verbosity=0)
    assert ds["out"].dims == ("a",) and ds.attrs == {"c": 5, "b": 0}
    assert ds["out"].values.tolist() == [105, 205]


def test_single_array_output_and_var_coords_only():
    def g(a, n=4):
        return [a * i for i in range(n)]

    ds = combo_runner_to_ds(g, {"a": [1, 2, 3]}, "x", var_dims="i",
                            var_coords={"i": [0, 10, 20, 30]}, verbosity=0)
    assert ds["x"].dims == ("a", "i")
    assert list(ds["i"].values) == [0, 10, 20, 30]
    assert ds["x"].sel(a=3, i=20).item() == 6
    # var_coords overriding a combo name keeps the key position of the combo
    ds2 = combo_runner_to_ds(g, {"a": [1, 2, 3]}, "x", var_dims=["i"],
                             verbosity=0)
    assert ds2["x"].dims == ("a", "i") and "i" not in ds2.coords


def test_positional_var_dims():
    def g2(a, t, w):
        return f3(a, 1, t, w)[1:]

    for var_dims in (["t", ("t", "w")], (("t",), ["t", "w"])):
        ds = combo_runner_to_ds(g2, {"a": [5, 4]}, ("v", "m"),
                                var_dims=var_dims,
                                constants={"t": TS, "w": WS}, verbosity=0)
        assert ds["v"].dims == ("a", "t") and ds["m"].dims == ("a", "t", "w")
        _, v, m = f3(4, 1, TS, WS)
        assert np.array_equal(ds["v"].sel(a=4).values, v)
        assert np.array_equal(ds["m"].sel(a=4).values, m)
        assert ds["m"].sel(a=5, t=1.5, w=20).item() == 5 * 1.5 + 20


def test_string_and_bool_outputs():
    ds = combo_runner_to_ds(f_str, {"a": [1, 2], "b": [1, 3]},
                            ["lab", "gt"], verbosity=0)
    assert ds["lab"].sel(a=2, b=3).item() == "2-3"
    assert bool(ds["gt"].sel(a=2, b=1).item()) is True
    assert bool(ds["gt"].sel(a=1, b=3).item()) is False


def test_wrong_number_of_results():
    try:
        combo_runner_to_ds(f3, {"a": [1], "b": [2]}, ["s", "v"],
                           constants={"t": TS}, verbosity=0)
    except ValueError as e:
        assert str(e) == ("Wrong number of results (3) for 2 ``var_names``: "
                          "('s', 'v')."), str(e)
    else:
        raise AssertionError("no error")

    try:
        results_to_ds(((1, 2), (3, 4)), (("a", [1, 2]), ("b", [1, 2])),
                      var_names=["x", "y", "z"], var_dims={}, var_coords={})
    except ValueError as e:
        assert str(e) == ("Wrong number of results (2) for 3 ``var_names``: "
                          "['x', 'y', 'z']."), str(e)
    else:
        raise AssertionError("no error")


def test_results_to_ds_direct():
    combos = (("a", [1, 2]), ("b", [10, 20, 30]))
    res = combo_runner(f1, combos, constants={"c": 0}, verbosity=0)
    with warnings.catch_warnings():
        warnings.simplefilter("error")
        ds = results_to_ds(res, combos, var_names=("out",),
                           var_dims={"out": ()}, var_coords={},
                           constants={"c": 0, "b": [10, 20, 30]},
                           attrs={"z": 1})
    assert ds.attrs == {"z": 1, "c": 0}
    assert ds["out"].sel(a=2, b=30).item() == f1(2, 30, 0)
    # multiple variables, split form
    res = combo_runner(f3, combos, constants={"t": TS, "w": WS}, split=True,
                       verbosity=0)
    ds = results_to_ds(res, combos, var_names=("s", "v", "m"),
                       var_dims={"s": (), "v": ("t",), "m": ("t", "w")},
                       var_coords={"t": TS, "w": WS})
    check_f3(ds, 2, 20)
    assert ds.attrs == {}


# ------------------------- labelled (xarray) outputs ----------------------- #

def test_xobj_outputs():
    A, B = [2, 1], [0.5, 1.5, 2.5]
    for fn in (f_dataset, f_dict, f_dataarray):
        for opts in ({}, {"shuffle": 2}, {"executor": "thread"}):
            opts = dict(opts)
            pool = None
            if opts.get("executor") == "thread":
                pool = ThreadPoolExecutor(2)
                opts["executor"] = pool
            try:
                ds = combo_runner_to_ds(
                    fn, {"a": A, "b": B}, var_names=None,
                    constants={"t": TS}, attrs={"k": "v"}, verbosity=0,
                    **opts
                )
            finally:
                if pool is not None:
                    pool.shutdown()
            arr = ds if isinstance(ds, xr.DataArray) else ds["v"]
            assert arr.dims == ("a", "b", "t")
            assert list(ds["a"].values) == A and list(ds["b"].values) == B
            assert list(ds["t"].values) == TS
            assert ds.attrs == {"k": "v"}
            for a, b in itertools.product(A, B):
                want = [a * ti + b for ti in TS]
                assert arr.sel(a=a, b=b).values.tolist() == want
                if fn is not f_dataarray:
                    assert ds["s"].sel(a=a, b=b).item() == a - b

    # single swept dimension -> one level of concatenation
    ds = combo_runner_to_ds(f_dict, {"a": [4, 5]}, None,
                            constants={"t": TS, "b": 1}, verbosity=0)
    assert ds["v"].dims == ("a", "t") and ds.attrs == {"b": 1}
    assert ds["v"].sel(a=5).values.tolist() == [5 * ti + 1 for ti in TS]

    # multi_concat directly, mixed dict / dataset leaves
    nested = [[f_dict(a, b, TS) if b else f_dataset(a, b, TS)
               for b in (0, 1)] for a in (1, 2, 3)]
    out = multi_concat(nested, ("a", "b"))
    assert out["v"].dims == ("a", "b", "t") and out["v"].shape == (3, 2, 4)
    assert out["v"].values[2, 1].tolist() == [3 * ti + 1 for ti in TS]

    # cases with labelled outputs: missing points are nan
    ds = case_runner_to_ds(f_dataset, ("a", "b"), [(1, 2), (3, 4)], None,
                           constants={"t": TS}, verbosity=0)
    assert ds["v"].dims == ("a", "b", "t")
    assert ds["v"].sel(a=3, b=4).values.tolist() == [3 * t + 4 for t in TS]
    assert ds["v"].sel(a=1, b=4).isnull().all()
    assert ds["s"].sel(a=1, b=2).item() == -1


# ----------------------------- cases -> Dataset ---------------------------- #

def test_cases():
    cases = [(3, 30), (1, 10), (2, 30), (1, 20)]
    for opts in ({}, {"shuffle": True}, {"parallel": True, "num_workers": 2}):
        ds = case_runner_to_ds(
            f3, ("a", "b"), cases, ["s", "v", "m"],
            var_dims={"v": "t", "m": ["t", "w"]},
            constants={"t": TS, "w": WS},
            resources={"big": {"off": 5}},
            attrs={"n": 1}, verbosity=0, **opts
        )
        # sorted union
        assert list(ds["a"].values) == [1, 2, 3]
        assert list(ds["b"].values) == [10, 20, 30]
        assert ds["m"].dims == ("a", "b", "t", "w")
        assert ds.attrs == {"n": 1}
        for a, b in itertools.product([1, 2, 3], [10, 20, 30]):
            if (a, b) in cases:
                check_f3(ds, a, b, off=5)
            else:
                p = ds.sel(a=a, b=b)
                assert p["s"].isnull().all() and p["v"].isnull().all()
                assert p["m"].isnull().all()

    # dict cases + sub-combos, constant as attribute
    ds = case_runner_to_ds(
        f1, None, [{"a": 2}, {"a": 1}], "out", combos={"b": [9, 8]},
        constants={"c": 3}, verbosity=0,
    )
    assert ds["out"].dims == ("a", "b")
    assert list(ds["a"].values) == [1, 2] and list(ds["b"].values) == [9, 8]
    assert ds.attrs == {"c": 3}
    assert ds["out"].sel(a=2, b=8).item() == f1(2, 8, 3)


# ----------------------------- Runner / label ------------------------------ #

def test_runner_and_label():
    r = xyzpy.Runner(
        f3, var_names=["s", "v", "m"], fn_args=["a", "b"],
        var_dims={"v": ["t"], "m": ["t", "w"]},
        var_coords={"w": WS}, constants={"t": TS, "w": WS},
        resources={"big": {"off": 2}}, attrs={"made": "runner"},
        verbosity=0,
    )
    ds = r.run_combos({"a": [2, 1], "b": [7]})
    assert ds is r.last_ds
    assert list(ds["a"].values) == [2, 1]
    check_f3(ds, 1, 7, off=2)
    assert ds.attrs == {"made": "runner"}
    ds = r.run_combos({"a": [2, 1], "b": [7, 8]}, shuffle=True, parallel=2)
    check_f3(ds, 2, 8, off=2)
    ds = r.run_cases([(2, 7), (1, 8)])
    assert list(ds["a"].values) == [1, 2]
    check_f3(ds, 1, 8, off=2)
    assert ds["s"].sel(a=1, b=7).isnull().item()
    # extra constant for this run only -> attribute
    r2 = xyzpy.Runner(f1, "out", constants={"c": 1}, verbosity=0)
    ds = r2.run_combos({"a": [1, 2]}, constants={"b": 5})
    assert ds.attrs == {"c": 1, "b": 5}
    assert ds["out"].sel(a=2).item() == f1(2, 5, 1)

    @xyzpy.label(var_names=["sum", "diff"], constants={"c": 2},
                 attrs={"x": "y"}, verbosity=0)
    def foo(a, b, c):
        return a + b + c, a - b - c

    ds = foo.run_combos({"a": [1, 2, 3], "b": [10, 20]})
    assert ds["sum"].dims == ("a", "b")
    assert ds["diff"].sel(a=3, b=10).item() == -9
    assert ds.attrs == {"x": "y", "c": 2}
    ds = foo.run_cases([{"a": 5, "b": 6}, {"a": 1, "b": 2}], shuffle=4)
    assert ds["sum"].sel(a=5, b=6).item() == 13
    assert ds["sum"].sel(a=5, b=2).isnull().item()


# ------------------------------ DataFrame ---------------------------------- #

def test_dataframes():
    for opts in ({}, {"shuffle": True}, {"shuffle": 5, "parallel": 2}):
        df = combo_runner_to_df(
            f_str, {"a": [3, 1, 2], "b": [2, 5]}, ["lab", "gt"],
            attrs={"tag": "T"}, verbosity=0, **opts
        )
        assert list(df.columns) == ["a", "b", "tag", "lab", "gt"]
        assert len(df) == 6
        want = list(itertools.product([3, 1, 2], [2, 5]))
        assert list(zip(df["a"], df["b"])) == want
        for _, row in df.iterrows():
            assert (row["lab"], row["gt"]) == f_str(row["a"], row["b"])
            assert row["tag"] == "T"
    df = case_runner_to_df(f1, ("a", "b"), [(1, 2), (3, 4)], "out",
                           constants={"c": 9}, shuffle=True, verbosity=0)
    assert list(df.columns) == ["a", "b", "c", "out"]
    assert df["out"].tolist() == [f1(1, 2, 9), f1(3, 4, 9)]


def main():
    tmp = tempfile.mkdtemp(prefix="c03_t1_")
    try:
        test_combos_three_outputs()
        test_constants_as_attrs_and_single_output()
        test_single_array_output_and_var_coords_only()
        test_positional_var_dims()
        test_string_and_bool_outputs()
        test_wrong_number_of_results()
        test_results_to_ds_direct()
        test_xobj_outputs()
        test_cases()
        test_runner_and_label()
        test_dataframes()
        # a netcdf round trip of a produced dataset keeps all labels
        ds = combo_runner_to_ds(f1, {"a": [1, 2], "b": [3]}, "out",
                                constants={"c": 4}, attrs={"q": "r"},
                                verbosity=0)
        xyzpy.save_ds(ds, os.path.join(tmp, "x.h5"))
        ds2 = xyzpy.load_ds(os.path.join(tmp, "x.h5"))
        assert ds2["out"].sel(a=2, b=3).item() == f1(2, 3, 4)
        assert ds2.attrs["c"] == 4 and ds2.attrs["q"] == "r"
        ds2.close()
    finally:
        shutil.rmtree(tmp, ignore_errors=True)
    print("PASS")


if __name__ == "__main__":
    main()
