"""Demo for the t8 refactoring (helpers extracted from save_ds / load_ds /
save_merge_ds / Harvester.{load,save}_full_ds).

Run as:  cd <worktree> && /venv/bin/python /path/to/demo.py
Prints PASS and exits 0 on the unmodified tree and with the patch applied.
"""
import os
import sys

sys.path.insert(0, os.getcwd())

import itertools
import shutil
import tempfile
import warnings

import numpy as np
import xarray as xr

warnings.filterwarnings("ignore")

import xyzpy
from xyzpy import manage
from xyzpy.manage import (
    auto_add_extension, load_ds, save_ds, save_merge_ds,
)
from xyzpy.gen import farming
from xyzpy import Runner, Harvester

assert os.path.dirname(os.path.abspath(xyzpy.__file__)) == os.path.join(
    os.getcwd(), "xyzpy"), xyzpy.__file__

FAILURES = []


def check(cond, msg):
    if not cond:
        FAILURES.append(msg)


ENGINES = ["h5netcdf", "joblib"]
EXT = {"h5netcdf": ".h5", "joblib": ".dmp"}


# --------------------------------------------------------------------------- #
#                               example datasets                               #
# --------------------------------------------------------------------------- #

def make_datasets():
    rng = np.random.default_rng(42)
    out = {}

    # 0 dimensions
    out["0d"] = xr.Dataset(
        data_vars={"s": ((), 3.5), "n": ((), 7), "c": ((), 1.0 - 2.0j)},
        attrs={"title": "scalar"},
    )

    # 1 dimension, int coords, floats with NaN and bools
    x = rng.standard_normal(5)
    x[[1, 3]] = np.nan
    out["1d"] = xr.Dataset(
        coords={"a": [1, 2, 3, 4, 5]},
        data_vars={
            "x": ("a", x),
            "odd": ("a", np.array([True, False, True, False, True])),
            "k": ("a", np.arange(5) * 10),
        },
        attrs={"foo": "bar", "n": 3, "w": 0.25},
    )

    # 2 dimensions, str coords, complex with NaN, str variable
    z = rng.standard_normal((3, 4)) + 1.0j * rng.standard_normal((3, 4))
    z[0, 0] = np.nan
    z[2, :] = np.nan
    out["2d"] = xr.Dataset(
        coords={"b": ["l1", "l2", "l4"], "a": [0.5, 1.5, 2.5, 3.5]},
        data_vars={
            "z": (("b", "a"), z),
            "name": ("b", np.array(["p", "qq", "rrr"])),
        },
        attrs={"foo": "bar"},
    )

    # 3 dimensions, a non-index coordinate
    y = rng.standard_normal((2, 3, 2))
    y[1, 1, :] = np.nan
    out["3d"] = xr.Dataset(
        coords={"a": [1, 2], "b": [10.0, 20.0, 30.0], "c": ["u", "v"],
                "lab": ("a", [100, 200])},
        data_vars={"y": (("a", "b", "c"), y),
                   "m": (("a", "c"), np.array([[1, 2], [3, 4]]))},
    )

    # 4 dimensions, complex + real
    w = rng.standard_normal((2, 2, 3, 2))
    out["4d"] = xr.Dataset(
        coords={"a": [1, 2], "b": [1, 2], "c": [1, 2, 3], "d": ["x", "y"]},
        data_vars={"w": (("a", "b", "c", "d"), w),
                   "v": (("a", "b", "c", "d"), w * (1 + 2j))},
        attrs={"run": 4},
    )
    return out


# --------------------------------------------------------------------------- #
#                           1. file names / extension                          #
# --------------------------------------------------------------------------- #

def test_names():
    cases = [
        (("data", "h5netcdf"), "data.h5"),
        (("data", "netcdf4"), "data.nc"),
        (("data", "joblib"), "data.dmp"),
        (("data", "zarr"), "data.zarr"),
        (("data.h5", "joblib"), "data.h5"),
        (("data.nc", "h5netcdf"), "data.nc"),
        (("data.dmp", "h5netcdf"), "data.dmp"),
        (("data.zarr", "joblib"), "data.zarr"),
        # the check is a substring check
        (("my.h5data", "joblib"), "my.h5data"),
        (("data.h5.tmp", "h5netcdf"), "data.h5.tmp"),
        (("dir.nc/data", "joblib"), "dir.nc/data"),
        (("data.hdf5", "h5netcdf"), "data.hdf5.h5"),
        (("", "joblib"), ".dmp"),
    ]
    for args, expected in cases:
        check(auto_add_extension(*args) == expected,
              "auto_add_extension%r -> %r" % (args, auto_add_extension(*args)))

    # unknown engine only matters when an extension has to be added
    check(auto_add_extension("x.h5", "bogus") == "x.h5", "bogus with ext")
    try:
        auto_add_extension("x", "bogus")
        check(False, "bogus engine without extension should raise KeyError")
    except KeyError:
        pass


# --------------------------------------------------------------------------- #
#                            2. save / load round trip                         #
# --------------------------------------------------------------------------- #

def test_round_trip(tmp):
    dss = make_datasets()
    for (label, ds), engine, with_ext in itertools.product(
            dss.items(), ENGINES, [False, True]):
        d = tempfile.mkdtemp(dir=tmp)
        base = os.path.join(d, "data")
        given = base + EXT[engine] if with_ext else base
        orig = ds.copy(deep=True)
        ret = save_ds(ds, given, engine=engine)
        check(ret is None, "save_ds returns None")
        check(os.listdir(d) == ["data" + EXT[engine]],
              "%s/%s/%s files: %r" % (label, engine, with_ext, os.listdir(d)))
        # nothing about the dataset saved has changed
        check(ds.identical(orig), "%s %s changed by save" % (label, engine))

        for name in (base, base + EXT[engine]):
            back = load_ds(name, engine=engine)
            check(back.identical(orig),
                  "%s/%s round trip via %s" % (label, engine, name))
            check(dict(back.sizes) == dict(orig.sizes), "sizes " + label)
            for v in orig.variables:
                check(back[v].dtype.kind == orig[v].dtype.kind,
                      "%s/%s dtype kind of %s: %s != %s" % (
                          label, engine, v, back[v].dtype, orig[v].dtype))
                a, b = orig[v].values, back[v].values
                if a.dtype.kind in "fc":
                    check(np.array_equal(np.isnan(a), np.isnan(b)),
                          "nan pattern " + label + v)
            if engine != "joblib":
                # in memory, file released
                check(all(x._in_memory for x in back.variables.values()),
                      "%s/%s not in memory" % (label, engine))
        shutil.rmtree(d)


# --------------------------------------------------------------------------- #
#                       3. attributes: None / True / False                     #
# --------------------------------------------------------------------------- #

def test_attrs(tmp):
    def fresh():
        return xr.Dataset(
            coords={"a": [1, 2]}, data_vars={"x": ("a", [1.0, np.nan])},
            attrs={"n": None, "t": True, "f": False, "one": 1, "zero": 0,
                   "fl": 1.0, "s": "None", "e": ""},
        )

    # netcdf: documented rewriting, also applied in place
    ds = fresh()
    fname = os.path.join(tmp, "attrs_nc")
    save_ds(ds, fname)
    expected = {"n": "None", "t": "True", "f": "False", "one": 1, "zero": 0,
                "fl": 1.0, "s": "None", "e": ""}
    check(dict(ds.attrs) == expected and
          all(type(ds.attrs[k]) is type(expected[k]) for k in expected),
          "in-place rewriting: %r" % dict(ds.attrs))
    back = load_ds(fname)
    for k, v in expected.items():
        check(back.attrs[k] == v, "attr %s: %r != %r" % (k, back.attrs[k], v))
        check(isinstance(back.attrs[k], str) == isinstance(v, str),
              "attr %s str-ness" % k)
    check(list(back.attrs) == list(expected), "attr order")
    check(back.identical(ds), "attrs dataset identical after rewriting")

    # joblib: nothing rewritten
    ds = fresh()
    fname = os.path.join(tmp, "attrs_jl")
    save_ds(ds, fname, engine="joblib")
    check(ds.attrs["n"] is None and ds.attrs["t"] is True and
          ds.attrs["f"] is False, "joblib must not rewrite attrs")
    back = load_ds(fname, engine="joblib")
    check(back.attrs["n"] is None and back.attrs["t"] is True and
          back.attrs["f"] is False and back.attrs["one"] == 1 and
          back.attrs["one"] is not True, "joblib attrs round trip")
    check(back.identical(fresh()), "joblib identical")


# --------------------------------------------------------------------------- #
#                   4. options handed to the xarray back end                   #
# --------------------------------------------------------------------------- #

def test_backend_calls(tmp):
    dss = make_datasets()
    calls = []
    orig_to_netcdf = xr.Dataset.to_netcdf

    def spy(self, *args, **kwargs):
        calls.append((args, dict(kwargs), dict(self.attrs)))
        return orig_to_netcdf(self, *args, **kwargs)

    xr.Dataset.to_netcdf = spy
    try:
        f1 = os.path.join(tmp, "spy_real")
        ds = dss["1d"].copy()
        ds.attrs["q"] = None
        save_ds(ds, f1)
        f2 = os.path.join(tmp, "spy_cplx.h5")
        save_ds(dss["2d"], f2)
        f3 = os.path.join(tmp, "spy_opts")
        save_ds(dss["1d"], f3, invalid_netcdf=False, mode="w")
        f4 = os.path.join(tmp, "spy_cplx_user")
        save_ds(dss["4d"], f4, invalid_netcdf=True, format="NETCDF4")
        # complex *coordinate* only
        dsc = xr.Dataset(coords={"q": [1j, 2j]},
                         data_vars={"r": ("q", [1.0, 2.0])})
        f5 = os.path.join(tmp, "spy_ccoord")
        save_ds(dsc, f5)
        save_ds(dss["1d"], os.path.join(tmp, "spy_jl"), engine="joblib")
    finally:
        xr.Dataset.to_netcdf = orig_to_netcdf

    expected = [
        ((f1 + ".h5",), {"engine": "h5netcdf"}),
        ((f2,), {"engine": "h5netcdf", "invalid_netcdf": True}),
        ((f3 + ".h5",), {"engine": "h5netcdf", "invalid_netcdf": False,
                         "mode": "w"}),
        ((f4 + ".h5",), {"engine": "h5netcdf", "invalid_netcdf": True,
                         "format": "NETCDF4"}),
        ((f5 + ".h5",), {"engine": "h5netcdf", "invalid_netcdf": True}),
    ]
    check([c[:2] for c in calls] == expected,
          "to_netcdf calls: %r" % [c[:2] for c in calls])
    # attributes were already rewritten when the file was written
    check(calls and calls[0][2].get("q") == "None", "attrs rewritten first")
    check(load_ds(f5).identical(dsc), "complex coordinate round trip")

    # joblib options are passed through to joblib.dump / joblib.load
    f6 = os.path.join(tmp, "jl_opts")
    save_ds(dss["3d"], f6, engine="joblib", compress=3)
    check(load_ds(f6, engine="joblib", mmap_mode=None).identical(dss["3d"]),
          "joblib with options")


# --------------------------------------------------------------------------- #
#                       5. load_to_mem / chunks / create_new                   #
# --------------------------------------------------------------------------- #

def in_memory(ds):
    return all(v._in_memory for v in ds.variables.values()
               if v.dims and not isinstance(v, xr.IndexVariable))


def test_load_modes(tmp):
    dss = make_datasets()
    for label in ("1d", "2d", "3d", "4d"):
        ds = dss[label]
        fname = os.path.join(tmp, "modes_" + label)
        save_ds(ds, fname)
        eager = load_ds(fname)
        check(in_memory(eager), label + " eager in memory")
        check(eager.identical(ds), label + " eager identical")

        first = list(ds.sizes)[0]
        for chunks in (1, 2, {first: 1}, {}):
            lazy = load_ds(fname, chunks=chunks)
            check(not in_memory(lazy), "%s chunks=%r is lazy" % (label, chunks))
            dvs = [v for v in lazy.data_vars.values() if v.dims]
            check(all(v.chunks is not None for v in dvs),
                  "%s chunks=%r dask" % (label, chunks))
            check(lazy.identical(eager),
                  "%s chunks=%r values differ from in-memory" % (
                      label, chunks))
            check(lazy.compute().identical(ds), "computed lazy identical")
            if chunks == 1:
                check(all(set(c) == {1} for c in lazy.chunks.values()),
                      "chunk sizes 1: %r" % (dict(lazy.chunks),))
            lazy.close()

        # explicit flags
        for ltm in (False, 0):
            nolo = load_ds(fname, load_to_mem=ltm)
            check(not in_memory(nolo), "load_to_mem=%r lazy" % (ltm,))
            check(nolo.identical(ds), "load_to_mem=%r identical" % (ltm,))
            nolo.close()
        # (historical behaviour) an explicit True without chunks is *not*
        # read into memory either
        hist = load_ds(fname, load_to_mem=True)
        check(not in_memory(hist), "load_to_mem=True historical laziness")
        check(hist.identical(ds), "load_to_mem=True identical")
        hist.close()
        nolo = load_ds(fname, load_to_mem=False, chunks=1)
        check(not in_memory(nolo) and nolo.identical(ds), "False + chunks")
        nolo.close()

        try:
            load_ds(fname, load_to_mem=True, chunks=1)
            check(False, "load_to_mem + chunks should raise")
        except ValueError as e:
            check(str(e) == "``chunks`` redundant if ``load_to_mem`` given.",
                  "message: %s" % e)

    # joblib ignores these flags altogether (no error)
    fj = os.path.join(tmp, "modes_jl")
    save_ds(dss["2d"], fj, engine="joblib")
    check(load_ds(fj, engine="joblib", load_to_mem=True,
                  chunks=1).identical(dss["2d"]), "joblib flags ignored")

    # create_new and missing files
    for engine in ENGINES:
        missing = os.path.join(tmp, "nothing_here_" + engine)
        blank = load_ds(missing, engine=engine, create_new=True)
        check(isinstance(blank, xr.Dataset) and blank.identical(xr.Dataset()),
              "create_new blank " + engine)
        check(not os.path.exists(missing + EXT[engine]),
              "create_new must not create a file")
        try:
            load_ds(missing, engine=engine)
            check(False, "missing file should raise " + engine)
        except FileNotFoundError:
            pass
        # a missing file is found missing before the flags are looked at
        blank = load_ds(missing, engine=engine, create_new=True,
                        load_to_mem=True, chunks=1)
        check(blank.identical(xr.Dataset()), "create_new before flag check")
    # create_new with an existing file loads it
    check(load_ds(fj, engine="joblib", create_new=True).identical(dss["2d"]),
          "create_new existing")
    try:
        load_ds(os.path.join(tmp, "nothing_here"), load_to_mem=True, chunks=2)
        check(False, "flag check should come before opening")
    except ValueError:
        pass


def test_netcdf4_fallback(tmp):
    """h5netcdf choking with an AttributeError -> second try with netcdf4."""
    calls = []

    class FakeDS:
        def __init__(self):
            self.log = []

        def load(self):
            self.log.append("load")
            return self

        def close(self):
            self.log.append("close")

    def make_fake(fail_with, n_fail=1):
        state = {"n": 0}

        def fake_open(file_name, **opts):
            calls.append((file_name, dict(opts)))
            state["n"] += 1
            if state["n"] <= n_fail:
                raise fail_with
            return FakeDS()
        return fake_open

    fname = os.path.join(tmp, "exists.h5")
    open(fname, "w").close()
    real_open = xr.open_dataset
    try:
        # 1. the fallback, in-memory
        del calls[:]
        manage.xr.open_dataset = make_fake(
            AttributeError("'X' object has no attribute 'y'"))
        out = load_ds(fname, decode_times=False)
        check(calls == [
            (fname, {"engine": "h5netcdf", "chunks": None,
                     "decode_times": False}),
            (fname, {"engine": "netcdf4", "chunks": None,
                     "decode_times": False}),
        ], "fallback calls %r" % calls)
        check(isinstance(out, FakeDS) and out.log == ["load", "close"],
              "fallback result loaded then closed")

        # 2. the fallback, lazily
        del calls[:]
        manage.xr.open_dataset = make_fake(
            AttributeError("'X' object has no attribute 'y'"))
        out = load_ds(fname, chunks={"a": 2})
        check([c[1] for c in calls] == [
            {"engine": "h5netcdf", "chunks": {"a": 2}},
            {"engine": "netcdf4", "chunks": {"a": 2}}], "lazy fallback calls")
        check(out.log == [], "lazy result neither loaded nor closed")

        # 3. other AttributeErrors / other engines / second failure propagate
        for engine, err in [
            ("h5netcdf", AttributeError("something else")),
            ("netcdf4", AttributeError("'X' object has no attribute 'y'")),
        ]:
            del calls[:]
            manage.xr.open_dataset = make_fake(err)
            try:
                load_ds(fname, engine=engine)
                check(False, "should have raised")
            except AttributeError as e:
                check(e is err, "same exception object re-raised")
            check(len(calls) == 1, "no second try: %r" % calls)

        del calls[:]
        err = AttributeError("'X' object has no attribute 'y'")
        manage.xr.open_dataset = make_fake(err, n_fail=2)
        try:
            load_ds(fname)
            check(False, "second failure should propagate")
        except AttributeError as e:
            check(e is err, "second failure propagates")
        check(len(calls) == 2, "two tries")

        # 4. other exception types are not caught
        del calls[:]
        err = OSError("no attribute")
        manage.xr.open_dataset = make_fake(err)
        try:
            load_ds(fname)
            check(False, "OSError should propagate")
        except OSError as e:
            check(e is err, "OSError propagates")
        check(len(calls) == 1, "one try for OSError")
    finally:
        manage.xr.open_dataset = real_open


# --------------------------------------------------------------------------- #
#                                6. save_merge_ds                              #
# --------------------------------------------------------------------------- #

def test_save_merge(tmp):
    rng = np.random.default_rng(7)
    ds1 = xr.Dataset(
        coords={"b": ["l1", "l2", "l4"], "a": [1, 2, 3, 4]},
        data_vars={"x": (("b", "a"), rng.standard_normal((3, 4)) +
                         1j * rng.standard_normal((3, 4))),
                   "isodd": ("a", np.array([True, False, True, False]))},
        attrs={"foo": "bar"})
    ds2 = xr.Dataset(
        coords={"b": ["l3", "l5"], "a": [3, 4, 5]},
        data_vars={"x": (("b", "a"), rng.standard_normal((2, 3)) +
                         1j * rng.standard_normal((2, 3))),
                   "isodd": ("a", np.array([True, False, True]))},
        attrs={"bar": "baz"})
    ds3 = xr.Dataset(
        coords={"b": ["l5"], "a": [4]},
        data_vars={"x": (("b", "a"), [[123. + 456.0j]]),
                   "isodd": ("a", np.array([True]))},
        attrs={"baz": "qux"})

    for engine, with_ext, explicit in itertools.product(
            ENGINES, [False, True], [False, True]):
        if engine != "h5netcdf" and not explicit:
            continue
        kw = {"engine": engine} if explicit else {}
        d = tempfile.mkdtemp(dir=tmp)
        base = os.path.join(d, "merged")
        fname = base + EXT[engine] if with_ext else base
        tag = "save_merge %s ext=%s explicit=%s: " % (engine, with_ext,
                                                      explicit)

        save_merge_ds(ds1.copy(deep=True), fname, **kw)
        check(os.listdir(d) == ["merged" + EXT[engine]],
              tag + "files %r" % os.listdir(d))
        exp1 = xr.merge([xr.Dataset(), ds1])
        check(load_ds(fname, **kw).identical(exp1), tag + "first")
        check(load_ds(fname, **kw).equals(ds1), tag + "first values")

        save_merge_ds(ds2.copy(deep=True), fname, **kw)
        exp12 = xr.merge([exp1, ds2])
        check(load_ds(fname, **kw).identical(exp12), tag + "second merged")
        check(load_ds(fname, **kw).equals(xr.merge([ds1, ds2])),
              tag + "second merged values")

        try:
            save_merge_ds(ds3.copy(deep=True), fname, **kw)
            check(False, tag + "conflict should raise")
        except xr.MergeError:
            pass
        check(load_ds(fname, **kw).identical(exp12), tag + "kept on conflict")

        save_merge_ds(ds3.copy(deep=True), fname, overwrite=False, **kw)
        check(load_ds(fname, **kw).identical(exp12.combine_first(ds3)),
              tag + "overwrite=False")

        save_merge_ds(ds3.copy(deep=True), fname, overwrite=True, **kw)
        check(load_ds(fname, **kw).identical(ds3.combine_first(exp12)),
              tag + "overwrite=True")
        check(os.listdir(d) == ["merged" + EXT[engine]],
              tag + "files at end %r" % os.listdir(d))
        shutil.rmtree(d)

    # integer labels on file, fractional label merged in (dtype encodings of
    # the file are not re-applied)
    fname = os.path.join(tmp, "enc")
    a = xr.Dataset(coords={"t": [1, 2]}, data_vars={"v": ("t", [1.0, 2.0])})
    b = xr.Dataset(coords={"t": [2.5]}, data_vars={"v": ("t", [9.0])})
    save_merge_ds(a, fname)
    save_merge_ds(b, fname)
    check(load_ds(fname).identical(xr.merge([a, b])), "encoding forgotten")

    # extra options reach save_ds
    fname = os.path.join(tmp, "jl_merge")
    save_merge_ds(ds1.copy(deep=True), fname, engine="joblib", compress=1)
    save_merge_ds(ds2.copy(deep=True), fname, engine="joblib", compress=1)
    check(load_ds(fname, engine="joblib").equals(xr.merge([ds1, ds2])),
          "joblib merge with options")


# --------------------------------------------------------------------------- #
#                          7. Harvester on-disk dataset                        #
# --------------------------------------------------------------------------- #

def fn(a, b):
    return a + b, a - b * 1j


def test_harvester(tmp):
    for engine, with_ext, call_engine in itertools.product(
            ENGINES, [False, True], [None, "same", "other"]):
        d = tempfile.mkdtemp(dir=tmp)
        base = os.path.join(d, "harvest")
        data_name = base + EXT[engine] if with_ext else base
        r = Runner(fn, var_names=["s", "d"])
        h = Harvester(r, data_name, engine=engine)
        if call_engine == "other":
            used = [e for e in ENGINES if e != engine][0]
        else:
            used = engine
        kw = {} if call_engine is None else {"engine": used}
        expected_file = "harvest" + EXT[engine if with_ext else used]
        tag = "harvester %s ext=%s call=%s: " % (engine, with_ext, call_engine)

        # record the order of writes / replaces
        events = []
        real_save, real_replace = farming.save_ds, farming.os.replace

        def spy_save(ds, file_name, **kwargs):
            events.append(("save", os.path.basename(file_name),
                           kwargs, sorted(os.listdir(d))))
            return real_save(ds, file_name, **kwargs)

        def spy_replace(src, dst):
            events.append(("replace", os.path.basename(src),
                           os.path.basename(dst), sorted(os.listdir(d))))
            return real_replace(src, dst)

        farming.save_ds = spy_save
        farming.os.replace = spy_replace
        try:
            ds_a = r.run_combos({"a": [1, 2], "b": [10, 20]}, verbosity=0)
            h.add_ds(ds_a, **kw)
            ds_b = r.run_combos({"a": [3], "b": [10, 20]}, verbosity=0)
            h.add_ds(ds_b, **kw)
        finally:
            farming.save_ds = real_save
            farming.os.replace = real_replace

        tmp_name = expected_file + ".tmp"
        check(events == [
            ("save", tmp_name, {"engine": used}, []),
            ("replace", tmp_name, expected_file, [tmp_name]),
            ("save", tmp_name, {"engine": used}, [expected_file]),
            ("replace", tmp_name, expected_file,
             sorted([expected_file, tmp_name])),
        ], tag + "events %r" % events)
        check(os.listdir(d) == [expected_file],
              tag + "files %r" % os.listdir(d))

        exp = xr.merge([ds_a, ds_b])
        on_disk = load_ds(data_name, engine=used)
        check(on_disk.identical(exp), tag + "disk content")
        check(h.full_ds.identical(exp), tag + "full_ds")

        # a second harvester finds it under the same name
        h2 = Harvester(Runner(fn, var_names=["s", "d"]), data_name,
                       engine=used)
        check(h2.full_ds.identical(exp), tag + "second harvester")
        h2.load_full_ds(chunks=1)
        check(h2.full_ds.identical(exp), tag + "second harvester lazily")
        h2.full_ds.close()
        h2.delete_ds()
        check(os.listdir(d) == [], tag + "deleted: %r" % os.listdir(d))
        shutil.rmtree(d)

    # no data_name
    r = Runner(fn, var_names=["s", "d"])
    h = Harvester(r, None)
    try:
        h.save_full_ds()
        check(False, "save without a name should raise")
    except xyzpy.utils.XYZError if hasattr(xyzpy.utils, "XYZError") \
            else Exception:
        pass


def main():
    tmp = tempfile.mkdtemp(prefix="c14_t8_")
    try:
        test_names()
        test_round_trip(tmp)
        test_attrs(tmp)
        test_backend_calls(tmp)
        test_load_modes(tmp)
        test_netcdf4_fallback(tmp)
        test_save_merge(tmp)
        test_harvester(tmp)
    finally:
        shutil.rmtree(tmp, ignore_errors=True)

    if FAILURES:
        print("FAIL")
        for f in FAILURES[:40]:
            print("  -", f)
        sys.exit(1)
    print("PASS")


if __name__ == "__main__":
    main()
