"""Demo for refactoring t3 (sow-time options and the saved batch numbers of
``Crop`` in xyzpy/gen/cropping.py).

Checks property C07: batches partition the work exactly and honour the
requested batch size / batch count, and the crop reports the same numbers
before and after being reloaded from disk.  Concentrates on
``batchsize``/``num_batches``/``shuffle`` being supplied to ``sow_combos`` /
``sow_cases`` and on what is stored in / synced from the settings file.

Run as:  cd <worktree> && /venv/bin/python /path/to/demo.py
"""
import os
import sys

sys.path.insert(0, os.getcwd())

import glob
import itertools
import math
import re
import tempfile

import xyzpy
from xyzpy.gen.cropping import Crop, read_from_disk

assert os.path.abspath(xyzpy.__file__).startswith(os.getcwd()), xyzpy.__file__

CHECKS = 0


def check(cond, *msg):
    global CHECKS
    CHECKS += 1
    if not cond:
        print("FAIL", *msg)
        sys.exit(1)


def fn(a, b=0, c=0, k=None, r=None):
    return a + b + c


def freeze(kws):
    return tuple(sorted(kws.items()))


def load_batches(crop):
    """Return {batch_id: [kwargs, ...]} for every batch file of the crop."""
    files = glob.glob(os.path.join(crop.location, "batches", "xyz-batch-*.jbdmp"))
    out = {}
    for f in files:
        i = int(re.findall(r"xyz-batch-(\d+)\.jbdmp", os.path.basename(f))[0])
        out[i] = read_from_disk(f)
    return out


def grid_for(n):
    """Some combos whose total size is n (all factorisations into <=2 dims)."""
    grids = [{"a": list(range(n))}]
    for p in range(2, n):
        if n % p == 0:
            grids.append({"b": list(range(p)), "a": list(range(n // p))})
    return grids


def expected_settings(combos=None, cases=None, constants=None):
    constants = dict(constants or {})
    combos = combos or {}
    keys = list(combos)
    cases = cases if cases is not None else [{}]
    exp = []
    for case in cases:
        for vals in itertools.product(*(combos[k] for k in keys)):
            exp.append(freeze({**constants, **case, **dict(zip(keys, vals))}))
    return sorted(exp)


def check_partition(crop, n, expected, batchsize=None, num_batches=None):
    batches = load_batches(crop)
    B = len(batches)
    # ids are 1..B without gaps, no batch empty
    check(sorted(batches) == list(range(1, B + 1)), "ids", sorted(batches))
    sizes = [len(batches[i]) for i in range(1, B + 1)]
    check(all(s >= 1 for s in sizes), "empty batch", sizes)
    check(sum(sizes) == n, "total", sizes, n)
    # each setting exactly once, with exactly the right kwargs
    got = sorted(freeze(kws) for i in batches for kws in batches[i])
    check(got == expected, "settings differ")
    if batchsize is not None:
        check(max(sizes) <= batchsize, "too big", sizes, batchsize)
        check(B == math.ceil(n / batchsize), "B", B, n, batchsize)
        check(B == -(-n // batchsize), "B (int)", B, n, batchsize)
        check(crop.batchsize == batchsize, "reported batchsize")
        check(crop._batch_remainder == 0, "remainder")
    if num_batches is not None:
        check(B == min(num_batches, n), "B", B, n, num_batches)
        check(max(sizes) - min(sizes) <= 1, "uneven", sizes)
        # bigger batches come first
        check(sizes == sorted(sizes, reverse=True), "order", sizes)
        check(crop.batchsize == n // B, "reported batchsize (count mode)")
        check(crop._batch_remainder == n % B, "reported remainder")
    # the crop reports the same numbers, also once reloaded from disk
    check(crop.num_batches == B, "reported B", crop.num_batches, B)
    check(crop.num_sown_batches == B, "num_sown_batches")
    reloaded = Crop(name=crop.name, parent_dir=crop.parent_dir)
    check(
        (reloaded.batchsize, reloaded.num_batches, reloaded._batch_remainder)
        == (crop.batchsize, crop.num_batches, crop._batch_remainder),
        "reloaded numbers differ",
    )
    check(reloaded.num_sown_batches == B, "reloaded num_sown_batches")
    check(repr(reloaded) == repr(crop), "repr")
    return sizes


def sow_time_options(tmp):
    """batchsize / num_batches / shuffle given to ``sow_*`` rather than to the
    ``Crop`` constructor, the settings file, and reloading from disk."""
    from xyzpy.gen.cropping import INFO_NM

    idx = 0
    for n in list(range(1, 10)) + [12, 16]:
        cases = [{"a": i, "c": 3 * i} for i in range(n)]
        grid = grid_for(n)[-1]
        exp_g = expected_settings(combos=grid, constants={"k": "K"})
        exp_c = expected_settings(cases=cases, constants={"k": "K"})
        for shuffle in (False, True, 11):
            for s in range(1, n + 2):
                idx += 1
                crop = Crop(fn=fn, name=f"sg{idx}", parent_dir=tmp)
                check((crop.batchsize, crop.num_batches, crop._batch_remainder) == (None, None, None))
                crop.sow_combos(grid, constants={"k": "K"}, shuffle=shuffle, verbosity=0, batchsize=s)
                check(crop.shuffle == shuffle and type(crop.shuffle) is type(shuffle))
                check_partition(crop, n, exp_g, batchsize=s)
                check_info(crop, INFO_NM, shuffle)

                idx += 1
                # crop-level shuffle is kept by sow_cases (it has no such option)
                crop = Crop(fn=fn, name=f"sc{idx}", parent_dir=tmp, shuffle=shuffle)
                crop.sow_cases(None, cases, constants={"k": "K"}, verbosity=0, batchsize=s)
                check(crop.shuffle == shuffle and type(crop.shuffle) is type(shuffle))
                check_partition(crop, n, exp_c, batchsize=s)
                check_info(crop, INFO_NM, shuffle)
            for k in range(1, n + 3):
                idx += 1
                crop = Crop(fn=fn, name=f"sg{idx}", parent_dir=tmp)
                crop.sow_combos(grid, constants={"k": "K"}, shuffle=shuffle, verbosity=0, num_batches=k)
                check_partition(crop, n, exp_g, num_batches=k)
                check_info(crop, INFO_NM, shuffle)

                idx += 1
                crop = Crop(fn=fn, name=f"sc{idx}", parent_dir=tmp, shuffle=shuffle)
                crop.sow_cases(None, cases, constants={"k": "K"}, verbosity=0, num_batches=k)
                check_partition(crop, n, exp_c, num_batches=k)
                check_info(crop, INFO_NM, shuffle)

    # sow-time values override constructor values
    crop = Crop(fn=fn, name="override1", parent_dir=tmp, batchsize=5, shuffle=9)
    crop.sow_combos({"a": range(7)}, verbosity=0, batchsize=2)
    check(crop.shuffle is False)  # the default ``shuffle=False`` overrides too
    check_partition(crop, 7, expected_settings(combos={"a": range(7)}), batchsize=2)
    check_info(crop, INFO_NM, False)

    crop = Crop(fn=fn, name="override2", parent_dir=tmp, num_batches=5, shuffle=9)
    crop.sow_combos({"a": range(7)}, verbosity=0, num_batches=3, shuffle=None)
    check(crop.shuffle == 9)  # ``None`` means keep
    check_partition(crop, 7, expected_settings(combos={"a": range(7)}), num_batches=3)
    check_info(crop, INFO_NM, 9)

    crop = Crop(fn=fn, name="override3", parent_dir=tmp, batchsize=5, shuffle=9)
    crop.sow_cases("a", list(range(7)), verbosity=0, batchsize=3)
    check(crop.shuffle == 9)
    check_partition(crop, 7, expected_settings(cases=[{"a": i} for i in range(7)]), batchsize=3)

    # both given but inconsistent -> refused, nothing written
    crop = Crop(fn=fn, name="clash", parent_dir=tmp, batchsize=2)
    try:
        crop.sow_combos({"a": range(7)}, verbosity=0, num_batches=2)
    except ValueError:
        check(not crop.is_prepared())
        check((crop.batchsize, crop.num_batches) == (2, 2))
    else:
        check(False, "expected ValueError")
    crop = Crop(fn=fn, name="clash2", parent_dir=tmp, num_batches=3)
    try:
        crop.sow_cases("a", list(range(7)), verbosity=0, batchsize=4)
    except ValueError:
        check(not crop.is_prepared())
        check((crop.batchsize, crop.num_batches) == (4, 3))
    else:
        check(False, "expected ValueError")

    # consistent pair (one from constructor, one at sow time) is accepted,
    # but with no remainder recorded the sower cannot proceed (as before)
    crop = Crop(fn=fn, name="pair", parent_dir=tmp, batchsize=3)
    try:
        crop.sow_combos({"a": range(7)}, verbosity=0, num_batches=3)
    except TypeError:
        check((crop.batchsize, crop.num_batches, crop._batch_remainder) == (3, 3, None))
    else:
        check(False, "expected TypeError")

    # re-sowing an already sown crop (same division) from a reloaded handle
    crop = Crop(fn=fn, name="resow", parent_dir=tmp, num_batches=4)
    crop.sow_combos({"a": range(10)}, verbosity=0)
    again = Crop(fn=fn, name="resow", parent_dir=tmp)
    check((again.batchsize, again.num_batches, again._batch_remainder) == (2, 4, 2))
    again.sow_combos({"a": range(10)}, constants={"c": 1}, verbosity=0)
    check_partition(again, 10, expected_settings(combos={"a": range(10)}, constants={"c": 1}), num_batches=4)
    check_info(again, INFO_NM, False)

    # autoload=False leaves the numbers unset until synced explicitly
    lazy = Crop(name="resow", parent_dir=tmp, autoload=False)
    check((lazy.batchsize, lazy.num_batches, lazy._batch_remainder) == (None, None, None))
    lazy._sync_info_from_disk()
    check((lazy.batchsize, lazy.num_batches, lazy._batch_remainder) == (2, 4, 2))
    check(repr(lazy) == "<Crop(name='resow', batchsize=2, num_batches=4)>")

    # sow_samples goes through sow_cases
    import numpy as np
    h = xyzpy.Sampler(xyzpy.Runner(fn, var_names="out", constants={"k": 1}), data_name=os.path.join(tmp, "s.pkl"))
    crop = h.Crop(name="samples", parent_dir=tmp, batchsize=4)
    crop.sow_samples(10, combos={"a": [1, 2, 3], "b": lambda: 5}, verbosity=0)
    batches = load_batches(crop)
    check(sorted(batches) == [1, 2, 3])
    check([len(batches[i]) for i in (1, 2, 3)] == [4, 4, 2])
    check(all(set(kws) == {"a", "b", "k"} and kws["b"] == 5 and kws["k"] == 1
              for b in batches.values() for kws in b))
    check((crop.batchsize, crop.num_batches, crop._batch_remainder) == (4, 3, 0))


def check_info(crop, INFO_NM, shuffle):
    """The settings file holds exactly the numbers the crop reports."""
    info = read_from_disk(os.path.join(crop.location, INFO_NM))
    check(list(info) == ["combos", "cases", "fn_args", "batchsize", "num_batches",
                         "_batch_remainder", "shuffle", "farmer"], list(info))
    check(info["batchsize"] == crop.batchsize and type(info["batchsize"]) is int)
    check(info["num_batches"] == crop.num_batches and type(info["num_batches"]) is int)
    check(info["_batch_remainder"] == crop._batch_remainder)
    check(info["shuffle"] == shuffle and type(info["shuffle"]) is type(shuffle))
    check(crop.load_info().keys() == info.keys())


def on_disk(tmp):
    idx = 0
    for n in list(range(1, 11)) + [12, 17, 24]:
        cases = [{"a": i, "c": 3 * i} for i in range(n)]
        for shuffle in (False, True, 5):
            # --- grids -----------------------------------------------------
            for combos in grid_for(n):
                exp = expected_settings(combos=combos, constants={"k": "K"})
                for s in range(1, n + 2):
                    idx += 1
                    crop = Crop(fn=fn, name=f"g{idx}", parent_dir=tmp, batchsize=s)
                    crop.sow_combos(combos, constants={"k": "K"}, shuffle=shuffle, verbosity=0)
                    check_partition(crop, n, exp, batchsize=s)
                for k in range(1, n + 3):
                    idx += 1
                    crop = Crop(fn=fn, name=f"g{idx}", parent_dir=tmp, num_batches=k)
                    crop.sow_combos(combos, constants={"k": "K"}, shuffle=shuffle, verbosity=0)
                    check_partition(crop, n, exp, num_batches=k)
            # --- case lists --------------------------------------------------
            exp = expected_settings(cases=cases, constants={"k": "K"})
            for s in range(1, n + 2):
                idx += 1
                crop = Crop(fn=fn, name=f"c{idx}", parent_dir=tmp, batchsize=s, shuffle=shuffle)
                crop.sow_cases(None, cases, constants={"k": "K"}, verbosity=0)
                check_partition(crop, n, exp, batchsize=s)
            for k in range(1, n + 3):
                idx += 1
                crop = Crop(fn=fn, name=f"c{idx}", parent_dir=tmp, num_batches=k, shuffle=shuffle)
                crop.sow_cases(("a", "c"), [(d["a"], d["c"]) for d in cases],
                               constants={"k": "K"}, verbosity=0)
                check_partition(crop, n, exp, num_batches=k)

    # farmer-provided constants and resources, cases x combos
    runner = xyzpy.Runner(fn, var_names="out", constants={"k": 7}, resources={"r": "RES"})
    for n_cases, n_a in [(1, 1), (3, 4), (5, 3), (7, 1)]:
        n = n_cases * n_a
        combos = {"a": list(range(n_a))}
        cases = [{"b": 10 * i} for i in range(n_cases)]
        exp = expected_settings(combos=combos, cases=cases,
                                constants={"k": 7, "r": "RES", "c": 2})
        for shuffle in (False, 3):
            for s in range(1, n + 2):
                idx += 1
                crop = runner.Crop(name=f"r{idx}", parent_dir=tmp, batchsize=s)
                crop.sow_combos(combos, cases=cases, constants={"c": 2}, shuffle=shuffle, verbosity=0)
                check_partition(crop, n, exp, batchsize=s)
            for k in range(1, n + 3):
                idx += 1
                crop = runner.Crop(name=f"r{idx}", parent_dir=tmp, num_batches=k)
                crop.sow_combos(combos, cases=cases, constants={"c": 2}, shuffle=shuffle, verbosity=0)
                check_partition(crop, n, exp, num_batches=k)

    # default: neither requested -> one setting per batch
    crop = Crop(fn=fn, name="default", parent_dir=tmp)
    crop.sow_combos({"a": [1, 2, 3], "b": [4, 5]}, verbosity=0)
    sizes = check_partition(crop, 6, expected_settings(combos={"a": [1, 2, 3], "b": [4, 5]}), batchsize=1)
    check(sizes == [1] * 6)

    # end to end: grow and reap gives the direct-run answer
    crop = Crop(fn=fn, name="e2e", parent_dir=tmp, num_batches=4)
    combos = {"a": list(range(5)), "b": [10, 20]}
    crop.sow_combos(combos, constants={"c": 100}, verbosity=0)
    crop.grow_missing(verbosity=0)
    res = crop.reap(clean_up=False)
    direct = xyzpy.combo_runner(fn, combos, constants={"c": 100})
    check(res == direct, "reap != direct", res, direct)


def main():
    with tempfile.TemporaryDirectory() as tmp:
        sow_time_options(tmp)
    with tempfile.TemporaryDirectory() as tmp:
        on_disk(tmp)
    print("checks:", CHECKS)
    print("PASS")


if __name__ == "__main__":
    main()
