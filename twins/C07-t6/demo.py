"""Demo for property C07 (batches partition the work exactly).

Run as ``cd <worktree> && /venv/bin/python /path/to/demo.py``.  Exercises the
sowing machinery (``Crop.sow_combos`` / ``Crop.sow_cases`` / ``Sower``), the
bookkeeping written to and read back from disk, and a handful of corner cases
(failed writes, inconsistent settings, re-sowing).  Prints PASS and exits 0.
"""
import os
import sys

sys.path.insert(0, os.getcwd())

import contextlib
import glob
import itertools
import math
import pickle
import shutil
import tempfile
import warnings

import numpy as np

import xyzpy
from xyzpy.gen import cropping
from xyzpy.gen.cropping import Crop, XYZError, BTCH_NM, RSLT_NM, INFO_NM

assert os.path.dirname(os.path.dirname(os.path.abspath(xyzpy.__file__))) == (
    os.path.abspath(os.getcwd())
), xyzpy.__file__

N_CHECKS = [0]


def check(cond, *msg):
    N_CHECKS[0] += 1
    if not cond:
        raise AssertionError(" ".join(map(str, msg)))


def fn(a, b=0, c=0, r=0):
    return 1000 * a + 10 * b + c + 0.5 * r


def fn2(a, b=0, c=0, r=0):
    return a + b + c + r, float(a - b)


def freeze(kws):
    return tuple(sorted(kws.items()))


def read_batches(crop):
    """Return {batch id: list of kwargs} from the files on disk, checking the
    directory contains nothing but well formed batch files."""
    bdir = os.path.join(crop.location, "batches")
    names = sorted(os.listdir(bdir))
    out = {}
    for nm in names:
        check(nm.startswith("xyz-batch-") and nm.endswith(".jbdmp"), nm)
        i = int(nm[len("xyz-batch-"):-len(".jbdmp")])
        check(nm == BTCH_NM.format(i), nm)
        with open(os.path.join(bdir, nm), "rb") as f:
            out[i] = pickle.load(f)
    # nothing else in the crop directory than the expected entries
    top = set(os.listdir(crop.location))
    check(top <= {"batches", "results", INFO_NM, "xyz-function.clpkl"}, top)
    return out


def expected_sizes(N, batchsize=None, num_batches=None):
    if num_batches is None:
        s = 1 if batchsize is None else batchsize
        B = math.ceil(N / s)
        sizes = [s] * (N // s) + ([N % s] if N % s else [])
        return B, sizes, (s, B, 0)
    B = min(num_batches, N)
    q, rem = divmod(N, B)
    sizes = [q + 1] * rem + [q] * (B - rem)
    return B, sizes, (q, B, rem)


def check_partition(crop, expected, ordered, batchsize=None, num_batches=None):
    """The heart of the property: ``expected`` is the list of kwargs a direct
    run passes to the function."""
    N = len(expected)
    B, sizes, (bs, nb, rem) = expected_sizes(N, batchsize, num_batches)
    batches = read_batches(crop)

    check(sorted(batches) == list(range(1, B + 1)), sorted(batches), B)
    got_sizes = [len(batches[i]) for i in range(1, B + 1)]
    check(all(sz > 0 for sz in got_sizes), got_sizes)
    check(got_sizes == sizes, got_sizes, sizes)
    if batchsize is not None and num_batches is None:
        check(max(got_sizes) <= batchsize)
        check(B == math.ceil(N / batchsize))
    if num_batches is not None:
        check(B == min(num_batches, N))
        check(max(got_sizes) - min(got_sizes) <= 1)

    flat = list(itertools.chain.from_iterable(batches[i] for i in sorted(batches)))
    check(all(type(k) is dict for k in flat))
    if ordered:
        check(flat == expected, flat, expected)
    else:
        check(sorted(map(freeze, flat)) == sorted(map(freeze, expected)))
    check(len(set(map(freeze, flat))) == N)

    # the numbers the crop reports, before and after a reload
    def numbers(c):
        return (c.batchsize, c.num_batches, c._batch_remainder)

    check(numbers(crop) == (bs, nb, rem), numbers(crop), (bs, nb, rem))
    check(crop.num_sown_batches == B)
    check(crop.num_results == 0)
    check(crop.missing_results() == tuple(range(1, B + 1)))
    check(not crop.is_ready_to_reap())
    check(crop.is_prepared())

    again = Crop(name=crop.name, parent_dir=crop.parent_dir)
    check(numbers(again) == (bs, nb, rem), numbers(again))
    check(again.num_sown_batches == B)
    check(again.num_results == 0)
    check(again.missing_results() == tuple(range(1, B + 1)))
    check(repr(again) == repr(crop), repr(again), repr(crop))
    check(str(again) == str(crop))
    check("0 / {} batches of size {} completed".format(B, bs) in str(crop))

    info = crop.load_info()
    check(
        list(info)
        == [
            "combos", "cases", "fn_args", "constants", "batchsize",
            "num_batches", "_batch_remainder", "shuffle", "farmer",
        ],
        list(info),
    )
    check((info["batchsize"], info["num_batches"], info["_batch_remainder"])
          == (bs, nb, rem))
    check(info["shuffle"] == crop.shuffle)
    check((info["farmer"] is None) == (crop.farmer is None))
    return batches, again


def grid_expected(combos, constants=(), cases=None):
    names = sorted(combos)
    out = []
    for case in (cases if cases else [{}]):
        for vals in itertools.product(*(combos[k] for k in names)):
            kws = dict(case)
            kws.update(zip(names, vals))
            kws.update(constants)
            out.append(kws)
    return out


def factorisations(N):
    yield {"a": list(range(N))}
    for p in range(2, N):
        if N % p == 0:
            # deliberately given in non-sorted name order
            yield {"b": list(range(N // p)), "a": list(range(p))}
            break


def exhaustive(tmp, Ns, full):
    counter = itertools.count()
    for N in Ns:
        if full:
            opts = [{}]
            opts += [{"batchsize": s} for s in range(1, N + 2)]
            opts += [{"num_batches": k} for k in range(1, N + 3)]
        else:
            opts = [{"batchsize": s} for s in (1, 2, 5, 7, N - 1, N, N + 1)]
            opts += [{"num_batches": k} for k in (1, 2, 5, 7, N - 1, N, N + 2)]
        for opt in opts:
            j = next(counter)
            shuffle = (False, True, 7, None)[j % 4]
            how = j % 3
            name = "ex{}".format(j)

            # ---- grids
            for g, combos in enumerate(factorisations(N)):
                constants = {"c": 3} if (j + g) % 2 else None
                if how == 0:
                    # sizes given to the constructor
                    crop = Crop(fn=fn, name=name, parent_dir=tmp, **opt)
                    crop.sow_combos(combos, constants=constants,
                                    shuffle=shuffle, verbosity=0)
                elif how == 1:
                    # sizes given when sowing
                    crop = Crop(fn=fn, name=name, parent_dir=tmp)
                    crop.sow_combos(combos, constants=constants,
                                    shuffle=shuffle, verbosity=0, **opt)
                else:
                    # constructor sizes overridden when sowing
                    other = {k: 3 for k in opt}
                    crop = Crop(fn=fn, name=name, parent_dir=tmp, **other)
                    crop.sow_combos(combos, constants=constants,
                                    shuffle=shuffle, verbosity=0, **opt)
                check(crop.shuffle == (False if shuffle is None else shuffle))
                expected = grid_expected(combos, constants or {})
                check_partition(crop, expected, not crop.shuffle, **opt)
                crop.delete_all()
                check(not os.path.exists(crop.location))

            # ---- case lists
            cases = [(i, (i * i) % 5) for i in range(N)]
            constants = {"c": 1, "r": 2} if j % 2 else {}
            if how == 0:
                crop = Crop(fn=fn, name=name, parent_dir=tmp, **opt)
                crop.sow_cases(("a", "b"), cases, constants=constants,
                               verbosity=0)
            else:
                crop = Crop(fn=fn, name=name, parent_dir=tmp, shuffle=shuffle)
                crop.sow_cases(("a", "b"), cases, constants=constants,
                               verbosity=0, **opt)
            expected = [dict(a=a, b=b, **constants) for a, b in cases]
            check_partition(crop, expected, not crop.shuffle, **opt)
            crop.delete_all()


def cases_times_combos(tmp):
    # cases and combos mixed: every combination run for every case
    cases = [{"a": 1}, {"a": 5}, {"a": 2}]
    combos = {"c": [1, 2], "b": [4, 5, 6]}
    for opt in ({"batchsize": 4}, {"num_batches": 5}, {"num_batches": 40}, {}):
        crop = Crop(fn=fn, name="mixed", parent_dir=tmp)
        crop.sow_combos(combos, cases=cases, verbosity=0, **opt)
        expected = grid_expected(combos, cases=cases)
        check(len(expected) == 18)
        check_partition(crop, expected, True, **opt)
        crop.delete_all()

        crop = Crop(fn=fn, name="mixed2", parent_dir=tmp, **opt)
        crop.sow_cases(["a"], [1, 5, 2], combos=list(sorted(combos.items())),
                       verbosity=0)
        check_partition(crop, expected, True, **opt)
        crop.delete_all()


def farmers(tmp):
    """Farmer provided constants / resources and the grow / reap round trip."""
    runner = xyzpy.Runner(fn, var_names="x", constants={"c": 4},
                          resources={"r": 6})
    combos = {"a": [1, 2, 3], "b": [10, 20, 30, 40]}
    direct = runner.run_combos(combos, verbosity=0)

    for opt in ({"batchsize": 5}, {"num_batches": 5}, {"num_batches": 99}):
        for shuffle in (False, 3):
            crop = runner.Crop(name="farm", parent_dir=tmp, **opt)
            check(crop.farmer is runner and crop.runner is runner)
            crop.sow_combos(combos, shuffle=shuffle, verbosity=0)
            expected = grid_expected(combos, {"c": 4, "r": 6})
            _, again = check_partition(crop, expected, not shuffle, **opt)

            # reloaded crop: farmer rebuilt from disk with its function back
            check(isinstance(again.farmer, xyzpy.Runner))
            check(again.farmer is not runner)
            check(again.farmer.fn is not None and again.fn is again.farmer.fn)
            check(again.farmer._constants == {"c": 4})
            check(again.farmer._resources == {"r": 6})
            check(again.fn(1, 2, 3, 4) == fn(1, 2, 3, 4))
            # the farmer on disk is stored without its function, the live
            # one keeps it
            stored = cropping.from_pickle(crop.load_info()["farmer"])
            check(stored.fn is None and runner.fn is fn)

            # a crop made from the runner over the sown one keeps the runner
            third = runner.Crop(name="farm", parent_dir=tmp)
            check(third.farmer is runner)
            check((third.batchsize, third.num_batches, third._batch_remainder)
                  == (crop.batchsize, crop.num_batches, crop._batch_remainder))
            third._sync_info_from_disk(only_missing=False)
            check(third.farmer is not runner)
            check(isinstance(third.farmer, xyzpy.Runner))
            check(third.farmer.fn is None)
            third.load_function()
            check(third.farmer.fn is not None)
            try:
                third.load_function()
            except XYZError as e:
                check("already has a function" in str(e))
            else:
                check(False, "expected XYZError")

            # sown constants take precedence over the runner's
            B = crop.num_batches
            again.grow(1, verbosity=0)
            check(again.num_results == 1 and crop.num_results == 1)
            check(crop.missing_results() == tuple(range(2, B + 1)))
            crop.grow_missing(verbosity=0)
            check(crop.is_ready_to_reap())
            check("{} / {} batches".format(B, B) in str(crop))
            check("100.0%" in str(crop))
            ds = crop.reap()
            check(ds.identical(direct), ds, direct)
            check(not os.path.exists(crop.location))

    # constants at sowing time override the farmer's
    crop = runner.Crop(name="farm2", parent_dir=tmp, num_batches=4)
    crop.sow_combos(combos, constants={"c": 9}, verbosity=0)
    expected = grid_expected(combos, {"c": 9, "r": 6})
    check_partition(crop, expected, True, num_batches=4)
    check(crop.load_info()["constants"] == {"c": 9})
    crop.grow_missing(verbosity=0)
    ds = crop.reap()
    check(ds.identical(runner.run_combos(combos, constants={"c": 9},
                                         verbosity=0)))

    # cases through a runner: fn_args default to the runner's
    runner2 = xyzpy.Runner(fn2, var_names=["s", "d"], fn_args=["b", "a"],
                           constants={"c": 1}, resources={"r": 1})
    cases = [(1, 2), (3, 4), (5, 6), (7, 8), (9, 10)]
    crop = runner2.Crop(name="farm3", parent_dir=tmp, batchsize=2)
    crop.sow_cases(None, cases, verbosity=0)
    expected = [dict(b=b, a=a, c=1, r=1) for b, a in cases]
    check_partition(crop, expected, True, batchsize=2)
    check(crop.load_info()["fn_args"] == ("b", "a"))
    crop.grow_missing(verbosity=0)
    ds = crop.reap()
    check(ds.identical(runner2.run_cases(cases, verbosity=0)))

    # harvester
    harv = xyzpy.Harvester(runner, data_name=os.path.join(tmp, "h.h5"))
    crop = harv.Crop(name="farm4", parent_dir=tmp, num_batches=5)
    crop.sow_combos(combos, verbosity=0)
    _, again = check_partition(crop, grid_expected(combos, {"c": 4, "r": 6}),
                               True, num_batches=5)
    check(isinstance(again.farmer, xyzpy.Harvester))
    check(again.runner.fn is not None)
    crop.grow_missing(verbosity=0)
    crop.reap()
    check(harv.full_ds.identical(direct))
    os.remove(os.path.join(tmp, "h.h5"))

    # sampler
    np.random.seed(0)
    samp = xyzpy.Sampler(runner, data_name=os.path.join(tmp, "s.pkl"),
                         default_combos={"a": [1, 2, 3], "b": [5, 6]})
    crop = samp.Crop(name="farm5", parent_dir=tmp, num_batches=3)
    crop.sow_samples(10, verbosity=0)
    batches = read_batches(crop)
    check([len(batches[i]) for i in (1, 2, 3)] == [4, 3, 3])
    check(sorted(batches) == [1, 2, 3])
    check(all(set(k) == {"a", "b", "c", "r"} for b in batches.values()
              for k in b))
    check((crop.batchsize, crop.num_batches, crop._batch_remainder)
          == (3, 3, 1))
    again = Crop(name="farm5", parent_dir=tmp)
    check(isinstance(again.farmer, xyzpy.Sampler))
    check((again.batchsize, again.num_batches, again._batch_remainder)
          == (3, 3, 1))
    crop.grow_missing(verbosity=0)
    df = crop.reap()
    check(len(df) == 10)
    os.remove(os.path.join(tmp, "s.pkl"))


def resow_and_reload(tmp):
    combos = {"a": list(range(10))}
    crop = Crop(fn=fn, name="resow", parent_dir=tmp, num_batches=4)
    crop.sow_combos(combos, verbosity=0)
    first, again = check_partition(crop, grid_expected(combos), True,
                                   num_batches=4)
    with open(os.path.join(crop.location, INFO_NM), "rb") as f:
        info_bytes = f.read()

    # re-sow with the same (now fully specified, with remainder) settings,
    # from the live and from the reloaded crop
    for c in (crop, again):
        c.sow_combos(combos, verbosity=0)
        check(read_batches(c) == first)
        check((c.batchsize, c.num_batches, c._batch_remainder) == (2, 4, 2))
    with open(os.path.join(crop.location, INFO_NM), "rb") as f:
        check(f.read() == info_bytes)

    # the reloaded crop got its function from disk
    check(again.fn is not fn and again.fn(3) == fn(3))
    check(again.farmer is None and again.runner is None)

    # inconsistent re-sow is refused, before anything is written
    before = {p: os.stat(p).st_mtime_ns for p in
              glob.glob(os.path.join(glob.escape(crop.location), "*", "*"))}
    for bad in ({"batchsize": 3}, {"num_batches": 5}, {"batchsize": 1}):
        try:
            crop.sow_combos(combos, verbosity=0, **bad)
        except ValueError as e:
            check("cannot both" in str(e))
        else:
            check(False, "expected ValueError", bad)
        # restore what the failed call overrode
        crop.batchsize, crop.num_batches = 2, 4
    after = {p: os.stat(p).st_mtime_ns for p in
             glob.glob(os.path.join(glob.escape(crop.location), "*", "*"))}
    check(before == after)
    check(read_batches(crop) == first)

    # partially grown
    crop.grow((2, 4), verbosity=0)
    check(crop.num_results == 2 and again.num_results == 2)
    check(crop.missing_results() == (1, 3))
    check(again.missing_results() == (1, 3))
    check("2 / 4 batches of size 2 completed" in str(again))
    check(": 50.0%" in str(again))
    res = sorted(os.listdir(os.path.join(crop.location, "results")))
    check(res == [RSLT_NM.format(2), RSLT_NM.format(4)])
    crop.delete_all()

    # an unsown crop
    crop = Crop(fn=fn, name="nothing", parent_dir=tmp, batchsize=3)
    check(not crop.is_prepared())
    check(crop.num_sown_batches == -1 and crop.num_results == -1)
    check(not crop.is_ready_to_reap())
    check((crop.batchsize, crop.num_batches, crop._batch_remainder)
          == (3, None, None))
    check("Not yet sown" in str(crop))
    try:
        crop.load_info()
    except XYZError as e:
        check(str(e) == "Settings can't be found at {}.".format(
            os.path.join(crop.location, INFO_NM)))
    else:
        check(False, "expected XYZError")
    check(not os.path.exists(crop.location))

    # autoload=False ignores what is on disk; save_fn=False needs a function
    crop = Crop(fn=fn, name="noauto", parent_dir=tmp, batchsize=3)
    crop.sow_combos(combos, verbosity=0)
    other = Crop(fn=fn, name="noauto", parent_dir=tmp, autoload=False)
    check((other.batchsize, other.num_batches, other._batch_remainder)
          == (None, None, None))
    check(other.num_sown_batches == 4)  # syncs as a side effect
    check((other.batchsize, other.num_batches, other._batch_remainder)
          == (3, 4, 0))
    crop.delete_all()

    crop = Crop(fn=fn, name="nofn", parent_dir=tmp, save_fn=False,
                num_batches=3)
    crop.sow_combos(combos, verbosity=0)
    check(sorted(os.listdir(crop.location))
          == ["batches", "results", INFO_NM])
    check([[k["a"] for k in b] for b in read_batches(crop).values()]
          == [[0, 1, 2, 3], [4, 5, 6], [7, 8, 9]])
    check((crop.batchsize, crop.num_batches, crop._batch_remainder)
          == (3, 3, 1))
    check(crop.num_sown_batches == 3 and crop.missing_results() == (1, 2, 3))
    # (a function-less crop cannot be reloaded without a function: current
    # behaviour is the missing function file's error)
    expect(FileNotFoundError, Crop, name="nofn", parent_dir=tmp)
    other = Crop(fn=fn, name="nofn", parent_dir=tmp)
    check((other.batchsize, other.num_batches, other._batch_remainder)
          == (3, 3, 1))
    crop.delete_all()


def expect(exc, f, *args, **kwargs):
    try:
        f(*args, **kwargs)
    except exc as e:
        check(type(e) is exc, type(e))
        return e
    check(False, "expected", exc)


def bad_settings(tmp):
    combos = {"a": list(range(6))}

    def fresh(**kw):
        return Crop(fn=fn, name="bad", parent_dir=tmp, **kw)

    # rejected before anything touches the disk
    for kw, exc in [
        ({"batchsize": 0}, ValueError),
        ({"batchsize": -2}, ValueError),
        ({"batchsize": 2.0}, TypeError),
        ({"num_batches": 0}, ValueError),
        ({"num_batches": -1}, ValueError),
        ({"num_batches": 2.5}, TypeError),
        ({"batchsize": 4, "num_batches": 3}, ValueError),
        ({"batchsize": 1, "num_batches": 5}, ValueError),
    ]:
        crop = fresh(**kw)
        expect(exc, crop.sow_combos, combos, verbosity=0)
        check(not os.path.exists(crop.location), kw)
        crop = fresh()
        expect(exc, crop.sow_cases, ["a"], list(range(6)), verbosity=0, **kw)
        check(not os.path.exists(crop.location), kw)

    # both given, consistent, on a fresh crop (no remainder known): the
    # current behaviour is a TypeError out of the sower, after which the
    # pending case is still flushed as batch 1
    crop = fresh(batchsize=3, num_batches=2)
    expect(TypeError, crop.sow_combos, combos, verbosity=0)
    batches = read_batches(crop)
    check(batches == {1: [{"a": 0}]}, batches)
    check((crop.batchsize, crop.num_batches, crop._batch_remainder)
          == (3, 2, None))
    check(crop.num_sown_batches == 1)
    crop.delete_all()


def failing_writes(tmp):
    """A write that fails part way: which files exist afterwards."""
    combos = {"a": list(range(7))}
    real = cropping.write_to_disk

    for fail_at, expected in [
        # third batch fails when full: retried once on the way out under the
        # next id, the rest never sown
        (3, {1: [0, 1], 2: [2, 3], 4: [4, 5]}),
        # last (overfill) batch fails: nothing more to do
        (4, {1: [0, 1], 2: [2, 3], 3: [4, 5]}),
        (1, {2: [0, 1]}),
    ]:
        crop = Crop(fn=fn, name="failing", parent_dir=tmp, batchsize=2)
        calls = []

        def flaky(obj, fname):
            if os.path.basename(fname).startswith("xyz-batch-"):
                calls.append(os.path.basename(fname))
                if len(calls) == fail_at:
                    raise OSError("disk full")
            return real(obj, fname)

        cropping.write_to_disk = flaky
        try:
            expect(OSError, crop.sow_combos, combos, verbosity=0)
        finally:
            cropping.write_to_disk = real
        batches = read_batches(crop)
        got = {i: [k["a"] for k in b] for i, b in batches.items()}
        check(got == expected, got, expected)
        check(calls == [BTCH_NM.format(i + 1) for i in range(len(calls))])
        check((crop.batchsize, crop.num_batches, crop._batch_remainder)
              == (2, 4, 0))
        crop.delete_all()

    # the order of writes of a normal sow: function, settings, batches 1..B
    crop = Crop(fn=fn, name="order", parent_dir=tmp, num_batches=3)
    written = []

    def spy(obj, fname):
        written.append(os.path.relpath(fname, crop.location))
        return real(obj, fname)

    cropping.write_to_disk = spy
    try:
        crop.sow_combos(combos, verbosity=0)
    finally:
        cropping.write_to_disk = real
    check(written == ["xyz-function.clpkl", INFO_NM] + [
        os.path.join("batches", BTCH_NM.format(i)) for i in (1, 2, 3)
    ], written)
    check([len(b) for b in read_batches(crop).values()] == [3, 2, 2])
    crop.delete_all()


def bookkeeping_corners(tmp):
    """The settings file and the file counts in awkward places."""
    # a location full of glob characters
    parent = os.path.join(tmp, "we[i]rd*d?r")
    os.makedirs(parent)
    combos = {"a": list(range(7))}
    crop = Crop(fn=fn, name="gl[o]b*", parent_dir=parent, num_batches=3)
    check(crop.num_sown_batches == -1)
    crop.sow_combos(combos, shuffle=2, verbosity=0)
    _, again = check_partition(crop, grid_expected(combos), False,
                               num_batches=3)
    again.grow(3, verbosity=0)
    check(crop.num_results == 1 and crop.missing_results() == (1, 2))
    # stray files that do not look like batches are not counted
    open(os.path.join(crop.location, "batches", "notes.txt"), "w").close()
    open(os.path.join(crop.location, "results", "xyz-batch-9.jbdmp"),
         "w").close()
    check(crop.num_sown_batches == 3 and crop.num_results == 1)
    crop.grow_missing(verbosity=0)
    check(crop.is_ready_to_reap())
    os.remove(os.path.join(crop.location, "results", "xyz-batch-9.jbdmp"))
    res = crop.reap()
    check(res == tuple(fn(a) for a in range(7)), res)
    check(os.listdir(parent) == [])
    os.rmdir(parent)

    # the settings as stored: exactly what was handed in plus the numbers
    crop = Crop(fn=fn, name="stored", parent_dir=tmp, batchsize=4)
    crop.sow_cases(["a", "b"], [(1, 2), (3, 4), (5, 6), (7, 8), (9, 0)],
                   combos=[("c", [1, 2])], constants={"r": 1}, verbosity=0)
    info = crop.load_info()
    check(info == {
        "combos": [("c", [1, 2])],
        "cases": ({"a": 1, "b": 2}, {"a": 3, "b": 4}, {"a": 5, "b": 6},
                  {"a": 7, "b": 8}, {"a": 9, "b": 0}),
        "fn_args": ("a", "b"),
        "constants": {"r": 1},
        "batchsize": 4,
        "num_batches": 3,
        "_batch_remainder": 0,
        "shuffle": False,
        "farmer": None,
    }, info)
    check(crop.load_info() is not info)
    check([len(b) for b in read_batches(crop).values()] == [4, 4, 2])

    # what is on disk wins over what the live object was told since
    crop.batchsize, crop.num_batches, crop._batch_remainder = 99, 98, 97
    crop.calc_progress()
    check((crop.batchsize, crop.num_batches, crop._batch_remainder)
          == (4, 3, 0))
    check(crop._num_sown_batches == 3 and crop._num_results == 0)

    # a settings file written without the remainder (older format): the
    # current behaviour is a KeyError once the other two have been taken over
    del info["_batch_remainder"]
    info["batchsize"], info["num_batches"] = 5, 2
    cropping.write_to_disk(info, os.path.join(crop.location, INFO_NM))
    e = expect(KeyError, crop.calc_progress)
    check(e.args == ("_batch_remainder",))
    check((crop.batchsize, crop.num_batches, crop._batch_remainder)
          == (5, 2, 0))
    expect(KeyError, Crop, name="stored", parent_dir=tmp)

    # settings file gone: unprepared again, numbers kept as they were
    os.remove(os.path.join(crop.location, INFO_NM))
    check(not crop.is_prepared())
    check(crop.num_sown_batches == -1 and crop.num_results == -1)
    check((crop.batchsize, crop.num_batches) == (5, 2))
    check(crop.missing_results() == (1, 2))
    expect(XYZError, crop.load_info)
    expect(XYZError, crop._sync_info_from_disk)
    crop.delete_all()


def sower_direct(tmp):
    """Drive the Sower by hand."""
    crop = Crop(fn=fn, name="byhand", parent_dir=tmp)
    crop.batchsize, crop.num_batches, crop._batch_remainder = 2, 3, 1
    crop.ensure_dirs_exists()
    sower = cropping.Sower(crop)
    with sower as sow_fn:
        check(sow_fn is sower)
        for i in range(5):
            check(sow_fn(a=i, b=-i) is None)
        check(sorted(os.listdir(os.path.join(crop.location, "batches")))
              == [BTCH_NM.format(1), BTCH_NM.format(2)])
        sow_fn(a=5, b=-5)
        sow_fn(a=6, b=-6)
        sow_fn(a=7, b=-7)
    batches = read_batches(crop)
    check({i: [k["a"] for k in b] for i, b in batches.items()}
          == {1: [0, 1, 2], 2: [3, 4], 3: [5, 6], 4: [7]})
    # nothing pending -> leaving the context again writes nothing
    check(sower.__exit__(None, None, None) is None)
    check(len(os.listdir(os.path.join(crop.location, "batches"))) == 4)
    # an unused sower writes nothing at all
    with cropping.Sower(crop):
        pass
    check(len(os.listdir(os.path.join(crop.location, "batches"))) == 4)
    crop.delete_all()


def main():
    warnings.simplefilter("error")
    tmp = tempfile.mkdtemp(prefix="c07demo-")
    cwd_before = sorted(os.listdir("."))
    try:
        # (reaping shows progress bars on stderr: keep the output short)
        with open(os.devnull, "w") as null, contextlib.redirect_stderr(null):
            run_all(tmp)
    finally:
        shutil.rmtree(tmp, ignore_errors=True)
    check(sorted(os.listdir(".")) == cwd_before)
    print("checks:", N_CHECKS[0])
    print("PASS")


def run_all(tmp):
    exhaustive(tmp, range(1, 13), full=True)
    exhaustive(tmp, (23, 36, 48), full=False)
    cases_times_combos(tmp)
    farmers(tmp)
    resow_and_reload(tmp)
    bad_settings(tmp)
    failing_writes(tmp)
    sower_direct(tmp)
    bookkeeping_corners(tmp)
    check(os.listdir(tmp) == [], os.listdir(tmp))


if __name__ == "__main__":
    main()
