"""Model-based check of C05 (harvested dataset == faithful merge of all
harvests) exercising Harvester.add_ds / save_full_ds / load_full_ds /
expand_dims / drop_sel and manage.save_merge_ds.

Run as:  cd <worktree> && /venv/bin/python /path/to/demo.py
"""
import os
import sys
sys.path.insert(0, os.getcwd())

import copy
import math
import random
import shutil
import tempfile
import warnings

import numpy as np
import xarray as xr

import xyzpy
from xyzpy import Runner, Harvester
from xyzpy.manage import load_ds, save_merge_ds
from xyzpy.gen.prepare import XYZError

warnings.simplefilter('ignore')

EXT = {'h5netcdf': '.h5', 'joblib': '.dmp'}
VERSION = [0]
FAILS = []
Q = {'verbosity': 0}


def fn(a, b):
    return float(1000 * VERSION[0] + 10 * a + b)


def check(cond, msg):
    if not cond:
        FAILS.append(msg)


class Conflict(Exception):
    pass


# ------------------------------ the model ---------------------------------- #

def m_empty():
    return {'pts': {}, 'A': set(), 'B': set()}


def m_of_grid(avals, bvals):
    return {'pts': {(a, b): fn(a, b) for a in avals for b in bvals},
            'A': set(avals), 'B': set(bvals)}


def m_of_cases(cases):
    return {'pts': {(a, b): fn(a, b) for a, b in cases},
            'A': {a for a, _ in cases}, 'B': {b for _, b in cases}}


def m_merge(old, new, overwrite):
    if old is None:
        return copy.deepcopy(new)
    pts = dict(old['pts'])
    for k, v in new['pts'].items():
        if k not in pts:
            pts[k] = v
        elif overwrite is True:
            pts[k] = v
        elif overwrite is False:
            pass
        elif pts[k] != v:
            raise Conflict(k)
    return {'pts': pts, 'A': old['A'] | new['A'], 'B': old['B'] | new['B']}


def m_drop(old, a):
    return {'pts': {k: v for k, v in old['pts'].items() if k[0] != a},
            'A': old['A'] - {a}, 'B': set(old['B'])}


def m_of_ds(ds):
    if ds is None:
        return None
    da = ds['out']
    pts = {}
    for a in ds['a'].values:
        for b in ds['b'].values:
            v = float(da.sel(a=a, b=b))
            if not math.isnan(v):
                pts[(int(a), int(b))] = v
    return {'pts': pts, 'A': {int(a) for a in ds['a'].values},
            'B': {int(b) for b in ds['b'].values}}


# ---------------------------- random sequences ----------------------------- #

def run_sequence(seed, engine, with_ext, tmp):
    rng = random.Random(seed)
    d = os.path.join(tmp, 'seq{}_{}_{}'.format(seed, engine, int(with_ext)))
    os.mkdir(d)
    base = os.path.join(d, 'data')
    data_name = base + EXT[engine] if with_ext else base
    file_name = base + EXT[engine]
    tag = 'seed={} engine={} ext={}'.format(seed, engine, with_ext)

    runner = Runner(fn, var_names='out')
    h = Harvester(runner, data_name, engine=engine)
    mem, disk = None, None
    trace = []

    for step in range(8):
        if step and rng.random() < 0.3:
            # new session
            h = Harvester(Runner(fn, var_names='out'), data_name,
                          engine=engine)
            mem = None
            trace.append('new')

        op = rng.choice(['combos', 'combos', 'cases', 'cases', 'add_ds',
                         'drop'])
        overwrite = rng.choice([None, None, True, False])
        sync = rng.random() < 0.75
        VERSION[0] = rng.choice([0, 0, 0, 1])
        avals = sorted(rng.sample(range(1, 6), rng.randint(1, 3)))
        bvals = sorted(rng.sample(range(1, 6), rng.randint(1, 3)))
        trace.append((op, overwrite, sync, VERSION[0], avals, bvals))
        where = '{} step={} trace={}'.format(tag, step, trace)

        if op == 'drop':
            cur = disk if disk is not None else mem
            if cur is None or len(cur['A']) < 2:
                trace[-1] = 'skip'
                continue
            a = rng.choice(sorted(cur['A']))
            h.drop_sel(a=[a])
            mem = disk = m_drop(cur, a)
        else:
            if op == 'cases':
                cases = [(a, b) for a in avals for b in bvals
                         if rng.random() < 0.6] or [(avals[0], bvals[0])]
                new = m_of_cases(cases)
                call = lambda: h.harvest_cases(
                    [{'a': a, 'b': b} for a, b in cases],
                    sync=sync, overwrite=overwrite, verbosity=0)
            elif op == 'combos':
                new = m_of_grid(avals, bvals)
                call = lambda: h.harvest_combos(
                    {'a': avals, 'b': bvals}, sync=sync, overwrite=overwrite,
                    verbosity=0)
            else:
                new = m_of_grid(avals, bvals)
                arr = xr.DataArray(
                    np.array([[fn(a, b) for b in bvals] for a in avals]),
                    dims=['a', 'b'], coords={'a': avals, 'b': bvals},
                    name='out')
                if rng.random() < 0.5:
                    arr = arr.to_dataset()
                call = lambda: h.add_ds(arr, sync=sync, overwrite=overwrite)

            if sync and disk is not None:
                mem = disk
            try:
                expect = m_merge(mem, new, overwrite)
            except Conflict:
                expect = None
            try:
                call()
                raised = False
            except xr.MergeError:
                raised = True
            check(raised == (expect is None),
                  'raised={} but conflict expected={}: {}'.format(
                      raised, expect is None, where))
            if expect is not None:
                mem = expect
                if sync:
                    disk = expect

        # ---- compare memory and disk with the model ----
        files = sorted(os.listdir(d))
        if disk is None:
            check(files == [], 'unexpected files {}: {}'.format(files, where))
        else:
            check(files == [os.path.basename(file_name)],
                  'files {}: {}'.format(files, where))
            on_disk = m_of_ds(load_ds(file_name, engine=engine))
            check(on_disk == disk,
                  'disk differs from model: {}\n  disk ={}\n  model={}'.format(
                      where, on_disk, disk))
        if mem is None and disk is not None:
            mem = disk   # the full_ds property loads lazily
        in_mem = m_of_ds(h.full_ds)
        check(in_mem == mem,
              'memory differs from model: {}\n  mem  ={}\n  model={}'.format(
                  where, in_mem, mem))


# ------------------------------ fixed scenarios ---------------------------- #

def scenario_conflict_leaves_everything(tmp, engine):
    d = os.path.join(tmp, 'conf_' + engine)
    os.mkdir(d)
    name = os.path.join(d, 'res')
    VERSION[0] = 0
    h = Harvester(Runner(fn, var_names='out'), name, engine=engine)
    h.harvest_combos({'a': [1, 2], 'b': [1, 2]}, **Q)
    before = m_of_ds(load_ds(name, engine=engine))
    with open(name + EXT[engine], 'rb') as f:
        raw = f.read()
    VERSION[0] = 1
    for hh in (h, Harvester(Runner(fn, var_names='out'), name,
                            engine=engine)):
        try:
            hh.harvest_combos({'a': [2, 3], 'b': [2, 3]}, **Q)
            check(False, 'conflict not raised ({})'.format(engine))
        except xr.MergeError:
            pass
        check(m_of_ds(hh.full_ds) == before, 'memory changed by conflict')
        with open(name + EXT[engine], 'rb') as f:
            check(f.read() == raw, 'disk bytes changed by conflict')
        check(sorted(os.listdir(d)) == ['res' + EXT[engine]],
              'stray files after conflict: {}'.format(os.listdir(d)))
    # overwrite=False keeps old, overwrite=True takes new
    h.harvest_combos({'a': [2, 3], 'b': [2, 3]}, overwrite=False, **Q)
    got = m_of_ds(load_ds(name, engine=engine))
    check(got['pts'][(2, 2)] == 22.0 and got['pts'][(3, 3)] == 1033.0,
          'overwrite=False wrong: {}'.format(got))
    check(m_of_ds(h.full_ds) == got, 'mem != disk after overwrite=False')
    h.harvest_combos({'a': [1, 2], 'b': [1]}, overwrite=True, **Q)
    got = m_of_ds(load_ds(name, engine=engine))
    check(got['pts'][(2, 1)] == 1021.0 and got['pts'][(1, 2)] == 12.0,
          'overwrite=True wrong: {}'.format(got))
    check(m_of_ds(h.full_ds) == got, 'mem != disk after overwrite=True')


def scenario_engine_override_and_expand(tmp):
    d = os.path.join(tmp, 'override')
    os.mkdir(d)
    name = os.path.join(d, 'res')
    VERSION[0] = 0
    # harvester default h5netcdf, each call overrides with joblib
    h = Harvester(Runner(fn, var_names='out'), name)
    h.harvest_combos({'a': [1], 'b': [1, 2]}, engine='joblib', **Q)
    h.harvest_cases([{'a': 2, 'b': 1}], engine='joblib', **Q)
    check(sorted(os.listdir(d)) == ['res.dmp'],
          'engine override files: {}'.format(os.listdir(d)))
    h.drop_sel(a=[1], engine='joblib')
    check(sorted(os.listdir(d)) == ['res.dmp'],
          'engine override files after drop: {}'.format(os.listdir(d)))
    got = m_of_ds(load_ds(name, engine='joblib'))
    check(got == {'pts': {(2, 1): 21.0}, 'A': {2}, 'B': {1, 2}},
          'after drop_sel with engine override: {}'.format(got))
    h.expand_dims('c', 7, engine='joblib')
    on_disk = load_ds(name, engine='joblib')
    check(on_disk.sizes.get('c') == 1 and int(on_disk['c'][0]) == 7,
          'expand_dims not on disk')
    check(h.full_ds.identical(on_disk), 'expand_dims: mem != disk')
    check(float(on_disk['out'].sel(a=2, b=1, c=7)) == 21.0,
          'expand_dims lost a value')
    check(sorted(os.listdir(d)) == ['res.dmp'],
          'files after expand_dims: {}'.format(os.listdir(d)))

    # explicit save / load round trip and another harvester in between
    name2 = os.path.join(d, 'two.h5')
    h1 = Harvester(Runner(fn, var_names='out'), name2)
    h1.harvest_combos({'a': [1], 'b': [1]}, **Q)
    h2 = Harvester(Runner(fn, var_names='out'), name2)
    h2.harvest_combos({'a': [2], 'b': [2]}, **Q)
    h1.harvest_combos({'a': [3], 'b': [3]}, **Q)
    got = m_of_ds(load_ds(name2))
    check(sorted(got['pts']) == [(1, 1), (2, 2), (3, 3)],
          'interleaved harvesters dropped data: {}'.format(got))
    h2.drop_sel(a=[1])
    got = m_of_ds(load_ds(name2))
    check(sorted(got['pts']) == [(2, 2), (3, 3)],
          'drop_sel after other harvester: {}'.format(got))
    h1.expand_dims('c', 0)
    got = load_ds(name2)
    check(sorted(int(a) for a in got['a']) == [2, 3] and 'c' in got.dims,
          'expand_dims after other harvester: {}'.format(got))
    h1.save_full_ds()
    check(load_ds(name2).identical(got), 'save_full_ds() changed the file')
    check(sorted(os.listdir(d)) == ['res.dmp', 'two.h5'],
          'files: {}'.format(os.listdir(d)))


def scenario_not_persistent():
    VERSION[0] = 0
    h = Harvester(Runner(fn, var_names='out'))
    h.harvest_combos({'a': [1, 2], 'b': [1]}, **Q)
    h.harvest_cases([{'a': 3, 'b': 2}], overwrite=False, **Q)
    check(m_of_ds(h.full_ds)['pts'] == {(1, 1): 11.0, (2, 1): 21.0,
                                        (3, 2): 32.0}, 'no data_name merge')
    h.drop_sel(a=[2])
    check(sorted(m_of_ds(h.full_ds)['pts']) == [(1, 1), (3, 2)],
          'no data_name drop_sel')
    h.expand_dims('c', 1)
    check('c' in h.full_ds.dims, 'no data_name expand_dims')
    try:
        h.save_full_ds()
        check(False, 'save_full_ds without data_name did not raise')
    except XYZError:
        pass
    try:
        h.save_full_ds(h.full_ds, engine='nonsense')
        check(False, 'save_full_ds without data_name did not raise')
    except XYZError:
        pass


def scenario_bad_engine_keeps_memory(tmp):
    d = os.path.join(tmp, 'badengine')
    os.mkdir(d)
    VERSION[0] = 0
    h = Harvester(Runner(fn, var_names='out'), os.path.join(d, 'res'))
    h.harvest_combos({'a': [1], 'b': [1]}, **Q)
    held = h.full_ds
    try:
        h.save_full_ds(xr.Dataset(), engine='nonsense')
        check(False, 'unknown engine did not raise')
    except KeyError:
        pass
    check(h.full_ds is held, 'unknown engine: full_ds was swapped')
    check(sorted(os.listdir(d)) == ['res.h5'], 'unknown engine: files')


def scenario_save_merge_ds(tmp, engine):
    d = os.path.join(tmp, 'smd_' + engine)
    os.mkdir(d)
    name = os.path.join(d, 'merged')

    def grid(avals, bvals):
        return xr.Dataset(
            {'out': (('a', 'b'),
                     np.array([[fn(a, b) for b in bvals] for a in avals]))},
            coords={'a': avals, 'b': bvals})

    VERSION[0] = 0
    model = None
    steps = [([1, 2], [1], None, 0), ([3], [1, 2], None, 0),
             ([2, 3], [1], False, 1), ([1], [1, 2], True, 1),
             ([1, 2], [1, 2], None, 1)]
    for avals, bvals, overwrite, ver in steps:
        VERSION[0] = ver
        new = m_of_grid(avals, bvals)
        try:
            model_next = m_merge(model, new, overwrite)
        except Conflict:
            model_next = None
        try:
            save_merge_ds(grid(avals, bvals), name, overwrite=overwrite,
                          engine=engine)
            raised = False
        except xr.MergeError:
            raised = True
        check(raised == (model_next is None), 'save_merge_ds conflict')
        if model_next is not None:
            model = model_next
        check(m_of_ds(load_ds(name, engine=engine)) == model,
              'save_merge_ds: file differs from model ({})'.format(engine))
        check(sorted(os.listdir(d)) == ['merged' + EXT[engine]],
              'save_merge_ds files: {}'.format(os.listdir(d)))


def main():
    assert os.path.dirname(os.path.dirname(xyzpy.__file__)) == os.getcwd(), \
        xyzpy.__file__
    tmp = tempfile.mkdtemp(prefix='c05_t8_')
    try:
        for engine in ('h5netcdf', 'joblib'):
            for with_ext in (False, True):
                for seed in range(12):
                    run_sequence(seed, engine, with_ext, tmp)
            scenario_conflict_leaves_everything(tmp, engine)
            scenario_save_merge_ds(tmp, engine)
        scenario_engine_override_and_expand(tmp)
        scenario_not_persistent()
        scenario_bad_engine_keeps_memory(tmp)
    finally:
        shutil.rmtree(tmp, ignore_errors=True)

    if FAILS:
        print('FAIL: {} check(s) failed'.format(len(FAILS)))
        for msg in FAILS[:5]:
            print(' -', msg)
        sys.exit(1)
    print('PASS')


if __name__ == '__main__':
    main()
