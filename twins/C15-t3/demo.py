"""Demo / check for property C15: sampling only ever appends correct rows.

Run as:  cd <worktree> && /venv/bin/python /path/to/demo.py
Prints PASS and exits 0 if everything holds.
"""
import os
import sys
import tempfile

sys.path.insert(0, os.getcwd())

import numpy as np
import pandas as pd

import xyzpy
from xyzpy import Runner, Sampler
from xyzpy.manage import load_df

_here = os.path.realpath(os.getcwd())
_pkg = os.path.realpath(os.path.dirname(os.path.dirname(xyzpy.__file__)))
assert _pkg == _here, (xyzpy.__file__, _here)

A_DEFAULT = (1, 2, 3, 4, 5)
KINDS = ("x", "y")
C_DEFAULT = 42


def fn(a, b, kind, c):
    return a + b, a - b, c * a, a * 0.5, kind + str(a)


OUT_COLS = ["sum", "diff", "prod", "half", "tag"]
ARG_COLS = ["a", "b", "kind"]


def make_runner():
    return Runner(fn, var_names=OUT_COLS, constants={"c": C_DEFAULT})


def rand_b():
    return int(np.random.randint(10, 20))


def default_combos():
    # deliberately a tuple of pairs in one case and a dict in the other
    return (("a", A_DEFAULT), ("b", rand_b), ("kind", KINDS))


def b_in_default(b):
    return 10 <= b < 20


def norm(df):
    """Column-sorted, index-reset copy for comparisons."""
    return df[sorted(df.columns)].reset_index(drop=True)


def same(df1, df2):
    df1, df2 = norm(df1), norm(df2)
    if list(df1.columns) != list(df2.columns) or len(df1) != len(df2):
        return False
    if len(df1) == 0:
        return True
    return bool((df1.astype(str).values == df2.astype(str).values).all()) \
        and df1.compare(df2).empty


def check_rows(rows, a_ok, b_ok, c_eff, check_c_col=True):
    assert set(ARG_COLS + OUT_COLS + ["c"]) == set(rows.columns), rows.columns
    for _, r in rows.iterrows():
        a, b, kind = int(r["a"]), int(r["b"]), r["kind"]
        assert r["a"] == a and r["b"] == b
        assert a_ok(a), a
        assert b_ok(b), b
        assert kind in KINDS, kind
        if check_c_col:
            assert r["c"] == c_eff, (r["c"], c_eff)
        exp = fn(a, b, kind, c_eff)
        got = tuple(r[k] for k in OUT_COLS)
        assert got == exp, (got, exp)


class Tracker:
    """Tracks the expected accumulated table across runs."""

    def __init__(self, path, engine):
        self.path = path
        self.engine = engine
        self.prev = None

    def after_run(self, sampler, n, a_ok, b_ok, c_eff, check_c_col=True):
        full = sampler.full_df
        n_prev = 0 if self.prev is None else len(self.prev)
        # exactly n rows appended
        assert len(full) == n_prev + n, (len(full), n_prev, n)
        assert list(full.index) == list(range(n_prev + n))
        # earlier rows unchanged
        if self.prev is not None:
            assert same(full.iloc[:n_prev], self.prev)
        # new rows are correct
        new = full.iloc[n_prev:]
        check_rows(new, a_ok, b_ok, c_eff, check_c_col)
        # last_df is exactly the new rows
        assert len(sampler.last_df) == n
        assert same(sampler.last_df, new)
        # disk equals memory
        assert os.path.isfile(self.path)
        assert not os.path.exists(self.path + ".tmp")
        disk = load_df(self.path, engine=self.engine)
        assert same(disk, full)
        assert list(disk.columns) == list(full.columns)
        # a new sampler on the same file continues from it
        s2 = Sampler(make_runner(), self.path, engine=self.engine)
        assert same(s2.full_df, full)
        self.prev = full.copy(deep=True)


def scenario(tmpdir, engine, batchsize, num_batches, as_dict):
    path = os.path.join(tmpdir, "samples." + {"pickle": "pkl",
                                              "csv": "csv"}[engine])
    dc = default_combos()
    if as_dict:
        dc = dict(dc)

    def new_sampler():
        return Sampler(make_runner(), path, default_combos=dc, engine=engine)

    t = Tracker(path, engine)

    # run 1: plain sample_combos with the defaults
    s = new_sampler()
    out = s.sample_combos(4, verbosity=0)
    assert out is s.last_df
    t.after_run(s, 4, A_DEFAULT.__contains__, b_in_default, C_DEFAULT)

    # run 2: fresh sampler, override one combo + a constant
    s = new_sampler()
    s.sample_combos(3, combos={"a": [7, 8]}, constants={"c": 5}, verbosity=0)
    t.after_run(s, 3, (7, 8).__contains__, b_in_default, 5)

    # run 3: same sampler, override with tuple-of-pairs, generator for 'a'
    s.sample_combos(2, combos=(("b", (100, 200)), ("a", lambda: 9)),
                    engine=engine, verbosity=0)
    t.after_run(s, 2, (9,).__contains__, (100, 200).__contains__, C_DEFAULT)

    # run 4: crop, sow_samples / grow_missing / reap
    s = new_sampler()
    crop = s.Crop("crop4", parent_dir=tmpdir, batchsize=batchsize,
                  num_batches=num_batches)
    crop.sow_samples(5, combos={"b": [100, 200]}, verbosity=0)
    crop.grow_missing()
    df = crop.reap()
    assert df is s.last_df
    t.after_run(s, 5, A_DEFAULT.__contains__, (100, 200).__contains__,
                C_DEFAULT)
    assert not os.path.exists(crop.location)  # cleaned up

    # run 5: fresh sampler, crop with constants override, grow batch by batch
    s = new_sampler()
    crop = s.Crop("crop5", parent_dir=tmpdir, batchsize=batchsize,
                  num_batches=num_batches)
    crop.sow_samples(4, constants={"c": 3}, verbosity=0)
    for i in range(1, crop.num_batches + 1):
        crop.grow(i)
    # reaping without syncing must not touch the sampler or the file
    before = s.full_df.copy(deep=True)
    df_nosync = crop.reap_samples(s, sync=False, clean_up=False)
    assert len(df_nosync) == 4
    assert same(s.full_df, before)
    assert same(load_df(path, engine=engine), before)
    assert os.path.exists(crop.location)
    df = crop.reap(clean_up=False)
    assert same(df, df_nosync)
    # (the 'c' column records the runner's constant, outputs use the sown one)
    t.after_run(s, 4, A_DEFAULT.__contains__, b_in_default, 3,
                check_c_col=False)
    assert os.path.exists(crop.location)  # clean_up=False respected
    crop.delete_all()

    # run 6: incomplete crop -> reap with allow_incomplete keeps batch files
    s = new_sampler()
    crop = s.Crop("crop6", parent_dir=tmpdir, batchsize=1)
    crop.sow_samples(3, verbosity=0)
    crop.grow((1, 3))
    try:
        crop.reap()
    except xyzpy.gen.farming.XYZError:
        pass
    else:
        raise AssertionError("should not be ready to reap")
    assert same(s.full_df, t.prev)
    # incomplete reap without syncing: nan rows, batch files kept by default
    df_inc = crop.reap_samples(s, sync=False, allow_incomplete=True)
    assert len(df_inc) == 3
    for col in ("sum", "diff", "prod", "half"):
        assert [bool(np.isnan(float(x))) for x in df_inc[col]] \
            == [False, True, False], df_inc
    check_rows(df_inc.iloc[[0, 2]], A_DEFAULT.__contains__, b_in_default,
               C_DEFAULT)
    assert os.path.exists(crop.location)
    assert crop.missing_results() == (2,)
    assert same(s.full_df, t.prev)
    assert same(load_df(path, engine=engine), t.prev)
    crop.grow_missing()
    crop.reap_samples(s)
    t.after_run(s, 3, A_DEFAULT.__contains__, b_in_default, C_DEFAULT)
    assert not os.path.exists(crop.location)

    # run 7: one more direct sample
    s.sample_combos(1, verbosity=0)
    t.after_run(s, 1, A_DEFAULT.__contains__, b_in_default, C_DEFAULT)

    # missing sampler
    crop = Runner(fn, var_names=OUT_COLS).Crop("crop8", parent_dir=tmpdir)
    try:
        crop.reap_samples(None)
    except ValueError:
        pass
    else:
        raise AssertionError("expected ValueError")

    assert len(t.prev) == 4 + 3 + 2 + 5 + 4 + 3 + 1


def check_generation_order():
    """gen_cases_fnargs draws row by row, column by column, in combos order,
    with defaults first and overrides keeping/adding keys like dict.update."""
    counter = iter(range(10**6))

    def nxt():
        return next(counter)

    dc = {"p": nxt, "q": (10, 20, 30), "r": nxt}
    s = Sampler(make_runner(), None, default_combos=dc)
    fn_args, cases = s.gen_cases_fnargs(4)
    assert fn_args == ("p", "q", "r")
    assert isinstance(fn_args, tuple) and isinstance(cases, tuple)
    assert all(isinstance(c, tuple) for c in cases)
    assert [(c[0], c[2]) for c in cases] == [(0, 1), (2, 3), (4, 5), (6, 7)]
    assert all(c[1] in (10, 20, 30) for c in cases)

    # overrides: existing key keeps position, new key appended
    fn_args, cases = s.gen_cases_fnargs(2, combos=(("z", ["a", "b"]), ("q", [5])))
    assert fn_args == ("p", "q", "r", "z")
    assert [c[1] for c in cases] == [5, 5]
    assert all(c[3] in ("a", "b") for c in cases)
    assert [(c[0], c[2]) for c in cases] == [(8, 9), (10, 11)]
    # defaults not mutated
    assert list(s.default_combos) == ["p", "q", "r"]
    assert s.default_combos["q"] == (10, 20, 30)

    # n = 0 and empty combos
    assert s.gen_cases_fnargs(0) == (("p", "q", "r"), ())
    s0 = Sampler(make_runner(), None)
    assert s0.gen_cases_fnargs(2) == ((), ((), ()))

    # the random stream is consumed in exactly the reference order
    combos = {"a": A_DEFAULT, "b": rand_b, "kind": KINDS,
              "w": np.arange(100)}
    s = Sampler(make_runner(), None, default_combos=combos)
    for seed, n in [(0, 1), (1, 5), (2, 17)]:
        np.random.seed(seed)
        ref = tuple(
            tuple(v() if callable(v) else np.random.choice(v)
                  for v in combos.values())
            for _ in range(n)
        )
        np.random.seed(seed)
        fn_args, cases = s.gen_cases_fnargs(n)
        assert fn_args == tuple(combos)
        assert cases == ref
        assert [[type(x) for x in c] for c in cases] == \
            [[type(x) for x in c] for c in ref]


def check_in_memory_and_add_df(tmpdir):
    # no file at all: accumulate in memory only
    s = Sampler(make_runner(), None, default_combos=default_combos())
    first = s.sample_combos(3, verbosity=0)
    assert len(s.full_df) == 3 and same(s.full_df, first)
    # full_df is distinct from last_df (deep copy on the first run)
    assert s.full_df is not s.last_df
    keep = s.full_df.copy(deep=True)
    s.last_df.loc[0, "sum"] = -12345
    assert same(s.full_df, keep)
    s.sample_combos(2, verbosity=0)
    assert len(s.full_df) == 5 and same(s.full_df.iloc[:3], keep)
    check_rows(s.full_df, A_DEFAULT.__contains__, b_in_default, C_DEFAULT)
    assert os.listdir(tmpdir) == []

    # add_df from a dict, with and without syncing
    for engine, ext in [("pickle", "pkl"), ("csv", "csv"), (None, "pkl")]:
        path = os.path.join(tmpdir, "adddf." + ext)
        if os.path.exists(path):
            os.remove(path)
        eng = "pickle" if engine is None else engine
        s = Sampler(make_runner(), path, engine=engine)
        assert s.engine == eng
        assert s.full_df is None  # no file yet -> nothing
        s.add_df({"u": [1, 2], "v": [3, 4]})
        assert s.full_df.to_dict("list") == {"u": [1, 2], "v": [3, 4]}
        assert same(load_df(path, engine=eng), s.full_df)
        # no sync: memory grows, disk doesn't
        s.add_df(pd.DataFrame({"u": [5], "v": [6]}), sync=False)
        assert s.full_df.to_dict("list") == {"u": [1, 2, 5], "v": [3, 4, 6]}
        assert len(load_df(path, engine=eng)) == 2
        # syncing reloads the on-disk table first, then appends + saves
        s.add_df({"v": [8], "u": [7]}, engine=eng)
        assert s.full_df.to_dict("list") == {"u": [1, 2, 7], "v": [3, 4, 8]}
        assert same(load_df(path, engine=eng), s.full_df)
        # explicit save of a replacement table
        s.save_full_df(pd.DataFrame({"u": [0], "v": [0]}))
        assert len(s.full_df) == 1
        assert same(load_df(path, engine=eng), s.full_df)
        assert not os.path.exists(path + ".tmp")
        s2 = Sampler(make_runner(), path, engine=engine)
        assert same(s2.full_df, s.full_df)
        s.delete_df()
        assert not os.path.exists(path)


def check_unwritable_file(tmpdir):
    """load_full_df: missing file -> nothing happens; existing but
    unwritable file -> OSError (simulated, since root can write anything)."""
    from unittest import mock

    path = os.path.join(tmpdir, "ro.pkl")
    s = Sampler(make_runner(), path, default_combos=default_combos())
    s.sample_combos(2, verbosity=0)

    calls = []

    def fake_access(name, mode):
        calls.append((name, mode))
        return False

    with mock.patch("os.access", fake_access):
        # missing file: silently nothing
        s_missing = Sampler(make_runner(), os.path.join(tmpdir, "nope.pkl"))
        assert s_missing.load_full_df() is None
        assert s_missing.full_df is None
        s_missing.add_df({"u": [1]}, sync=False)
        assert len(s_missing.full_df) == 1
        # existing file: error, and nothing appended / written
        s_ro = Sampler(make_runner(), path, default_combos=default_combos())
        for action in (lambda: s_ro.full_df,
                       lambda: s_ro.load_full_df(),
                       lambda: s_ro.add_df({"a": [1]}),
                       lambda: s_ro.sample_combos(1, verbosity=0)):
            try:
                action()
            except OSError as e:
                assert "exists but cannot be written to" in str(e)
                assert path in str(e)
            else:
                raise AssertionError("expected OSError")
        assert s_ro._full_df is None
    assert calls and all(m == os.W_OK for _, m in calls)
    assert len(load_df(path)) == 2
    assert same(load_df(path), s.full_df)


def main():
    np.random.seed(1234)
    check_generation_order()
    with tempfile.TemporaryDirectory() as tmpdir:
        check_in_memory_and_add_df(tmpdir)
    with tempfile.TemporaryDirectory() as tmpdir:
        check_unwritable_file(tmpdir)
    i = 0
    for engine in ("pickle", "csv"):
        for batchsize, num_batches in [(1, None), (3, None), (None, None),
                                       (None, 2), (5, None)]:
            with tempfile.TemporaryDirectory() as tmpdir:
                scenario(tmpdir, engine, batchsize, num_batches,
                         as_dict=bool(i % 2))
            i += 1
    print("PASS")


if __name__ == "__main__":
    main()
